#!/usr/bin/env python3
"""Regenerates the seeded-change table of DESIGN.md (between the SEED-MATRIX markers) from /verif/seeded/*/meta.json."""
import glob
import json
import os
import re

VERIF = os.path.dirname(os.path.dirname(os.path.abspath(__file__)))


def main():
    rows = []
    for p in sorted(glob.glob(os.path.join(VERIF, "seeded", "*", "meta.json"))):
        m = json.load(open(p))
        d = m["detection"]
        title = re.sub(r"\s+", " ", m.get("title", "")).strip()
        title = re.sub(r"^(C\d\d\s*/\s*\w+\s*[-—:]+\s*|Seed(ed)? (change )?\w+\s*[-—:]+\s*)", "", title)[:110]
        need = re.sub(r"\s+", " ", m.get("needs_to_manifest", "")).strip()[:150]
        others = [c for c in d["caught_by"] if c != m["property"]]
        run = d.get("checks_run") or []
        scope = "all 20" if len(run) >= 20 else ",".join(run)
        latest = d.get("own_check_latest")
        own_now = latest["reports_it"] if latest else d["own_property_check_reports_it"]
        own_txt = "**yes**" if own_now else "NO"
        if latest and latest["reports_it"] and not d["own_property_check_reports_it"] and m["property"] in run:
            own_txt = "**yes** (after strengthening; missed at %s)" % d["verif_commit"][:7]
        if latest:
            own_txt += " @%s" % latest["verif_commit"][:7]
        rows.append("| %s | %s | %s | %s | %s | %s (%s) |" % (
            m["id"], title.replace("|", "/"), need.replace("|", "/"), own_txt,
            ", ".join(others) if others else "-", d["verif_commit"][:7], scope))
    own = sum(1 for r in rows if "**yes**" in r)
    head = ("%d changes, each written by a fresh sub-agent that saw only the property text and its own scratch worktree, each validated in a scratch "
            "copy of /repo (existing suite passes with it, demonstration fails with it and passes without it); %d are reported by the check of "
            "their own property (quick tier). `seeded/<id>/` holds patch, demonstration, the agent's notes and `meta.json`.\n\n"
            "| id | change | needs, to manifest | own check | also reported by | verif commit (checks run) |\n|---|---|---|---|---|---|\n") % (len(rows), own)
    table = head + "\n".join(rows) + "\n"
    dp = os.path.join(VERIF, "DESIGN.md")
    s = open(dp).read()
    if "<!-- SEED-MATRIX-BEGIN -->" in s:
        s = re.sub(r"<!-- SEED-MATRIX-BEGIN -->.*?<!-- SEED-MATRIX-END -->", lambda _: "<!-- SEED-MATRIX-BEGIN -->\n" + table + "<!-- SEED-MATRIX-END -->", s, flags=re.S)
    else:
        s = s.replace("SEED_MATRIX_PLACEHOLDER", "<!-- SEED-MATRIX-BEGIN -->\n" + table + "<!-- SEED-MATRIX-END -->")
    open(dp, "w").write(s)
    print("table with", len(rows), "rows;", own, "caught by own check")


if __name__ == "__main__":
    main()
