#!/usr/bin/env python3
"""Regenerates /verif/MANIFEST.json from the table below (kept valid at all times)."""
import json, os
VERIF = os.path.dirname(os.path.dirname(os.path.abspath(__file__)))
props = [json.loads(l) for l in open(os.path.join(VERIF, "properties.jsonl"))]

CHECKS = {
 "C20": dict(level="proof", technique="Coq proof (invariant + induction over all Set histories) on a hand-written model tied by extracted-model correspondence",
      text="Theorem C20 (Props/C20.v): for every finite list of int32 arguments the model of Small.Set returns Ok with exactly the answers of a mathematical set; proved by an abstraction invariant and induction, no bound on history length or values. The model is tied to internal/bitset/set.go by running the extracted model and the real Set on the same histories (exhaustive short histories over the property's alphabet + random long ones).",
      note="Trusted: Coq kernel, extraction (ExtrOcamlBasic), OCaml driver, Go harness; uint64 words modelled as Z, slices as lists with explicit panics. The tie to the Go code is differential testing, not proof.",
      ref="8 C20"),
}
NA_REASON = "machinery for this property is not built yet in this revision (work in progress; will be claimed when its check exists)"

def main():
    checks, na = [], []
    for p in props:
        pid = p["id"]
        if pid in CHECKS:
            c = CHECKS[pid]
            checks.append({
                "property_id": pid,
                "quick_cmd": "./check %s quick" % pid,
                "thorough_cmd": "./check %s thorough" % pid,
                "evidence_file": "/verif/evidence/%s.json" % pid,
                "replay_cmd_template": "./check replay {path}",
                "engine": "rocq-model+correspondence",
                "level_claimed": {"category": c["level"], "text": c["text"], "design_ref": c["ref"]},
                "level_note": c["note"],
                "technique": c["technique"],
            })
        else:
            na.append({"property_id": pid, "reason": NA_REASON})
    man = {
        "version": 1,
        "setup_cmd": "./check setup",
        "hooks": {
            "guard": "verif",
            "enable": "go build -tags verif -overlay /verif/work/overlay.json (overlay generated at run time from /verif/harness; no file is added to /repo)",
            "baseline_off_cmd": "cd /repo && go test -vet=off -count=1 ./...",
            "source_commits": [],
            "add_only": True,
        },
        "engines": [{"name": "rocq-model+correspondence", "path": "/verif/check",
                     "serves_properties": [c["property_id"] for c in checks],
                     "kind_free_text": "Coq 8.16 development under /verif/coq (model, theorems), translators + correspondence harness under /verif/harness (Go, built inside /repo's module via -overlay) and /verif/ocaml (driver of the extracted model), orchestrated by /verif/lib"}],
        "checks": checks,
        "not_applicable": na,
        "notes": "See DESIGN.md. known_findings.txt lists repaired defects (fixed:) and open findings.",
    }
    json.dump(man, open(os.path.join(VERIF, "MANIFEST.json"), "w"), indent=1)
    print("wrote MANIFEST.json with", len(checks), "checks,", len(na), "not_applicable")

if __name__ == "__main__":
    main()
