#!/usr/bin/env python3
"""Regenerates /verif/MANIFEST.json from the table below (kept valid at all times)."""
import json, os
VERIF = os.path.dirname(os.path.dirname(os.path.abspath(__file__)))
props = [json.loads(l) for l in open(os.path.join(VERIF, "properties.jsonl"))]

CHECKS = {
 "C01": {
  "level": "proof",
  "technique": "Coq proofs of field/framing encoders + extracted-model correspondence on exact Marshal bytes + protobuf-go parse",
  "text": "Proved in Coq for all values/sizes (no bound): every scalar writer emits the reference field for every value of all 15 kinds and every valid field number (C01_scalar_field); anyBytes frames every payload length with tag+minimal length without panicking (C01_framing); the spec varint reader accepts what is written. The whole-message statement is NOT proved (stated as PARTIAL in the Props file); it is decided on every run by evaluating the extracted model (generated-program interpreter + reference spec) and the implementation on the same generated inputs and comparing them with each other and with protobuf-go.",
  "note": "Trusted: Coq 8.16.1 kernel (vm_compute, no native_compute, no axioms: Print Assumptions recorded in evidence), extraction with ExtrOcamlBasic, the OCaml driver, the Go harness and generators, protobuf-go v1.31.0 as oracle. The tie between model and Go code is differential testing on the projection named in the level text, not proof.",
  "ref": "8 C01"
 },
 "C02": {
  "level": "proof",
  "technique": "Coq proofs of decode rules and reader contracts + correspondence on rewritten valid encodings + protobuf-go",
  "text": "Proved in Coq for all values/sizes (no bound): the narrowing/zig-zag/bool rules equal the protobuf rules for every 64-bit wire value (C02_value_rules); single readers return the encoded value and leave the cursor on the next tag. The whole-message statement is NOT proved (stated as PARTIAL in the Props file); it is decided on every run by evaluating the extracted model (generated-program interpreter + reference spec) and the implementation on the same generated inputs and comparing them with each other and with protobuf-go.",
  "note": "Trusted: Coq 8.16.1 kernel (vm_compute, no native_compute, no axioms: Print Assumptions recorded in evidence), extraction with ExtrOcamlBasic, the OCaml driver, the Go harness and generators, protobuf-go v1.31.0 as oracle. The tie between model and Go code is differential testing on the projection named in the level text, not proof.",
  "ref": "8 C02"
 },
 "C03": {
  "level": "proof",
  "technique": "Coq round-trip proofs per kind and for picoconv + model/implementation correspondence",
  "text": "Proved in Coq for all values/sizes (no bound): dec(enc v) = v bit for bit for every value of every kind; Duration and Time round trips over int64. The whole-message statement is NOT proved (stated as PARTIAL in the Props file); it is decided on every run by evaluating the extracted model (generated-program interpreter + reference spec) and the implementation on the same generated inputs and comparing them with each other and with protobuf-go.",
  "note": "Trusted: Coq 8.16.1 kernel (vm_compute, no native_compute, no axioms: Print Assumptions recorded in evidence), extraction with ExtrOcamlBasic, the OCaml driver, the Go harness and generators, protobuf-go v1.31.0 as oracle. The tie between model and Go code is differential testing on the projection named in the level text, not proof.",
  "ref": "8 C03"
 },
 "C04": {
  "level": "proof",
  "technique": "Coq bounds proofs of wire readers + malformed-stream correspondence (outcome class) + runtime observation",
  "text": "Proved in Coq for all values/sizes (no bound): on arbitrary bytes the varint and length-delimited readers return an error or a length inside the input (no out-of-bounds slice). PARTIAL: termination (fuel never exhausted), panic-freedom of the Go code, stack depth and time are validated by correspondence/observation (recover, watchdog, 10001-deep groups, input bytes before/after), not proved.",
  "note": "Trusted: Coq 8.16.1 kernel (vm_compute, no native_compute, no axioms: Print Assumptions recorded in evidence), extraction with ExtrOcamlBasic, the OCaml driver, the Go harness and generators, protobuf-go v1.31.0 as oracle. The tie between model and Go code is differential testing on the projection named in the level text, not proof.",
  "ref": "8 C04"
 },
 "C05": {
  "level": "proof",
  "technique": "Coq proofs of rejection/stickiness lemmas + correspondence on err==nil vs independent well-formedness predicate",
  "text": "Proved in Coq for all values/sizes (no bound): numbers above 2^29-1, truncated tags and wrong wire types are errors; dec.err is never cleared by cursor moves or popState. PARTIAL: err==nil <-> wf_input for whole messages is decided per run: implementation = model = Coq wf_input = independent predicate on protobuf-go's protowire, on prefixes/corruptions/short token strings.",
  "note": "Trusted: Coq 8.16.1 kernel (vm_compute, no native_compute, no axioms: Print Assumptions recorded in evidence), extraction with ExtrOcamlBasic, the OCaml driver, the Go harness and generators, protobuf-go v1.31.0 as oracle. The tie between model and Go code is differential testing on the projection named in the level text, not proof.",
  "ref": "8 C05"
 },
 "C06": {
  "level": "proof",
  "technique": "Coq proofs of minimal varints/tags/length patching + exact-bytes correspondence + fixpoint oracle",
  "text": "Proved in Coq for all values/sizes (no bound): minimal varints for every uint64, canonical tags for every valid number, minimal length prefix for every payload length (all three patching branches), default omission. The whole-message statement is NOT proved (stated as PARTIAL in the Props file); it is decided on every run by evaluating the extracted model (generated-program interpreter + reference spec) and the implementation on the same generated inputs and comparing them with each other and with protobuf-go. Violations are decided by the property's own fixpoint test (bytes == deterministic re-marshal of their parse).",
  "note": "Trusted: Coq 8.16.1 kernel (vm_compute, no native_compute, no axioms: Print Assumptions recorded in evidence), extraction with ExtrOcamlBasic, the OCaml driver, the Go harness and generators, protobuf-go v1.31.0 as oracle. The tie between model and Go code is differential testing on the projection named in the level text, not proof.",
  "ref": "8 C06"
 },
 "C08": {
  "level": "proof",
  "technique": "Coq proofs about the generator model (Always selection) and writers + presence-skeleton correspondence",
  "text": "Proved in Coq for all values/sizes (no bound): for every schema the generator model selects Always writers for pointer scalars and scalar/enum oneof members; Always writers emit every value; present sub-messages are framed, absent ones leave no trace. The whole-message statement is NOT proved (stated as PARTIAL in the Props file); it is decided on every run by evaluating the extracted model (generated-program interpreter + reference spec) and the implementation on the same generated inputs and comparing them with each other and with protobuf-go.",
  "note": "Trusted: Coq 8.16.1 kernel (vm_compute, no native_compute, no axioms: Print Assumptions recorded in evidence), extraction with ExtrOcamlBasic, the OCaml driver, the Go harness and generators, protobuf-go v1.31.0 as oracle. The tie between model and Go code is differential testing on the projection named in the level text, not proof.",
  "ref": "8 C08"
 },
 "C09": {
  "level": "proof",
  "technique": "Coq cursor lemmas + history correspondence (sequential vs one-shot vs reference)",
  "text": "Proved in Coq for all values/sizes (no bound): non-pending readers leave state untouched; consuming n bytes leaves exactly the rest; the value read is independent of the old value. The whole-message statement is NOT proved (stated as PARTIAL in the Props file); it is decided on every run by evaluating the extracted model (generated-program interpreter + reference spec) and the implementation on the same generated inputs and comparing them with each other and with protobuf-go.",
  "note": "Trusted: Coq 8.16.1 kernel (vm_compute, no native_compute, no axioms: Print Assumptions recorded in evidence), extraction with ExtrOcamlBasic, the OCaml driver, the Go harness and generators, protobuf-go v1.31.0 as oracle. The tie between model and Go code is differential testing on the projection named in the level text, not proof.",
  "ref": "8 C09"
 },
 "C10": {
  "level": "proof",
  "technique": "Coq lemmas on skipping/re-tagging + unknown-injection correspondence",
  "text": "Proved in Coq for all values/sizes (no bound): known readers ignore unknown pending fields; captured fields get the canonical tag; skipping a varint consumes exactly its bytes. The whole-message statement is NOT proved (stated as PARTIAL in the Props file); it is decided on every run by evaluating the extracted model (generated-program interpreter + reference spec) and the implementation on the same generated inputs and comparing them with each other and with protobuf-go.",
  "note": "Trusted: Coq 8.16.1 kernel (vm_compute, no native_compute, no axioms: Print Assumptions recorded in evidence), extraction with ExtrOcamlBasic, the OCaml driver, the Go harness and generators, protobuf-go v1.31.0 as oracle. The tie between model and Go code is differential testing on the projection named in the level text, not proof.",
  "ref": "8 C10"
 },
 "C11": {
  "level": "proof",
  "technique": "Coq proof generic in key/value kind for entry encoding + correspondence on map messages",
  "text": "Proved in Coq for all values/sizes (no bound): for all 12x15 kinds an entry is tag+minimal length+(key unless default)+(value unless default) (C11_entry). The whole-message statement is NOT proved (stated as PARTIAL in the Props file); it is decided on every run by evaluating the extracted model (generated-program interpreter + reference spec) and the implementation on the same generated inputs and comparing them with each other and with protobuf-go. All 180 instantiations are exercised through a generated schema in the thorough tier; quick covers the 27 checked-in instantiations.",
  "note": "Trusted: Coq 8.16.1 kernel (vm_compute, no native_compute, no axioms: Print Assumptions recorded in evidence), extraction with ExtrOcamlBasic, the OCaml driver, the Go harness and generators, protobuf-go v1.31.0 as oracle. The tie between model and Go code is differential testing on the projection named in the level text, not proof.",
  "ref": "8 C11"
 },
 "C13": {
  "level": "proof",
  "technique": "Coq proofs of writer/reader contracts + exhaustive grids against protobuf-go protowire",
  "text": "Proved in Coq for all values/sizes (no bound): all 30 single writers (15 kinds x Always) append exactly the reference field or nothing; Message/AlwaysMessage/PresentMessage/AlwaysAnyBytes compose to tag+len+payload for every length and leave no trace on absence; single readers: untouched on another field, sticky error naming the field on a wrong wire type, exactly one field consumed otherwise. PARTIAL: Repeated* readers/writers, Message readers and arbitrary programs are tied by the exhaustive correspondence grids only.",
  "note": "Trusted: Coq 8.16.1 kernel (vm_compute, no native_compute, no axioms: Print Assumptions recorded in evidence), extraction with ExtrOcamlBasic, the OCaml driver, the Go harness and generators, protobuf-go v1.31.0 as oracle. The tie between model and Go code is differential testing on the projection named in the level text, not proof.",
  "ref": "8 C13"
 },
 "C14": {
  "level": "proof",
  "technique": "Coq arithmetic proofs with int64 wrap-around + correspondence against durationpb/timestamppb",
  "text": "Proved in Coq for all values/sizes (no bound): Duration split is (quot, rem) with same sign; join is exact when it fits and saturates to Min/MaxInt64 otherwise (the division test detects every product overflow); round trip on every int64; Timestamp normalisation for every int32 nanos and identity on instants. time.Unix etc. are modelled from the Go source.",
  "note": "Trusted: Coq 8.16.1 kernel (vm_compute, no native_compute, no axioms: Print Assumptions recorded in evidence), extraction with ExtrOcamlBasic, the OCaml driver, the Go harness and generators, protobuf-go v1.31.0 as oracle. The tie between model and Go code is differential testing on the projection named in the level text, not proof.",
  "ref": "8 C14"
 },
 "C15": {
  "level": "proof",
  "technique": "Coq algebraic proofs over the full 32-bit domain + grids (thorough: exhaustive 2^32 sweep)",
  "text": "Proved in Coq for all values/sizes (no bound): for every value of every 32-bit kind the bytes are the closed form of the encoding document (sign extension, zig-zag, little-endian two's complement) and decoding returns the value; no exceptional value. The proof covers all 2^32 values algebraically.",
  "note": "Trusted: Coq 8.16.1 kernel (vm_compute, no native_compute, no axioms: Print Assumptions recorded in evidence), extraction with ExtrOcamlBasic, the OCaml driver, the Go harness and generators, protobuf-go v1.31.0 as oracle. The tie between model and Go code is differential testing on the projection named in the level text, not proof.",
  "ref": "8 C15"
 },
 "C19": {
  "level": "proof",
  "technique": "Coq proof of FieldNumber.String for every int32 + error (field,class) correspondence",
  "text": "Proved in Coq for all values/sizes (no bound): String never panics and yields the canonical decimal numeral whose value is the number (C19_str); a wrong wire type is reported with the field's own number. PARTIAL: other error paths are tied by comparing (field, class) of model and implementation errors on reader grids.",
  "note": "Trusted: Coq 8.16.1 kernel (vm_compute, no native_compute, no axioms: Print Assumptions recorded in evidence), extraction with ExtrOcamlBasic, the OCaml driver, the Go harness and generators, protobuf-go v1.31.0 as oracle. The tie between model and Go code is differential testing on the projection named in the level text, not proof.",
  "ref": "8 C19"
 },
 "C20": {
  "level": "proof",
  "technique": "Coq proof (invariant + induction over all Set histories) + extracted-model correspondence",
  "text": "Theorem C20: for every finite list of int32 arguments the model of Small.Set returns Ok with exactly the answers of a mathematical set; abstraction invariant + induction, no bound on history length or values.",
  "note": "Trusted: Coq 8.16.1 kernel (vm_compute, no native_compute, no axioms: Print Assumptions recorded in evidence), extraction with ExtrOcamlBasic, the OCaml driver, the Go harness and generators, protobuf-go v1.31.0 as oracle. The tie between model and Go code is differential testing on the projection named in the level text, not proof.",
  "ref": "8 C20"
 },
 "C07": {
  "level": "other",
  "technique": "verified closure checker (Coq) over the import graph regenerated by go list + nm scan of a linked probe",
  "text": "Theorem closed_sound (every package reachable from a root lies in any import-closed set containing it) proved once; on every run the import graphs of the 4 runtime and 5 generated packages, in both build configurations (plain / -tags verif with the injected hook), are regenerated from `go list -deps` into Coq and the closed set is computed and checked by vm_compute: no reachable package is reflect, fmt or outside std/module (C07_plain, C07_verif). That the linker keeps dead-code elimination on is toolchain behaviour no Gallina model expresses: observed by linking a probe that references every exported function/method/map codec and scanning go tool nm. Hence level other.",
  "note": "Trusted: Coq 8.16.1 kernel (vm_compute, no native_compute, no axioms: Print Assumptions recorded in evidence), extraction with ExtrOcamlBasic, the OCaml driver, the Go harness and generators, protobuf-go v1.31.0 as oracle. The tie between model and Go code is differential testing on the projection named in the level text, not proof. Additionally trusted: `go list` and `go tool nm`.",
  "ref": "8 C07"
 },
 "C12": {
  "level": "proof",
  "technique": "Coq proofs about the generator model + real plugin on grammar-drawn schemas (verdict, emitted programs via T-pico, compiled behaviour vs protobuf-go)",
  "text": "Proved in Coq for all values/sizes (no bound): for every schema the generator model picks Always writers for presence-carrying scalars and oneof members; optional enum is an explicit error; the shipped schemas (regenerated from the .proto files by T-proto) are accepted (C12_checked_in_total, vm_compute). PARTIAL: 'for every supported schema the emitted codecs satisfy C01-C03/C06/C08' is decided per run: a fixed feature-coverage set (all 180 maps, recursion, optional x15 kinds, oneof x15 kinds+enum+message, out-of-order and extreme field numbers, picoconv casts in 4 shapes, capture) plus grammar-drawn schemas go through the REAL plugin built from the working tree; its verdict and its emitted Encode/Decode programs (parsed back by T-pico) must equal the generator model's, the output must compile, two runs must be byte-identical, and the compiled code is driven like the checked-in types against the model and protobuf-go. Boundary schemas must be rejected by plugin and model alike.",
  "note": "Trusted: Coq 8.16.1 kernel (vm_compute, no native_compute, no axioms: Print Assumptions recorded in evidence), extraction with ExtrOcamlBasic, the OCaml driver, the Go harness and generators, protobuf-go v1.31.0 as oracle. The tie between model and Go code is differential testing on the projection named in the level text, not proof.",
  "ref": "8 C12"
 },
 "C16": {
  "level": "other",
  "technique": "Coq schedule-independence theorem + regenerated global-state obligation + Go race detector run compared with sequential baseline",
  "text": "C16_sched: any finite interleaving of threads that write only private state and read shared data gives each thread its sequential result (induction over schedules). Its side condition is discharged from gen/Globals.v, regenerated from the runtime packages on every run: no package-level variable is written/address-taken or holds anything but an errors.New value, no goroutine is started, no sync/unsafe import (C16_no_shared_mutable_state). Data races in compiled Go are a runtime fact: 16-64 goroutines Marshal one message / Unmarshal one input / run picoconv under -race, every result compared with the sequential baseline. Hence level other (partial).",
  "note": "Trusted: Coq 8.16.1 kernel (vm_compute, no native_compute, no axioms: Print Assumptions recorded in evidence), extraction with ExtrOcamlBasic, the OCaml driver, the Go harness and generators, protobuf-go v1.31.0 as oracle. The tie between model and Go code is differential testing on the projection named in the level text, not proof. Additionally trusted: the Go race detector; T-globals is a syntactic go/ast scan.",
  "ref": "8 C16"
 },
 "C17": {
  "level": "proof",
  "technique": "Coq refinement lemmas for a concrete buffer model (array,len,cap, arbitrary stale bytes and growth) + MarshalBuffer/NewEncoderBuffer vs Marshal over buffer shapes",
  "text": "Proved in Coq for all values/sizes (no bound): each primitive the encoder performs on its buffer (buffer[:0], append, shrinking reslice, copy within len, PutUvarint within len) commutes with the view buffer[:len] for every capacity, stale content and growth policy, so no operation exposes stale bytes; on the view, appended bytes never depend on existing content. PARTIAL: the composition to whole Marshal programs over cbuf is not carried out in Coq; MarshalBuffer/NewEncoderBuffer = Marshal is validated over 11 buffer shapes incl. tight capacities, reuse across calls and re-reading earlier results. Argument immutability holds of the model by construction and is validated by before/after snapshots.",
  "note": "Trusted: Coq 8.16.1 kernel (vm_compute, no native_compute, no axioms: Print Assumptions recorded in evidence), extraction with ExtrOcamlBasic, the OCaml driver, the Go harness and generators, protobuf-go v1.31.0 as oracle. The tie between model and Go code is differential testing on the projection named in the level text, not proof. Go slice/append/copy semantics are modelled (Enc/CBuf.v).",
  "ref": "8 C17"
 },
 "C18": {
  "level": "translation_validation",
  "technique": "run the repository's generators from the working tree and diff byte for byte; parse checked-in programs back (T-pico) and compare with the generator model",
  "text": "All 8 generated artefacts are regenerated (generatecoder in a scratch dir; protoc-gen-pico on descriptors parsed from the working tree's .proto files with the go:generate parameters, no protoc needed) and compared byte for byte with the checked-in files; the diff is the replay. Semantic half: the Encode/Decode programs of every checked-in message, parsed back by T-pico, equal the generator model's output on the T-proto schemas; the generator's types table equals the table the scalar model mirrors (C18_types_table) and the shipped schemas generate (C18_schemas_generate).",
  "note": "Trusted: Coq 8.16.1 kernel (vm_compute, no native_compute, no axioms: Print Assumptions recorded in evidence), extraction with ExtrOcamlBasic, the OCaml driver, the Go harness and generators, protobuf-go v1.31.0 as oracle. The tie between model and Go code is differential testing on the projection named in the level text, not proof. protoparse (proto3 subset parser of this harness) stands in for protoc; validated by reproducing all five checked-in *.pico.go byte for byte.",
  "ref": "8 C18"
 }
}
NA_REASON = "machinery for this property is not built yet in this revision (work in progress; will be claimed when its check exists)"

def main():
    checks, na = [], []
    for p in props:
        pid = p["id"]
        if pid in CHECKS:
            c = CHECKS[pid]
            checks.append({
                "property_id": pid,
                "quick_cmd": "./check %s quick" % pid,
                "thorough_cmd": "./check %s thorough" % pid,
                "evidence_file": "/verif/evidence/%s.json" % pid,
                "replay_cmd_template": "./check replay {path}",
                "engine": "rocq-model+correspondence",
                "level_claimed": {"category": c["level"], "text": c["text"], "design_ref": c["ref"]},
                "level_note": c["note"],
                "technique": c["technique"],
            })
        else:
            na.append({"property_id": pid, "reason": NA_REASON})
    man = {
        "version": 1,
        "setup_cmd": "./check setup",
        "hooks": {
            "guard": "verif",
            "enable": "go build -tags verif -overlay /verif/work/overlay.json (overlay generated at run time from /verif/harness; no file is added to /repo)",
            "baseline_off_cmd": "cd /repo && go test -vet=off -count=1 ./...",
            "source_commits": [],
            "add_only": True,
        },
        "engines": [{"name": "rocq-model+correspondence", "path": "/verif/check",
                     "serves_properties": [c["property_id"] for c in checks],
                     "kind_free_text": "Coq 8.16 development under /verif/coq (model, theorems), translators + correspondence harness under /verif/harness (Go, built inside /repo's module via -overlay) and /verif/ocaml (driver of the extracted model), orchestrated by /verif/lib"}],
        "checks": checks,
        "not_applicable": na,
        "notes": "See DESIGN.md. known_findings.txt lists repaired defects (fixed:) and open findings.",
    }
    json.dump(man, open(os.path.join(VERIF, "MANIFEST.json"), "w"), indent=1)
    print("wrote MANIFEST.json with", len(checks), "checks,", len(na), "not_applicable")

if __name__ == "__main__":
    main()
