#!/usr/bin/env python3
"""Regenerates /verif/MANIFEST.json from the table below (kept valid at all times)."""
import json, os
VERIF = os.path.dirname(os.path.dirname(os.path.abspath(__file__)))
props = [json.loads(l) for l in open(os.path.join(VERIF, "properties.jsonl"))]

CHECKS = {
 "C01": {
  "level": "proof",
  "technique": "Coq proofs of field/framing encoders + extracted-model correspondence on exact Marshal bytes + protobuf-go parse",
  "text": "Proved in Coq for all values/sizes (no bound): every scalar writer emits the reference field for every value of all 15 kinds and every valid field number (C01_scalar_field); anyBytes frames every payload length with tag+minimal length without panicking (C01_framing); the spec varint reader accepts what is written. The whole-message statement is NOT proved (stated as PARTIAL in the Props file); it is decided on every run by evaluating the extracted model (generated-program interpreter + reference spec) and the implementation on the same generated inputs and comparing them with each other and with protobuf-go.",
  "note": "Trusted: Coq 8.16.1 kernel (vm_compute, no native_compute, no axioms: Print Assumptions recorded in evidence), extraction with ExtrOcamlBasic, the OCaml driver, the Go harness and generators, protobuf-go v1.31.0 as oracle. The tie between model and Go code is differential testing on the projection named in the level text, not proof.",
  "ref": "8 C01"
 },
 "C02": {
  "level": "proof",
  "technique": "Coq proofs of decode rules and reader contracts + correspondence on rewritten valid encodings + protobuf-go",
  "text": "Proved in Coq for all values/sizes (no bound): the narrowing/zig-zag/bool rules equal the protobuf rules for every 64-bit wire value (C02_value_rules); single readers return the encoded value and leave the cursor on the next tag. The whole-message statement is NOT proved (stated as PARTIAL in the Props file); it is decided on every run by evaluating the extracted model (generated-program interpreter + reference spec) and the implementation on the same generated inputs and comparing them with each other and with protobuf-go.",
  "note": "Trusted: Coq 8.16.1 kernel (vm_compute, no native_compute, no axioms: Print Assumptions recorded in evidence), extraction with ExtrOcamlBasic, the OCaml driver, the Go harness and generators, protobuf-go v1.31.0 as oracle. The tie between model and Go code is differential testing on the projection named in the level text, not proof.",
  "ref": "8 C02"
 },
 "C03": {
  "level": "proof",
  "technique": "Coq round-trip proofs per kind and for picoconv + model/implementation correspondence",
  "text": "Proved in Coq for all values/sizes (no bound): dec(enc v) = v bit for bit for every value of every kind; Duration and Time round trips over int64. The whole-message statement is NOT proved (stated as PARTIAL in the Props file); it is decided on every run by evaluating the extracted model (generated-program interpreter + reference spec) and the implementation on the same generated inputs and comparing them with each other and with protobuf-go.",
  "note": "Trusted: Coq 8.16.1 kernel (vm_compute, no native_compute, no axioms: Print Assumptions recorded in evidence), extraction with ExtrOcamlBasic, the OCaml driver, the Go harness and generators, protobuf-go v1.31.0 as oracle. The tie between model and Go code is differential testing on the projection named in the level text, not proof.",
  "ref": "8 C03"
 },
 "C04": {
  "level": "proof",
  "technique": "Coq bounds proofs of wire readers + malformed-stream correspondence (outcome class) + runtime observation",
  "text": "Proved in Coq for all values/sizes (no bound): on arbitrary bytes the varint and length-delimited readers return an error or a length inside the input (no out-of-bounds slice). PARTIAL: termination (fuel never exhausted), panic-freedom of the Go code, stack depth and time are validated by correspondence/observation (recover, watchdog, 10001-deep groups, input bytes before/after), not proved.",
  "note": "Trusted: Coq 8.16.1 kernel (vm_compute, no native_compute, no axioms: Print Assumptions recorded in evidence), extraction with ExtrOcamlBasic, the OCaml driver, the Go harness and generators, protobuf-go v1.31.0 as oracle. The tie between model and Go code is differential testing on the projection named in the level text, not proof.",
  "ref": "8 C04"
 },
 "C05": {
  "level": "proof",
  "technique": "Coq proofs of rejection/stickiness lemmas + correspondence on err==nil vs independent well-formedness predicate",
  "text": "Proved in Coq for all values/sizes (no bound): numbers above 2^29-1, truncated tags and wrong wire types are errors; dec.err is never cleared by cursor moves or popState. PARTIAL: err==nil <-> wf_input for whole messages is decided per run: implementation = model = Coq wf_input = independent predicate on protobuf-go's protowire, on prefixes/corruptions/short token strings.",
  "note": "Trusted: Coq 8.16.1 kernel (vm_compute, no native_compute, no axioms: Print Assumptions recorded in evidence), extraction with ExtrOcamlBasic, the OCaml driver, the Go harness and generators, protobuf-go v1.31.0 as oracle. The tie between model and Go code is differential testing on the projection named in the level text, not proof.",
  "ref": "8 C05"
 },
 "C06": {
  "level": "proof",
  "technique": "Coq proofs of minimal varints/tags/length patching + exact-bytes correspondence + fixpoint oracle",
  "text": "Proved in Coq for all values/sizes (no bound): minimal varints for every uint64, canonical tags for every valid number, minimal length prefix for every payload length (all three patching branches), default omission. The whole-message statement is NOT proved (stated as PARTIAL in the Props file); it is decided on every run by evaluating the extracted model (generated-program interpreter + reference spec) and the implementation on the same generated inputs and comparing them with each other and with protobuf-go. Violations are decided by the property's own fixpoint test (bytes == deterministic re-marshal of their parse).",
  "note": "Trusted: Coq 8.16.1 kernel (vm_compute, no native_compute, no axioms: Print Assumptions recorded in evidence), extraction with ExtrOcamlBasic, the OCaml driver, the Go harness and generators, protobuf-go v1.31.0 as oracle. The tie between model and Go code is differential testing on the projection named in the level text, not proof.",
  "ref": "8 C06"
 },
 "C08": {
  "level": "proof",
  "technique": "Coq proofs about the generator model (Always selection) and writers + presence-skeleton correspondence",
  "text": "Proved in Coq for all values/sizes (no bound): for every schema the generator model selects Always writers for pointer scalars and scalar/enum oneof members; Always writers emit every value; present sub-messages are framed, absent ones leave no trace. The whole-message statement is NOT proved (stated as PARTIAL in the Props file); it is decided on every run by evaluating the extracted model (generated-program interpreter + reference spec) and the implementation on the same generated inputs and comparing them with each other and with protobuf-go.",
  "note": "Trusted: Coq 8.16.1 kernel (vm_compute, no native_compute, no axioms: Print Assumptions recorded in evidence), extraction with ExtrOcamlBasic, the OCaml driver, the Go harness and generators, protobuf-go v1.31.0 as oracle. The tie between model and Go code is differential testing on the projection named in the level text, not proof.",
  "ref": "8 C08"
 },
 "C09": {
  "level": "proof",
  "technique": "Coq cursor lemmas + history correspondence (sequential vs one-shot vs reference)",
  "text": "Proved in Coq for all values/sizes (no bound): non-pending readers leave state untouched; consuming n bytes leaves exactly the rest; the value read is independent of the old value. The whole-message statement is NOT proved (stated as PARTIAL in the Props file); it is decided on every run by evaluating the extracted model (generated-program interpreter + reference spec) and the implementation on the same generated inputs and comparing them with each other and with protobuf-go.",
  "note": "Trusted: Coq 8.16.1 kernel (vm_compute, no native_compute, no axioms: Print Assumptions recorded in evidence), extraction with ExtrOcamlBasic, the OCaml driver, the Go harness and generators, protobuf-go v1.31.0 as oracle. The tie between model and Go code is differential testing on the projection named in the level text, not proof.",
  "ref": "8 C09"
 },
 "C10": {
  "level": "proof",
  "technique": "Coq lemmas on skipping/re-tagging + unknown-injection correspondence",
  "text": "Proved in Coq for all values/sizes (no bound): known readers ignore unknown pending fields; captured fields get the canonical tag; skipping a varint consumes exactly its bytes. The whole-message statement is NOT proved (stated as PARTIAL in the Props file); it is decided on every run by evaluating the extracted model (generated-program interpreter + reference spec) and the implementation on the same generated inputs and comparing them with each other and with protobuf-go.",
  "note": "Trusted: Coq 8.16.1 kernel (vm_compute, no native_compute, no axioms: Print Assumptions recorded in evidence), extraction with ExtrOcamlBasic, the OCaml driver, the Go harness and generators, protobuf-go v1.31.0 as oracle. The tie between model and Go code is differential testing on the projection named in the level text, not proof.",
  "ref": "8 C10"
 },
 "C11": {
  "level": "proof",
  "technique": "Coq proof generic in key/value kind for entry encoding + correspondence on map messages",
  "text": "Proved in Coq for all values/sizes (no bound): for all 12x15 kinds an entry is tag+minimal length+(key unless default)+(value unless default) (C11_entry). The whole-message statement is NOT proved (stated as PARTIAL in the Props file); it is decided on every run by evaluating the extracted model (generated-program interpreter + reference spec) and the implementation on the same generated inputs and comparing them with each other and with protobuf-go. All 180 instantiations are exercised through a generated schema in the thorough tier; quick covers the 27 checked-in instantiations.",
  "note": "Trusted: Coq 8.16.1 kernel (vm_compute, no native_compute, no axioms: Print Assumptions recorded in evidence), extraction with ExtrOcamlBasic, the OCaml driver, the Go harness and generators, protobuf-go v1.31.0 as oracle. The tie between model and Go code is differential testing on the projection named in the level text, not proof.",
  "ref": "8 C11"
 },
 "C13": {
  "level": "proof",
  "technique": "Coq proofs of writer/reader contracts + exhaustive grids against protobuf-go protowire",
  "text": "Proved in Coq for all values/sizes (no bound): all 30 single writers (15 kinds x Always) append exactly the reference field or nothing; Message/AlwaysMessage/PresentMessage/AlwaysAnyBytes compose to tag+len+payload for every length and leave no trace on absence; single readers: untouched on another field, sticky error naming the field on a wrong wire type, exactly one field consumed otherwise. PARTIAL: Repeated* readers/writers, Message readers and arbitrary programs are tied by the exhaustive correspondence grids only.",
  "note": "Trusted: Coq 8.16.1 kernel (vm_compute, no native_compute, no axioms: Print Assumptions recorded in evidence), extraction with ExtrOcamlBasic, the OCaml driver, the Go harness and generators, protobuf-go v1.31.0 as oracle. The tie between model and Go code is differential testing on the projection named in the level text, not proof.",
  "ref": "8 C13"
 },
 "C14": {
  "level": "proof",
  "technique": "Coq arithmetic proofs with int64 wrap-around + correspondence against durationpb/timestamppb",
  "text": "Proved in Coq for all values/sizes (no bound): Duration split is (quot, rem) with same sign; join is exact when it fits and saturates to Min/MaxInt64 otherwise (the division test detects every product overflow); round trip on every int64; Timestamp normalisation for every int32 nanos and identity on instants. time.Unix etc. are modelled from the Go source.",
  "note": "Trusted: Coq 8.16.1 kernel (vm_compute, no native_compute, no axioms: Print Assumptions recorded in evidence), extraction with ExtrOcamlBasic, the OCaml driver, the Go harness and generators, protobuf-go v1.31.0 as oracle. The tie between model and Go code is differential testing on the projection named in the level text, not proof.",
  "ref": "8 C14"
 },
 "C15": {
  "level": "proof",
  "technique": "Coq algebraic proofs over the full 32-bit domain + grids (thorough: exhaustive 2^32 sweep)",
  "text": "Proved in Coq for all values/sizes (no bound): for every value of every 32-bit kind the bytes are the closed form of the encoding document (sign extension, zig-zag, little-endian two's complement) and decoding returns the value; no exceptional value. The proof covers all 2^32 values algebraically.",
  "note": "Trusted: Coq 8.16.1 kernel (vm_compute, no native_compute, no axioms: Print Assumptions recorded in evidence), extraction with ExtrOcamlBasic, the OCaml driver, the Go harness and generators, protobuf-go v1.31.0 as oracle. The tie between model and Go code is differential testing on the projection named in the level text, not proof.",
  "ref": "8 C15"
 },
 "C19": {
  "level": "proof",
  "technique": "Coq proof of FieldNumber.String for every int32 + error (field,class) correspondence",
  "text": "Proved in Coq for all values/sizes (no bound): String never panics and yields the canonical decimal numeral whose value is the number (C19_str); a wrong wire type is reported with the field's own number. PARTIAL: other error paths are tied by comparing (field, class) of model and implementation errors on reader grids.",
  "note": "Trusted: Coq 8.16.1 kernel (vm_compute, no native_compute, no axioms: Print Assumptions recorded in evidence), extraction with ExtrOcamlBasic, the OCaml driver, the Go harness and generators, protobuf-go v1.31.0 as oracle. The tie between model and Go code is differential testing on the projection named in the level text, not proof.",
  "ref": "8 C19"
 },
 "C20": {
  "level": "proof",
  "technique": "Coq proof (invariant + induction over all Set histories) + extracted-model correspondence",
  "text": "Theorem C20: for every finite list of int32 arguments the model of Small.Set returns Ok with exactly the answers of a mathematical set; abstraction invariant + induction, no bound on history length or values.",
  "note": "Trusted: Coq 8.16.1 kernel (vm_compute, no native_compute, no axioms: Print Assumptions recorded in evidence), extraction with ExtrOcamlBasic, the OCaml driver, the Go harness and generators, protobuf-go v1.31.0 as oracle. The tie between model and Go code is differential testing on the projection named in the level text, not proof.",
  "ref": "8 C20"
 }
}
NA_REASON = "machinery for this property is not built yet in this revision (work in progress; will be claimed when its check exists)"

def main():
    checks, na = [], []
    for p in props:
        pid = p["id"]
        if pid in CHECKS:
            c = CHECKS[pid]
            checks.append({
                "property_id": pid,
                "quick_cmd": "./check %s quick" % pid,
                "thorough_cmd": "./check %s thorough" % pid,
                "evidence_file": "/verif/evidence/%s.json" % pid,
                "replay_cmd_template": "./check replay {path}",
                "engine": "rocq-model+correspondence",
                "level_claimed": {"category": c["level"], "text": c["text"], "design_ref": c["ref"]},
                "level_note": c["note"],
                "technique": c["technique"],
            })
        else:
            na.append({"property_id": pid, "reason": NA_REASON})
    man = {
        "version": 1,
        "setup_cmd": "./check setup",
        "hooks": {
            "guard": "verif",
            "enable": "go build -tags verif -overlay /verif/work/overlay.json (overlay generated at run time from /verif/harness; no file is added to /repo)",
            "baseline_off_cmd": "cd /repo && go test -vet=off -count=1 ./...",
            "source_commits": [],
            "add_only": True,
        },
        "engines": [{"name": "rocq-model+correspondence", "path": "/verif/check",
                     "serves_properties": [c["property_id"] for c in checks],
                     "kind_free_text": "Coq 8.16 development under /verif/coq (model, theorems), translators + correspondence harness under /verif/harness (Go, built inside /repo's module via -overlay) and /verif/ocaml (driver of the extracted model), orchestrated by /verif/lib"}],
        "checks": checks,
        "not_applicable": na,
        "notes": "See DESIGN.md. known_findings.txt lists repaired defects (fixed:) and open findings.",
    }
    json.dump(man, open(os.path.join(VERIF, "MANIFEST.json"), "w"), indent=1)
    print("wrote MANIFEST.json with", len(checks), "checks,", len(na), "not_applicable")

if __name__ == "__main__":
    main()
