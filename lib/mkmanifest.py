#!/usr/bin/env python3
"""Regenerates /verif/MANIFEST.json from the table below (kept valid at all times)."""
import json, os
VERIF = os.path.dirname(os.path.dirname(os.path.abspath(__file__)))
props = [json.loads(l) for l in open(os.path.join(VERIF, "properties.jsonl"))]

CHECKS = {
 "C01": {
  "level": "proof",
  "technique": "Coq proofs T_enc (Marshal of generated code = reference encoder) and reference round trip (the reference decoder reads the values back) + extracted-model correspondence on exact Marshal bytes + protobuf-go parse",
  "text": "Proved in Coq for all values/sizes/depths: T_enc - for every schema the generator model accepts and every well-typed value, Marshal of the generated program = ref_encode (the reference encoder written from the encoding document), never a panic; C01_reference_reads_the_values - the reference decoder reads that encoding back as exactly the message's values and presence, for every schema with rt_applies. Below: every scalar writer emits the reference field for every value of all 15 kinds, anyBytes frames every payload length. The theorems are about the Gallina model: that the model is the code is checked on every run by evaluating the extracted model and the implementation built from the working tree on the same generated inputs (checked-in types and freshly generated ones), that the emitted programs are the generator model's by T-pico, and that the reference specification means what protobuf means by comparing it with protobuf-go. The premises of the theorems (msg_ok, rt_ok, rt_applies_at, tdec_applies_at) are evaluated on every generated value and schema and counted in the evidence.",
  "note": "Trusted: Coq 8.16.1 kernel (vm_compute, no native_compute, no axioms: Print Assumptions recorded in evidence), extraction with ExtrOcamlBasic, the OCaml driver, the Go harness and generators, protobuf-go v1.31.0 as oracle. The tie between model and Go code is differential testing on the projection named in the level text, not proof.",
  "ref": "8 C01"
 },
 "C02": {
  "level": "proof",
  "technique": "Coq proof T_dec (Unmarshal of generated code = reference decoder on every byte string) + Loop theorem + record-exchange/split invariance theorems + correspondence on rewritten valid encodings + protobuf-go",
  "text": "Proved in Coq: Theorem T_dec (Schema/TDec.v): for every message type with tdec_applies_at (valid distinct numbers and no custom type without modelled semantics among the message types reachable from it; evaluated per type on every run) and EVERY byte string, Unmarshal of the generated program returns exactly what the reference decoder (tokenize, then merge token by token) computes and returns an error exactly when the reference decoder rejects the input. This covers fields in any order, packed/unpacked/mixed repeated scalars, split repeated fields, non-minimal varints, unknown fields, merged sub-messages, duplicate map keys; below it the Loop theorem (multi-pass Loop = single-pass dispatch for the Decode body of every accepted message), the token bridge (ConsumeVarint/ConsumeFieldValue/nextField = the wire grammar on arbitrary bytes) and the decode transforms for every 64-bit wire value. Two-input invariance is a theorem for the structural rewritings (Schema/Rewrites.v): C02_exchange_records_unmarshal - exchanging two adjacent records with different field numbers (not members of one oneof) or an unknown record with any record, anywhere in the input, leaves Unmarshal's verdict and value unchanged; C02_split_submessage - a sub-message sent as two records equals one record with the concatenated body. (Schema/Packed.v) C02_packed_unpacked_unmarshal - the packed record of a non-empty list of a repeated scalar/enum field and one record per element, anywhere in the input, give the same verdict and value; C02_packed_split - a packed record may be cut into several (mixed forms by iteration); C02_nonminimal_varint / C02_same_meaning_records - a record of a known field re-spelt with redundant varint groups in tag and value (more generally: any record with the same number, wire type and parsed payload) is read alike; C02_replace_records - any run of complete records may be replaced by one with the same effect on every target. Last-one-wins for duplicate singular scalars is the definition of the reference merge, compared with protobuf-go per run. The theorems are about the Gallina model: that the model is the code is checked on every run by evaluating the extracted model and the implementation built from the working tree on the same generated inputs (checked-in types and freshly generated ones), that the emitted programs are the generator model's by T-pico, and that the reference specification means what protobuf means by comparing it with protobuf-go.",
  "note": "Trusted: Coq 8.16.1 kernel (vm_compute, no native_compute, no axioms: Print Assumptions recorded in evidence), extraction with ExtrOcamlBasic, the OCaml driver, the Go harness and generators, protobuf-go v1.31.0 as oracle. The tie between model and Go code is differential testing on the projection named in the level text, not proof.",
  "ref": "8 C02"
 },
 "C03": {
  "level": "proof",
  "technique": "Coq proof of the property for generated code (T_enc + reference round trip + T_dec) + model/implementation correspondence",
  "text": "Proved in Coq: C03_marshal_unmarshal (Schema/RoundTrip.v): for every message type of the feature set (rt_applies_at, over the types reachable from it: distinct valid numbers, modelled custom types, valid message indices, stable zero values) and every well-typed value (Go ranges, at most one member per oneof, distinct map keys, captured bytes as UnrecognizedFields stores them), at any size and depth: Marshal succeeds and Unmarshal of its output into a fresh message returns nil and the message itself - scalars bit for bit, presence, oneof selection, repeated order, nested messages, map contents, unrecognized bytes - up to the by-design normal form (zero time.Time behind a pointer or in a slice is not written; a nil element of a repeated message comes back empty). It composes T_enc (Marshal = reference encoder), the reference round trip ref_decode (ref_encode v) = norm v proved field by field, fuel independence of the reference decoder, and T_dec (Unmarshal = reference decoder). The theorems are about the Gallina model: that the model is the code is checked on every run by evaluating the extracted model and the implementation built from the working tree on the same generated inputs (checked-in types and freshly generated ones), that the emitted programs are the generator model's by T-pico, and that the reference specification means what protobuf means by comparing it with protobuf-go. The premises of the theorems (msg_ok, rt_ok, rt_applies_at, tdec_applies_at) are evaluated on every generated value and schema and counted in the evidence.",
  "note": "Trusted: Coq 8.16.1 kernel (vm_compute, no native_compute, no axioms: Print Assumptions recorded in evidence), extraction with ExtrOcamlBasic, the OCaml driver, the Go harness and generators, protobuf-go v1.31.0 as oracle. The tie between model and Go code is differential testing on the projection named in the level text, not proof.",
  "ref": "8 C03"
 },
 "C04": {
  "level": "proof",
  "technique": "Coq bounds proofs of all wire readers (incl. the group skipper), progress of every cursor move and emitted statement, Loop = single pass + malformed-stream correspondence (outcome class) + runtime observation",
  "text": "Proved in Coq for arbitrary bytes: the varint, length-delimited and field-value readers (groups of any depth) return an error or a length inside the input; every cursor move and every emitted Decode statement whose pending-field test succeeds strictly shortens the remaining input or invalidates the pending field; the multi-pass Loop over the Decode body of every accepted message equals a single-pass parser with fuel len+2, so the model's loops never run out of fuel before the input is exhausted; by T_dec the model's verdict on arbitrary bytes is the reference decoder's. Runtime facts no Gallina model expresses - panic-freedom of the Go code, stack depth, wall-clock, input not modified - are observed by the harness (recover, watchdog, 10001-deep groups/nesting, input bytes before/after).",
  "note": "Trusted: Coq 8.16.1 kernel (vm_compute, no native_compute, no axioms: Print Assumptions recorded in evidence), extraction with ExtrOcamlBasic, the OCaml driver, the Go harness and generators, protobuf-go v1.31.0 as oracle. The tie between model and Go code is differential testing on the projection named in the level text, not proof.",
  "ref": "8 C04"
 },
 "C05": {
  "level": "proof",
  "technique": "Coq proof: Unmarshal returns nil exactly on the inputs the reference decoder accepts (corollary of T_dec) + correspondence of err==nil with an independent well-formedness predicate",
  "text": "Proved in Coq: C05_accepts_exactly_wellformed - for every message type with tdec_applies_at and every byte string, Unmarshal's error is nil iff the reference decoder accepts (every tag valid, every wire type the field's or packed, every length inside its enclosing buffer, nested messages/map entries/Timestamps recursively well formed, input fully consumed); ConsumeFieldValue fails exactly where the wire grammar has no value and never reports more bytes than the input holds (groups of any depth); dec.err is never cleared. Per run: implementation verdict = model verdict = Coq wf_input = an independent predicate built on protobuf-go's protowire, on prefixes, corruptions, group-structure damage and short token strings. The theorems are about the Gallina model: that the model is the code is checked on every run by evaluating the extracted model and the implementation built from the working tree on the same generated inputs (checked-in types and freshly generated ones), that the emitted programs are the generator model's by T-pico, and that the reference specification means what protobuf means by comparing it with protobuf-go.",
  "note": "Trusted: Coq 8.16.1 kernel (vm_compute, no native_compute, no axioms: Print Assumptions recorded in evidence), extraction with ExtrOcamlBasic, the OCaml driver, the Go harness and generators, protobuf-go v1.31.0 as oracle. The tie between model and Go code is differential testing on the projection named in the level text, not proof.",
  "ref": "8 C05"
 },
 "C06": {
  "level": "proof",
  "technique": "Coq proofs of minimal varints/tags/length patching and T_enc (Marshal = the reference encoder, a function of the value) + exact-bytes correspondence + fixpoint oracle",
  "text": "Proved in Coq for all values/sizes: minimal varints for every uint64, canonical tags for every valid number, minimal length prefix for every payload length (all three patching branches), default omission; Theorem T_enc (Schema/TEnc.v): for every schema the generator model accepts and every well-typed value, Marshal of the generated program = ref_encode (the reference encoder written from the encoding document), at any size and nesting depth, never a panic. The reference encoder writes known fields in ascending number, packs repeated scalars, omits defaults, appends unknown bytes last; the order clause is a theorem of its own, C06_ascending_order (Schema/Order.v): Marshal's output tokenises into the known fields' records with ascending numbers followed by the captured unrecognized fields. Per run: exact bytes of implementation = model = reference; violations are decided by the property's own fixpoint test (bytes == deterministic re-marshal of their parse by protobuf-go) on map-free types. The theorems are about the Gallina model: that the model is the code is checked on every run by evaluating the extracted model and the implementation built from the working tree on the same generated inputs (checked-in types and freshly generated ones), that the emitted programs are the generator model's by T-pico, and that the reference specification means what protobuf means by comparing it with protobuf-go.",
  "note": "Trusted: Coq 8.16.1 kernel (vm_compute, no native_compute, no axioms: Print Assumptions recorded in evidence), extraction with ExtrOcamlBasic, the OCaml driver, the Go harness and generators, protobuf-go v1.31.0 as oracle. The tie between model and Go code is differential testing on the projection named in the level text, not proof.",
  "ref": "8 C06"
 },
 "C08": {
  "level": "proof",
  "technique": "Coq proof: presence survives Unmarshal(Marshal(m)) for whole messages (C03's theorem on the presence-carrying value universe) + generator facts (Always selection) + presence-skeleton correspondence with protobuf-go",
  "text": "Proved in Coq: C08_presence_round_trip = C03_marshal_unmarshal (Schema/RoundTrip.v): for every message type of the feature set (rt_applies_at, over the types reachable from it: distinct valid numbers, modelled custom types, valid message indices, stable zero values) and every well-typed value (Go ranges, at most one member per oneof, distinct map keys, captured bytes as UnrecognizedFields stores them), at any size and depth: Marshal succeeds and Unmarshal of its output into a fresh message returns nil and the message itself - scalars bit for bit, presence, oneof selection, repeated order, nested messages, map contents, unrecognized bytes - up to the by-design normal form (zero time.Time behind a pointer or in a slice is not written; a nil element of a repeated message comes back empty). It composes T_enc (Marshal = reference encoder), the reference round trip ref_decode (ref_encode v) = norm v proved field by field, fuel independence of the reference decoder, and T_dec (Unmarshal = reference decoder). The value universe distinguishes VOpt None from VOpt (Some zero), VMsg None from VMsg (Some empty), the selected oneof member holding zero from none selected, and keeps empty repeated elements, so the equality IS presence preservation. Also: for every schema the generator model selects Always writers for pointer scalars and for scalar, enum and by-value message members of a oneof (the last since the repair D14); Always writers emit every value. Not a theorem: that protobuf-go sees the same distinction (Has()) - compared per run on checked-in and fresh types. The theorems are about the Gallina model: that the model is the code is checked on every run by evaluating the extracted model and the implementation built from the working tree on the same generated inputs (checked-in types and freshly generated ones), that the emitted programs are the generator model's by T-pico, and that the reference specification means what protobuf means by comparing it with protobuf-go. The premises of the theorems (msg_ok, rt_ok, rt_applies_at, tdec_applies_at) are evaluated on every generated value and schema and counted in the evidence.",
  "note": "Trusted: Coq 8.16.1 kernel (vm_compute, no native_compute, no axioms: Print Assumptions recorded in evidence), extraction with ExtrOcamlBasic, the OCaml driver, the Go harness and generators, protobuf-go v1.31.0 as oracle. The tie between model and Go code is differential testing on the projection named in the level text, not proof.",
  "ref": "8 C08"
 },
 "C09": {
  "level": "proof",
  "technique": "Coq proof of the property in full (tokens of a concatenation, reference merge, Unmarshal(a++b) = sequential Unmarshal via T_dec) + history correspondence",
  "text": "Proved in Coq: C09_unmarshal_concat - for every message type with tdec_applies_at and all byte strings a, b: if Unmarshal a into t0 gives t1 without error and Unmarshal b into t1 gives t2 without error, then Unmarshal (a++b) into t0 gives exactly t2 (repeated fields appended, sub-messages merged, maps overwritten per key, last oneof member wins, nothing reset). Built from tokens_app (incl. prefix and fuel stability of the group skipper), ref_decode_app, monotonicity in the nesting budget, and T_dec. Per run: histories of 1-4 calls, implementation sequential = one-shot = model = reference decoder = protobuf-go on the concatenation. The theorems are about the Gallina model: that the model is the code is checked on every run by evaluating the extracted model and the implementation built from the working tree on the same generated inputs (checked-in types and freshly generated ones), that the emitted programs are the generator model's by T-pico, and that the reference specification means what protobuf means by comparing it with protobuf-go.",
  "note": "Trusted: Coq 8.16.1 kernel (vm_compute, no native_compute, no axioms: Print Assumptions recorded in evidence), extraction with ExtrOcamlBasic, the OCaml driver, the Go harness and generators, protobuf-go v1.31.0 as oracle. The tie between model and Go code is differential testing on the projection named in the level text, not proof.",
  "ref": "8 C09"
 },
 "C10": {
  "level": "proof",
  "technique": "Coq proof T_dec + unknown-token lemma (unknown tokens leave known fields untouched, are appended re-tagged in order only by capturing messages) + unknown-injection correspondence",
  "text": "Proved in Coq: Theorem T_dec (Schema/TDec.v): for every message type with tdec_applies_at (valid distinct numbers and no custom type without modelled semantics among the message types reachable from it; evaluated per type on every run) and EVERY byte string, Unmarshal of the generated program returns exactly what the reference decoder (tokenize, then merge token by token) computes and returns an error exactly when the reference decoder rejects the input. In the reference decoder a token whose number no field has leaves every known field unchanged and is appended - canonical tag, then the value bytes exactly as in the input - to XXX_unrecognized by capturing messages only (C10_unknown_token); UnrecognizedFields' loop is proved to realise exactly that for consecutive unknown fields (re-tagging = canonical tag, skipper = one value of the grammar incl. groups). Per run: unknown fields of every wire type injected anywhere (incl. nested/sibling groups), captured bytes compared, forwarding through a narrower schema. The theorems are about the Gallina model: that the model is the code is checked on every run by evaluating the extracted model and the implementation built from the working tree on the same generated inputs (checked-in types and freshly generated ones), that the emitted programs are the generator model's by T-pico, and that the reference specification means what protobuf means by comparing it with protobuf-go.",
  "note": "Trusted: Coq 8.16.1 kernel (vm_compute, no native_compute, no axioms: Print Assumptions recorded in evidence), extraction with ExtrOcamlBasic, the OCaml driver, the Go harness and generators, protobuf-go v1.31.0 as oracle. The tie between model and Go code is differential testing on the projection named in the level text, not proof.",
  "ref": "8 C10"
 },
 "C11": {
  "level": "proof",
  "technique": "Coq proof generic in key/value kind: entry encoding, map round trip (C03's theorem), decoding of arbitrary entry sequences (T_dec) + correspondence on map messages (all 180 codecs via a generated schema)",
  "text": "Proved in Coq for all 12x15 kinds: an entry is tag+minimal length+(key unless default)+(value unless default) (C11_entry, T_enc); C11_map_round_trip - any map with pairwise distinct keys round-trips exactly, omitted zero keys/values come back as zero, entries are independent (part of C03_marshal_unmarshal); decoding of ARBITRARY entry sequences (any order, missing key or value, duplicate keys overwrite, unknown fields inside entries) is the reference's (T_dec). Per run: all 180 instantiations through the generated `allmaps` schema (real plugin output) plus the checked-in ones, incl. entries of boundary length 127/128/129 and 16383/16384/16385 bytes, compared with the model and protobuf-go. The theorems are about the Gallina model: that the model is the code is checked on every run by evaluating the extracted model and the implementation built from the working tree on the same generated inputs (checked-in types and freshly generated ones), that the emitted programs are the generator model's by T-pico, and that the reference specification means what protobuf means by comparing it with protobuf-go. The premises of the theorems (msg_ok, rt_ok, rt_applies_at, tdec_applies_at) are evaluated on every generated value and schema and counted in the evidence.",
  "note": "Trusted: Coq 8.16.1 kernel (vm_compute, no native_compute, no axioms: Print Assumptions recorded in evidence), extraction with ExtrOcamlBasic, the OCaml driver, the Go harness and generators, protobuf-go v1.31.0 as oracle. The tie between model and Go code is differential testing on the projection named in the level text, not proof.",
  "ref": "8 C11"
 },
 "C13": {
  "level": "proof",
  "technique": "Coq proofs of writer/reader contracts + exhaustive grids against protobuf-go protowire",
  "text": "Proved in Coq for all values/sizes (no bound): all 30 single writers (15 kinds x Always) append exactly the reference field or nothing; Message/AlwaysMessage/PresentMessage/AlwaysAnyBytes compose to tag+len+payload for every length and leave no trace on absence; C13_encoder_programs (Schema/Calls.v): EVERY program of Encoder calls - the 60 typed writers (single and repeated/packed), RepeatedEnum, UnrecognizedFields, and Message/AlwaysMessage/PresentMessage/AlwaysAnyBytes nested to any depth, with callbacks that write anything and then report presence or absence - appends exactly the concatenation of the reference encodings to whatever the buffer held; C13_absent_message_no_trace. Readers: untouched on another field, sticky error naming the field on a wrong wire type, exactly one field consumed otherwise; on ARBITRARY input every single reader satisfies the token contract (C13_reader_any_input), Repeated* readers consume all consecutive occurrences packed or not and only ever append to the list they find (C13_repeated_reader_iteration, C13_packed_is_reference_unpack, C13_repeated_reader_appends), and Message/RepeatedMessage/UnrecognizedFields readers compose into T_dec. Per run: the writer/reader grids, 4000 random Encoder-call programs through the real API (fresh, stale and one-byte-capacity buffers), readers inside Message callbacks followed by a failing reader or the public Fail() at the outer level, 1500 sequences of reader calls over one input with destinations that persist from call to call (afterwards no earlier output and no input byte may have changed), all against the model and protobuf-go's protowire.",
  "note": "Trusted: Coq 8.16.1 kernel (vm_compute, no native_compute, no axioms: Print Assumptions recorded in evidence), extraction with ExtrOcamlBasic, the OCaml driver, the Go harness and generators, protobuf-go v1.31.0 as oracle. The tie between model and Go code is differential testing on the projection named in the level text, not proof.",
  "ref": "8 C13"
 },
 "C14": {
  "level": "proof",
  "technique": "Coq arithmetic proofs with int64 wrap-around + correspondence against durationpb/timestamppb",
  "text": "Proved in Coq for all values/sizes (no bound): Duration split is (quot, rem) with same sign; join is exact when it fits and saturates to Min/MaxInt64 otherwise (the division test detects every product overflow); round trip on every int64; Timestamp normalisation for every int32 nanos and identity on instants. time.Unix etc. are modelled from the Go source.",
  "note": "Trusted: Coq 8.16.1 kernel (vm_compute, no native_compute, no axioms: Print Assumptions recorded in evidence), extraction with ExtrOcamlBasic, the OCaml driver, the Go harness and generators, protobuf-go v1.31.0 as oracle. The tie between model and Go code is differential testing on the projection named in the level text, not proof.",
  "ref": "8 C14"
 },
 "C15": {
  "level": "proof",
  "technique": "Coq algebraic proofs over the full 32-bit domain + grids (thorough: exhaustive 2^32 sweep)",
  "text": "Proved in Coq for all values/sizes (no bound): for every value of every 32-bit kind the bytes are the closed form of the encoding document (sign extension, zig-zag, little-endian two's complement) and decoding returns the value; no exceptional value. The proof covers all 2^32 values algebraically. C15_repeated_keeps_earlier: on any input a Repeated* reader leaves the list it found followed by new elements (nothing decoded earlier is lost, however many packed or unpacked records follow). Per run: writer/reader grids with non-zero initial lists and sequences of reader calls with persistent destinations, against the model and protowire.",
  "note": "Trusted: Coq 8.16.1 kernel (vm_compute, no native_compute, no axioms: Print Assumptions recorded in evidence), extraction with ExtrOcamlBasic, the OCaml driver, the Go harness and generators, protobuf-go v1.31.0 as oracle. The tie between model and Go code is differential testing on the projection named in the level text, not proof.",
  "ref": "8 C15"
 },
 "C19": {
  "level": "proof",
  "technique": "Coq proof of FieldNumber.String for every int32 + error (field,class) correspondence",
  "text": "Proved in Coq for all values/sizes (no bound): String never panics and yields the canonical decimal numeral whose value is the number (C19_str); a wrong wire type is reported with the field's own number (C19_err_wire); a typed reader that starts without error reports, for a wrong wire type or an unparsable value alike, nothing but the number it was called for, and only when that number is the pending one - the number in the offending record's tag (C19_reader_names_itself, C19_repeated_reader_names_itself); whole messages (Schema/ErrName.v, C19_unmarshal_error_names_field): for the Decode methods of ANY program list, ANY input and ANY starting message, the number in a wire-type/unparsable-value error returned by Unmarshal is a field number declared in the schema at some nesting level, or sub-field 1/2 of a map entry/Timestamp/Duration, or - only when a message captures unrecognized fields - an unknown field's own number; cursor errors carry 0. PARTIAL: that it is the FIRST offending record's number is proved at reader level only; for whole messages it is tied per run by comparing (field, class) of the model's and the implementation's Unmarshal errors on 6000 malformed inputs and the deep-nesting inputs, and the last eight errors returned must keep their text after every later call.",
  "note": "Trusted: Coq 8.16.1 kernel (vm_compute, no native_compute, no axioms: Print Assumptions recorded in evidence), extraction with ExtrOcamlBasic, the OCaml driver, the Go harness and generators, protobuf-go v1.31.0 as oracle. The tie between model and Go code is differential testing on the projection named in the level text, not proof.",
  "ref": "8 C19"
 },
 "C20": {
  "level": "proof",
  "technique": "Coq proof (invariant + induction over all Set histories) + extracted-model correspondence",
  "text": "Theorem C20: for every finite list of int32 arguments the model of Small.Set returns Ok with exactly the answers of a mathematical set; abstraction invariant + induction, no bound on history length or values.",
  "note": "Trusted: Coq 8.16.1 kernel (vm_compute, no native_compute, no axioms: Print Assumptions recorded in evidence), extraction with ExtrOcamlBasic, the OCaml driver, the Go harness and generators, protobuf-go v1.31.0 as oracle. The tie between model and Go code is differential testing on the projection named in the level text, not proof.",
  "ref": "8 C20"
 },
 "C07": {
  "level": "other",
  "technique": "verified closure checker (Coq) over the import graph regenerated by go list + import closure of every package the plugin emits for fresh schemas + nm scan of a linked probe",
  "text": "Theorem closed_sound (every package reachable from a root lies in any import-closed set containing it) proved once; on every run the import graphs of the 4 runtime and 5 generated packages, in both build configurations (plain / -tags verif with the injected hook), are regenerated from `go list -deps` into Coq and the closed set is computed and checked by vm_compute: no reachable package is reflect, fmt or outside std/module (C07_plain, C07_verif). That the linker keeps dead-code elimination on is toolchain behaviour no Gallina model expresses: observed by linking a probe that references every exported function/method/map codec and scanning go tool nm. For 'any generated message': every package the real plugin emits for the fresh schema set (all field shapes, enums of 17 and 20 values, an unused import of a well-known file) is compiled and its `go list -deps` closure searched for reflect, fmt and non-std packages. Hence level other.",
  "note": "Trusted: Coq 8.16.1 kernel (vm_compute, no native_compute, no axioms: Print Assumptions recorded in evidence), extraction with ExtrOcamlBasic, the OCaml driver, the Go harness and generators, protobuf-go v1.31.0 as oracle. The tie between model and Go code is differential testing on the projection named in the level text, not proof. Additionally trusted: `go list` and `go tool nm`.",
  "ref": "8 C07"
 },
 "C12": {
  "level": "proof",
  "technique": "Coq proofs T_enc/T_dec over the generator model for every accepted schema + the real plugin on fresh schemas (verdict, emitted programs via T-pico, compiles, behaviour vs protobuf-go, determinism)",
  "text": "Proved in Coq: for every schema the generator model accepts, the programs it emits encode as the reference encoder (T_enc) and - with distinct valid numbers and modelled custom types - decode as the reference decoder on every input (T_dec), and Unmarshal(Marshal(m)) = m (C12_round_trip); Always writers are selected for presence-carrying scalars and oneof members; optional enum / unsupported map / capture with a number >= 64 are explicit errors. That the REAL plugin is the generator model is decided per run: a fixed feature-coverage set (all 180 maps, recursion, optional x15 kinds, oneof x15 kinds+enum+message, two oneofs, capture x oneof, out-of-order and extreme field numbers, picoconv casts in 4 shapes, enums of 17/20 values, an unused well-known import, oneof members held by value, nested declarations with clashing short names) plus grammar-drawn schemas (10 quick / 40 thorough; kind x label x option x oneof membership x numbering x nesting x casts) go through the plugin built from the working tree, with and without field_access=true; its verdict and its emitted Encode/Decode programs (parsed back by T-pico) must equal the model's, both outputs must compile and the second must be the first minus the accessors, every generated accessor must return the field it names (zero value on a nil receiver), about 170 further plugin runs must be byte-identical, and the compiled code is driven like the checked-in types against the model and protobuf-go. Boundary schemas must be rejected by plugin and model alike.",
  "note": "Trusted: Coq 8.16.1 kernel (vm_compute, no native_compute, no axioms: Print Assumptions recorded in evidence), extraction with ExtrOcamlBasic, the OCaml driver, the Go harness and generators, protobuf-go v1.31.0 as oracle. The tie between model and Go code is differential testing on the projection named in the level text, not proof.",
  "ref": "8 C12"
 },
 "C16": {
  "level": "other",
  "technique": "Coq schedule-independence theorem + regenerated global-state obligation + Go race detector run compared with sequential baseline",
  "text": "C16_sched: any finite interleaving of threads that write only private state and read shared data gives each thread its sequential result (induction over schedules). Its side condition is discharged from gen/Globals.v, regenerated from the runtime packages on every run: no package-level variable is written/address-taken or holds anything but an errors.New value, no goroutine is started, no sync/unsafe import (C16_no_shared_mutable_state). Data races in compiled Go are a runtime fact: 16-64 goroutines Marshal one message / Unmarshal one input / run picoconv under -race, every result compared with the sequential baseline. Hence level other (partial).",
  "note": "Trusted: Coq 8.16.1 kernel (vm_compute, no native_compute, no axioms: Print Assumptions recorded in evidence), extraction with ExtrOcamlBasic, the OCaml driver, the Go harness and generators, protobuf-go v1.31.0 as oracle. The tie between model and Go code is differential testing on the projection named in the level text, not proof. Additionally trusted: the Go race detector; T-globals is a syntactic go/ast scan.",
  "ref": "8 C16"
 },
 "C17": {
  "level": "proof",
  "technique": "Coq refinement lemmas for a concrete buffer model (array,len,cap, arbitrary stale bytes and growth) + MarshalBuffer/NewEncoderBuffer vs Marshal over buffer shapes",
  "text": "Proved in Coq for all values/sizes (no bound): each primitive the encoder performs on its buffer (buffer[:0], append, shrinking reslice, copy within len, PutUvarint within len) commutes with the view buffer[:len] for every capacity, stale content and growth policy, so no operation exposes stale bytes; on the view, appended bytes never depend on existing content. PARTIAL: the composition to whole Marshal programs over cbuf is not carried out in Coq; MarshalBuffer/NewEncoderBuffer = Marshal is validated over 11 buffer shapes incl. tight capacities, reuse across calls and re-reading earlier results. Argument immutability holds of the model by construction and is validated by before/after snapshots.",
  "note": "Trusted: Coq 8.16.1 kernel (vm_compute, no native_compute, no axioms: Print Assumptions recorded in evidence), extraction with ExtrOcamlBasic, the OCaml driver, the Go harness and generators, protobuf-go v1.31.0 as oracle. The tie between model and Go code is differential testing on the projection named in the level text, not proof. Go slice/append/copy semantics are modelled (Enc/CBuf.v).",
  "ref": "8 C17"
 },
 "C18": {
  "level": "translation_validation",
  "technique": "run the repository's generators from the working tree and diff byte for byte; parse checked-in programs back (T-pico) and compare with the generator model",
  "text": "All 8 generated artefacts are regenerated (generatecoder in a scratch dir; protoc-gen-pico on descriptors parsed from the working tree's .proto files with the go:generate parameters, no protoc needed) and compared byte for byte with the checked-in files; the diff is the replay. Semantic half: the Encode/Decode programs of every checked-in message, parsed back by T-pico, equal the generator model's output on the T-proto schemas; the generator's types table equals the table the scalar model mirrors (C18_types_table) and the shipped schemas generate (C18_schemas_generate).",
  "note": "Trusted: Coq 8.16.1 kernel (vm_compute, no native_compute, no axioms: Print Assumptions recorded in evidence), extraction with ExtrOcamlBasic, the OCaml driver, the Go harness and generators, protobuf-go v1.31.0 as oracle. The tie between model and Go code is differential testing on the projection named in the level text, not proof. protoparse (proto3 subset parser of this harness) stands in for protoc; validated by reproducing all five checked-in *.pico.go byte for byte.",
  "ref": "8 C18"
 }
}
NA_REASON = "machinery for this property is not built yet in this revision (work in progress; will be claimed when its check exists)"

def main():
    checks, na = [], []
    for p in props:
        pid = p["id"]
        if pid in CHECKS:
            c = CHECKS[pid]
            checks.append({
                "property_id": pid,
                "quick_cmd": "./check %s quick" % pid,
                "thorough_cmd": "./check %s thorough" % pid,
                "evidence_file": "/verif/evidence/%s.json" % pid,
                "replay_cmd_template": "./check replay {path}",
                "engine": "rocq-model+correspondence",
                "level_claimed": {"category": c["level"], "text": c["text"], "design_ref": c["ref"]},
                "level_note": c["note"],
                "technique": c["technique"],
            })
        else:
            na.append({"property_id": pid, "reason": NA_REASON})
    man = {
        "version": 1,
        "setup_cmd": "./check setup",
        "hooks": {
            "guard": "verif",
            "enable": "go build -tags verif -overlay /verif/work/overlay.json (overlay generated at run time from /verif/harness; no file is added to /repo)",
            "baseline_off_cmd": "cd /repo && go test -vet=off -count=1 ./...",
            "source_commits": [],
            "add_only": True,
        },
        "engines": [{"name": "rocq-model+correspondence", "path": "/verif/check",
                     "serves_properties": [c["property_id"] for c in checks],
                     "kind_free_text": "Coq 8.16 development under /verif/coq (model, theorems), translators + correspondence harness under /verif/harness (Go, built inside /repo's module via -overlay) and /verif/ocaml (driver of the extracted model), orchestrated by /verif/lib"}],
        "checks": checks,
        "not_applicable": na,
        "notes": "See DESIGN.md. known_findings.txt lists repaired defects (fixed:) and open findings.",
    }
    json.dump(man, open(os.path.join(VERIF, "MANIFEST.json"), "w"), indent=1)
    print("wrote MANIFEST.json with", len(checks), "checks,", len(na), "not_applicable")

if __name__ == "__main__":
    main()
