#!/usr/bin/env python3
"""Statement coverage of storj/picobuf's library code under the harness' quick suites (a measurement of generator quality,
not a registered check). `go build -cover` does not accept files that exist only in an overlay, so the harness is copied
into a scratch worktree of /repo under /tmp (removed afterwards).

usage: coverage.py [fresh]      (fresh: the driver that also contains the freshly generated packages of work/fresh-quick)
Prints the library functions that are not fully covered and the uncovered blocks of the hand-written files.
"""
import json
import os
import shutil
import subprocess
import sys

VERIF = os.path.dirname(os.path.dirname(os.path.abspath(__file__)))
GOENV = dict(os.environ, GOPROXY="off", GOSUMDB="off", GOTOOLCHAIN="local", GOFLAGS="-mod=mod")
PKGS = ["storj.io/picobuf", "storj.io/picobuf/internal/protowire", "storj.io/picobuf/picoconv", "storj.io/picobuf/picowire",
        "storj.io/picobuf/internal/bitset", "storj.io/picobuf/internal/zzverif"]
SUITES = ["msg 1 3000", "msg 12 1500", "decv 1 4000", "decv 8 3000", "decb 1 4000", "decb 4 5000", "hist 1 2500", "writers 1", "readers 1",
          "fnstr 1 3000", "conv 1 1500", "bitset 1 3 400", "bufs 1 600", "deep 1", "msg 1 500 Map", "decv 1 500 Map", "hist 2 250 Map"]


def main():
    fresh = len(sys.argv) > 1 and sys.argv[1] == "fresh"
    wt = "/tmp/verif-covrepo"
    data = "/tmp/verif-covdata"
    subprocess.run(["git", "-C", "/repo", "worktree", "remove", "--force", wt], stderr=subprocess.DEVNULL)
    shutil.rmtree(wt, ignore_errors=True)
    shutil.rmtree(data, ignore_errors=True)
    os.makedirs(data)
    subprocess.run(["git", "-C", "/repo", "worktree", "add", "--detach", wt, "HEAD"], check=True, stdout=subprocess.DEVNULL, stderr=subprocess.DEVNULL)
    try:
        ov = json.load(open(os.path.join(VERIF, "work", "overlay-fresh-quick.json" if fresh else "overlay.json")))["Replace"]
        for dst, src in ov.items():
            d = dst.replace("/repo/", wt + "/", 1)
            os.makedirs(os.path.dirname(d), exist_ok=True)
            shutil.copy(src, d)
        exe = "/tmp/verif-zzverif-cover"
        subprocess.run(["go", "build", "-o", exe, "-tags", "verif", "-cover", "-coverpkg=" + ",".join(PKGS), "./internal/zzverif"], cwd=wt, env=GOENV, check=True)
        env = dict(os.environ, GOCOVERDIR=data, VERIF_REPO="/repo")
        for s in SUITES:
            subprocess.run([exe] + s.split(), env=env, stdout=subprocess.DEVNULL, stderr=subprocess.DEVNULL, timeout=1800)
        subprocess.run(["go", "tool", "covdata", "textfmt", "-i=" + data, "-o", data + "/cov.txt"], cwd=wt, env=GOENV, check=True)
        out = subprocess.run(["go", "tool", "cover", "-func=" + data + "/cov.txt"], cwd=wt, env=GOENV, stdout=subprocess.PIPE, text=True).stdout
        print("library functions not fully covered:")
        for l in out.split("\n"):
            if l and "zzverif/" not in l and "100.0%" not in l and not l.startswith("total"):
                print("  " + l)
        print("uncovered blocks of the hand-written files:")
        for l in open(data + "/cov.txt"):
            c = l.split()
            if len(c) == 3 and c[2] == "0" and "zzverif/" not in l and "_types.go" not in l and "picowire/map.go" not in l:
                print("  " + l.strip())
    finally:
        subprocess.run(["git", "-C", "/repo", "worktree", "remove", "--force", wt], stderr=subprocess.DEVNULL)
        shutil.rmtree(data, ignore_errors=True)
        if os.path.exists("/tmp/verif-zzverif-cover"):
            os.remove("/tmp/verif-zzverif-cover")


if __name__ == "__main__":
    main()
