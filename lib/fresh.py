"""S-gen: fresh schemas -> the repository's real protoc-gen-pico -> compiled into a second
driver binary, so that every suite can run on generated message types that are not checked in."""
import os
import random
import re
import shutil

import common as C
import registry

KINDS = ["bool", "int32", "int64", "uint32", "uint64", "sint32", "sint64", "fixed32", "fixed64",
         "sfixed32", "sfixed64", "float", "double", "string", "bytes"]
KEY_KINDS = [k for k in KINDS if k not in ("float", "double", "bytes")]
PKG_ROOT = "storj.io/picobuf/internal/zzverif/fresh"


def header(pkg, pico=True):
    return ('syntax = "proto3";\noption go_package = "%s/%s";\npackage %s;\n%s\n' %
            (PKG_ROOT, pkg, pkg, 'import "pico.proto";' if pico else ""))


def schema_allmaps():
    s = header("allmaps", pico=False) + "message AllMaps {\n"
    n = 1
    for kk in KEY_KINDS:
        for vk in KINDS:
            s += "  map<%s, %s> f_%s_%s = %d;\n" % (kk, vk, kk, vk, n)
            n += 1
    return s + "}\n"


def schema_recur():
    return header("recur") + """
message Node {
  int32 v = 1;
  Node next = 2;
  repeated Node kids = 3;
  map<string, int32> m = 4;
  oneof o {
    Node alt = 5;
    int32 n = 6;
  }
}
message Keep {
  option (pico.message).capture_unrecognized_fields = true;
  int64 a = 1;
  Keep inner = 3;
  repeated Keep more = 5;
}
"""


def schema_presence():
    s = header("presence") + "enum Color { RED = 0; GREEN = 1; BLUE = 5; NEG = -1; }\nmessage Sub { int32 x = 1; string s = 2; }\n"
    s += "message Opt {\n"
    for i, k in enumerate(KINDS):
        s += "  optional %s o_%s = %d;\n" % (k, k, i + 1)
    s += "  optional Sub o_msg = 16;\n  Sub always = 17 [(pico.field).always_present = true];\n  Color color = 18;\n  repeated Color colors = 19;\n}\n"
    s += "message One {\n  string tag = 1;\n  oneof choice {\n"
    for i, k in enumerate(KINDS):
        s += "    %s c_%s = %d;\n" % (k, k, i + 2)
    s += "    Color c_enum = 17;\n    Sub c_msg = 18;\n  }\n  oneof other {\n    Sub second = 20;\n    bool flag = 21;\n  }\n}\n"
    return s


def schema_order():
    return header("order") + """
message Sub { int32 x = 1; }
message Reordered {
  int32 e = 5;
  string a = 1;
  repeated int32 c = 3;
  Sub b = 2;
  bytes d = 4;
}
message Big {
  int32 top = 536870911;
  string hi = 268435456;
  sint32 lo28 = 268435455;
  repeated fixed32 f16 = 16;
  bool f15 = 15;
  Sub f2048 = 2048;
  repeated Sub f2047 = 2047;
  int64 mid = 16777216;
  int64 mid2 = 33554431;
  int64 mid3 = 33554432;
}
message OneofLow {
  oneof first {
    int32 a = 1;
    string b = 2;
    Sub m = 3;
  }
  int32 after = 4;
  repeated string tail = 5;
}
"""


def schema_casts():
    return header("casts") + """
message Stamp { int64 seconds = 1; int32 nanos = 2; }
message Casts {
  Stamp t_ptr = 1 [(pico.field).custom_type = "time.Time", (pico.field).custom_serialize = "storj.io/picobuf/picoconv.Timestamp"];
  Stamp t_val = 2 [(pico.field).always_present = true, (pico.field).custom_type = "time.Time", (pico.field).custom_serialize = "storj.io/picobuf/picoconv.Timestamp"];
  repeated Stamp t_rep_ptr = 3 [(pico.field).custom_type = "time.Time", (pico.field).custom_serialize = "storj.io/picobuf/picoconv.Timestamp"];
  repeated Stamp t_rep_val = 4 [(pico.field).always_present = true, (pico.field).custom_type = "time.Time", (pico.field).custom_serialize = "storj.io/picobuf/picoconv.Timestamp"];
  Stamp d_ptr = 5 [(pico.field).custom_type = "time.Duration", (pico.field).custom_serialize = "storj.io/picobuf/picoconv.Duration"];
  Stamp d_val = 6 [(pico.field).always_present = true, (pico.field).custom_type = "time.Duration", (pico.field).custom_serialize = "storj.io/picobuf/picoconv.Duration"];
  repeated Stamp d_rep_ptr = 7 [(pico.field).custom_type = "time.Duration", (pico.field).custom_serialize = "storj.io/picobuf/picoconv.Duration"];
  repeated Stamp d_rep_val = 8 [(pico.field).always_present = true, (pico.field).custom_type = "time.Duration", (pico.field).custom_serialize = "storj.io/picobuf/picoconv.Duration"];
  int32 other = 9;
}
"""


def schema_capone():
    """capture_unrecognized_fields x oneof membership (several members, two oneofs), known numbers up to 63."""
    return header("capone") + """
message Sub { int32 x = 1; }
message CapOne {
  option (pico.message).capture_unrecognized_fields = true;
  int32 count = 3;
  oneof kind {
    string label = 5;
    int64 ident = 6;
    Sub sub = 9;
    bytes raw = 63;
  }
  string note = 7;
  oneof second {
    bool flag = 11;
    sint32 delta = 12;
  }
  repeated int32 tail = 13;
  CapOne inner = 14;
}
"""


def schema_oneofap():
    """oneof members whose message type is always present (message option or field option): by-value inside the wrapper."""
    return header("oneofap") + """
message Val {
  option (pico.message).always_present = true;
  int32 x = 1;
  repeated sint64 y = 2;
  map<string, int32> m = 3;
}
message Ptr { int32 x = 1; OneofAP back = 2; }
message OneofAP {
  int32 before = 1;
  oneof pick {
    bool flag = 3;
    Val val = 15;
    Ptr ptr = 16;
    Ptr forced = 17 [(pico.field).always_present = true];
  }
  repeated uint32 after = 20;
  Val plain = 21;
}
message OneofAPCap {
  option (pico.message).capture_unrecognized_fields = true;
  oneof pick {
    Val val = 2;
    string s = 3;
  }
}
"""


def schema_nested():
    """nested declarations: messages with the same short name under different parents (different field lists), nested enums,
    references across nesting levels, an always-present nested type."""
    return header("nested") + """
message Request {
  message Meta { string name = 1; int64 id = 2; }
  Meta meta = 1;
  repeated Meta metas = 2;
  message Inner {
    message Meta { bool deep = 3; fixed32 tag = 1; }
    Meta m = 1;
    enum Kind { NONE = 0; SOME = 5; }
    Kind kind = 2;
  }
  Inner inner = 3;
}
message Response {
  message Meta { int64 id = 1; string name = 2; repeated sint32 extra = 3; }
  Meta meta = 1;
  Request.Meta req_meta = 2;
  enum Code { OK = 0; BAD = 2; }
  Code code = 3;
  oneof r {
    Meta alt = 4;
    Request.Inner.Meta deep = 5;
    Request.Inner.Kind kind = 6;
  }
  message Flat {
    option (pico.message).always_present = true;
    sint64 v = 1;
  }
  Flat flat = 7;
  repeated Flat flats = 8;
}
"""


def schema_empty():
    """field-less message types (marker messages) in every position that carries presence, and as always-present values;
    field-less types that capture unrecognized fields (extension slots: all their content is in XXX_unrecognized)."""
    return header("empty") + """
message Ping {}
message Pong {
  option (pico.message).always_present = true;
}
message Slot {
  option (pico.message).capture_unrecognized_fields = true;
}
message Ext {
  option (pico.message).capture_unrecognized_fields = true;
  option (pico.message).always_present = true;
}
message Holder {
  string name = 1;
  Ping ping = 2;
  optional Ping opt = 3;
  oneof k {
    Ping one = 4;
    int32 other = 5;
    Pong value = 9;
  }
  repeated Ping many = 6;
  Pong pong = 7;
  repeated Pong pongs = 8;
  Slot slot = 10;
  Ext ext = 11;
  repeated Ext exts = 12;
  Ping last = 2048;
  repeated bool flags = 2049;
}
"""


def schema_names():
    """field, oneof and message names that meet the names generated code uses itself (Encode, Decode, String, Get*, XXX_unrecognized)."""
    return header("names") + """
message Fields {
  option (pico.message).capture_unrecognized_fields = true;
  string encode = 1;
  int32 decode = 2;
  bool string = 3;
  int64 reset = 4;
  repeated string get = 5;
  sint32 get_get = 6;
  bytes xxx_unrecognized = 7;
  oneof k {
    int32 a = 8;
    string encode_too = 9;
  }
  Fields m = 10;
  map<string, int32> c = 11;
}
message Oneofs {
  oneof encode {
    int32 x = 1;
    bool decode = 2;
  }
  Fields fields = 3;
}
enum Level {
  option allow_alias = true;
  UNSET = 0;
  LOW = 1;
  MIN = 1;
  HIGH = 7;
  MAX = 7;
  TOP = 7;
}
message Encoder { int32 decoder = 1; Decoder message = 2; Level level = 3; repeated Level levels = 4; }
message Decoder { repeated Encoder encoder = 1; }
"""


def schema_misc():
    """option combinations: a message that is always present AND captures unknown fields (as a field, repeated, oneof member, optional),
    oneof wrappers whose natural names meet nested declarations, a oneof with a single self-referential member, presence options
    on bytes/string/map fields."""
    return header("misc") + """
message M {
  oneof k { int32 foo = 1; M bar = 2; }
  message Foo { int32 x = 1; }
  Foo f = 3;
  enum Bar { Z = 0; Y = 3; }
  Bar b = 4;
}
message Both {
  option (pico.message).always_present = true;
  option (pico.message).capture_unrecognized_fields = true;
  int32 a = 1;
}
message UsesBoth { Both b = 1; repeated Both bs = 2; oneof o { Both ob = 3; } optional Both opt = 4; }
message Single { oneof only { Single self = 1; } }
message OptBytes {
  optional bytes b = 1 [(pico.field).always_present = true];
  optional string s = 2 [(pico.field).always_present = true];
  map<bool, bytes> m = 3 [(pico.field).always_present = true];
  optional bytes pb = 4;
  repeated bytes rb = 5 [(pico.field).always_present = true];
}
enum Color { NONE = 0; RED = 1; BLUE = -2; }
message Unpacked {
  repeated int32 a = 1 [packed = false];
  repeated bool b = 2 [packed = false];
  repeated Color c = 3 [packed = false];
  repeated sint64 d = 4 [packed = true];
  repeated double e = 5 [packed = false, (pico.field).always_present = true];
  repeated fixed32 f = 16 [packed = false];
  int32 tail = 17;
}
"""


def schema_wide():
    """sizes: a message with 150 fields of mixed kinds (numbers on both sides of the 1/2-byte tag boundary), chains of twelve
    message types nested by value and by pointer, a capturing message with every kind of field among its 63 possible numbers."""
    s = header("wide") + "message Many {\n"
    kinds = KINDS + ["Leaf", "repeated int32", "repeated string", "optional int64", "repeated Leaf"]
    for i in range(150):
        k = kinds[i % len(kinds)]
        s += "  %s f%d = %d;\n" % (k, i, 1 + i if i < 120 else 2000 + i * 7)
    s += "}\nmessage Leaf { sint32 v = 1; }\n"
    for i in range(12):
        inner = "V%d next = 2 [(pico.field).always_present = true];" % (i + 1) if i < 11 else "int32 bottom = 2;"
        s += "message V%d { int32 x = 1; %s }\n" % (i, inner)
    for i in range(12):
        inner = "P%d next = 2; repeated P%d more = 3;" % (i + 1, i + 1) if i < 11 else "string bottom = 2;"
        s += "message P%d { bool x = 1; %s }\n" % (i, inner)
    s += """message CapAll {
  option (pico.message).capture_unrecognized_fields = true;
  int32 a = 1;
  optional int32 oa = 2;
  optional string os = 3;
  repeated sint32 ra = 4;
  repeated string rs = 5;
  Leaf m = 6;
  optional Leaf om = 7;
  repeated Leaf rm = 8;
  map<int32, string> mp = 9;
  oneof k { bool kb = 10; Leaf km = 11; string ks = 12; }
  V11 byval = 13 [(pico.field).always_present = true];
  CapAll self = 14;
  optional bytes ob = 62;
  fixed64 last = 63;
}
"""
    return s


def schema_bigenum():
    """enum size boundaries (top-level with 20 values, nested with 17, negative and sparse numbers)."""
    s = header("bigenum", pico=False) + "enum Code {\n"
    for i in range(20):
        s += "  CODE_%d = %d;\n" % (i, i if i < 15 else i * 1000)
    s += "}\nmessage Holder {\n  enum Inner {\n"
    for i in range(17):
        s += "    IN_%d = %d;\n" % (i, i)
    s += "    IN_NEG = -7;\n  }\n  Code code = 1;\n  repeated Code codes = 2;\n  Inner inner = 3;\n  repeated Inner inners = 4;\n  oneof o { Code oc = 5; Inner oi = 6; }\n}\n"
    return s


def schema_wkimp():
    """a direct import of a well-known file that no field uses (as with rpc signatures or local option extensions)."""
    return ('syntax = "proto3";\noption go_package = "%s/wkimp";\npackage wkimp;\nimport "google/protobuf/empty.proto";\nimport "pico.proto";\n'
            'message Ping { int32 seq = 1; bytes body = 2; }\n' % PKG_ROOT)


def random_schema(pkg, rnd, salt=0):
    """A schema drawn from the grammar: kind x label x option x oneof membership x numbering x order x nesting."""
    nmsg = rnd.randint(2, 4)
    names = ["M%d" % i for i in range(nmsg)]
    # a second stream decides which message-typed fields become Timestamp/Duration casts (picoconv), so that the
    # structure drawn from the first stream stays what it was before casts entered the grammar
    rnd2 = random.Random("casts:%s:%s" % (pkg, salt))
    s = header(pkg) + "enum E { Z = 0; A = 1; B = 2; N = -3; }\nmessage Stamp { int64 seconds = 1; int32 nanos = 2; }\n"
    bodies = []
    ap_flags, byval = {}, {}

    def reach(a, b, seen=()):
        return a == b or any(reach(c, b, seen + (a,)) for c in byval.get(a, ()) if c not in seen)

    def plain(owner, fn, t, lab, n, o, kd):
        """Text of a field outside any oneof. A by-value message field (target always present; targets not drawn yet count
        as possibly always present) must not close a cycle - that would be an invalid recursive Go type, which no schema of
        the feature set describes - so such a field is printed as repeated. Consumes no randomness."""
        if kd == "msg" and t in names and lab != "repeated":
            if names.index(t) <= names.index(owner) and ap_flags.get(t):
                if reach(t, owner):
                    lab = "repeated"
                else:
                    byval.setdefault(owner, set()).add(t)
            elif names.index(t) > names.index(owner):
                byval.setdefault(owner, set()).add(t)
        return "  %s%s %s = %d%s;\n" % ((lab + " ") if lab else "", t, fn, n, (" [" + ", ".join(o) + "]") if o else "")

    for mi, name in enumerate(names):
        capture = rnd.random() < 0.25
        msg_ap = rnd.random() < 0.15
        ap_flags[name] = msg_ap
        nf = rnd.randint(1, 9)
        pool = list(range(1, 16)) + [16, 17, 31, 32, 63]
        if not capture:
            pool += [64, 127, 128, 2047, 2048, 16383, 16384, 18999, 20000, 1 << 21, (1 << 28) - 1, 1 << 28, (1 << 29) - 1]
        nums = rnd.sample(pool, nf)
        body = ""
        if capture:
            body += "  option (pico.message).capture_unrecognized_fields = true;\n"
        if msg_ap:
            body += "  option (pico.message).always_present = true;\n"
        in_oneof = 0
        fields = []
        for fi, num in enumerate(nums):
            kind = rnd.choice(KINDS + ["E", "msg", "msg", "map"])
            label = rnd.choice(["", "", "optional", "repeated"])
            opts = []
            if rnd.random() < 0.15:
                opts.append("(pico.field).always_present = true")
            fname = "f%d" % fi
            if kind == "map":
                ty = "map<%s, %s>" % (rnd.choice(KEY_KINDS), rnd.choice(KINDS))
                label = ""
                opts = []
            elif kind == "msg":
                # avoid by-value recursion (invalid Go type): always_present only towards later, non-always_present messages
                tgt = rnd.choice(names)
                ty = tgt
                opts = [] if (names.index(tgt) <= mi) else opts
                if rnd2.random() < 0.3:
                    ty = "Stamp"
                    c = rnd2.choice([("time.Time", "Timestamp"), ("time.Duration", "Duration")])
                    opts = ['(pico.field).custom_type = "%s"' % c[0], '(pico.field).custom_serialize = "storj.io/picobuf/picoconv.%s"' % c[1]]
                    if rnd2.random() < 0.5:
                        opts.insert(0, "(pico.field).always_present = true")
            elif kind == "E":
                ty = "E"
                if label == "optional":
                    label = ""  # optional enum is outside the feature set (checked separately)
            else:
                ty = kind
            fields.append((fname, ty, label, num, opts, kind))
        # group some non-repeated, non-map fields into a oneof
        i = 0
        while i < len(fields):
            fname, ty, label, num, opts, kind = fields[i]
            if rnd.random() < 0.2 and kind != "map" and label != "repeated":
                k = min(rnd.randint(1, 3), len(fields) - i)
                body += "  oneof g%d {\n" % in_oneof
                cnt = 0
                for j in range(i, i + k):
                    fn, t, lab, n, o, kd = fields[j]
                    if kd == "map" or lab == "repeated":
                        break
                    body += "    %s %s = %d%s;\n" % (t, fn, n, (" [" + ", ".join(o) + "]") if o else "")
                    cnt += 1
                body += "  }\n"
                in_oneof += 1
                i += max(cnt, 1) if cnt else 0
                if cnt == 0:
                    body += ""  # nothing consumed; emit the field normally below
                    fn, t, lab, n, o, kd = fields[i]
                    body += plain(name, fn, t, lab, n, o, kd)
                    i += 1
                continue
            body += plain(name, fname, ty, label, num, opts, kind)
            i += 1
        bodies.append((name, body))
    # second stream: sometimes the last message is declared inside the first one (Go name M0_Mk, references qualified)
    if len(bodies) >= 3 and rnd2.random() < 0.4:
        inner, ibody = bodies.pop()
        outer, obody = bodies[0]
        nested = "  message %s {\n%s  }\n" % (inner, "".join("  " + l + "\n" for l in ibody.split("\n") if l))
        bodies[0] = (outer, nested + obody)
        qual = re.compile(r"(?<![A-Za-z0-9_.])%s(?= f\d)" % inner)
        bodies = [(n, qual.sub("%s.%s" % (outer, inner), b)) for n, b in bodies]
    for name, body in bodies:
        s += "message %s {\n%s}\n" % (name, body)
    return s


BOUNDARY = {
    "bopt": ("optional enum", lambda: header("bopt", False) + "enum E { Z = 0; A = 1; B = -1; }\nmessage M { optional E e = 1; int32 x = 2; optional E f = 3; }\n"),
    "bmap": ("map with message value", lambda: header("bmap", False) + "message V { int32 x = 1; }\nmessage M { map<string, V> m = 1; }\n"),
    "bmape": ("map with enum value", lambda: header("bmape", False) + "enum E { Z = 0; }\nmessage M { map<int32, E> m = 1; }\n"),
    "bcapmap": ("capture with maps at field numbers >= 64", lambda: header("bcapmap") + "message MapCap { option (pico.message).capture_unrecognized_fields = true; int32 a = 1; string s = 2; map<int32, string> names = 64; map<string, sint32> weights = 70; }\n"),
    "bcap": ("capture with field number >= 64", lambda: header("bcap") + "message M { option (pico.message).capture_unrecognized_fields = true; int32 a = 64; }\n"),
}


def fixed_schemas():
    return {"allmaps": schema_allmaps(), "recur": schema_recur(), "presence": schema_presence(), "order": schema_order(), "casts": schema_casts(),
            "capone": schema_capone(), "oneofap": schema_oneofap(), "nested": schema_nested(), "empty": schema_empty(), "names": schema_names(), "misc": schema_misc(), "wide": schema_wide(), "bigenum": schema_bigenum(), "wkimp": schema_wkimp()}


def build(schemas, tag="fresh"):
    """schemas: {pkg: proto text}. Returns dict(driver=path|None, results={pkg: 'ok'|'error: ...'}, log=str)."""
    root = os.path.join(C.WORK, tag)
    src = os.path.join(root, "src")
    gen = os.path.join(root, "gen")           # overlay root for the fresh driver
    shutil.rmtree(root, ignore_errors=True)
    os.makedirs(src)
    os.makedirs(os.path.join(gen, "fresh"))
    plugin = os.path.join(C.BIN, "protoc-gen-pico")
    rc, so, se = C.run(["go", "build", "-o", plugin, "./protoc-gen-pico"], cwd=C.REPO, env=C.GOENV, check=False, timeout=600)
    if rc != 0:
        return {"driver": None, "results": {}, "log": "building protoc-gen-pico failed: " + (so + se)[-2000:]}
    specs = []
    for pkg, text in schemas.items():
        p = os.path.join(src, pkg + ".proto")
        open(p, "w").write(text)
        specs.append("%s=%s.proto" % (p, pkg))
    base = os.path.join(C.BIN, "zzverif")
    results, extra, log = {}, [], ""
    plain = os.path.join(root, "gen-plain")     # the same schemas without field_access: compiled, never run
    os.makedirs(os.path.join(plain, "fresh"))
    for spec in specs:
        pkg = os.path.basename(spec).split("=")[1][:-6]
        outdir = os.path.join(gen, "fresh", pkg)
        # the driver is built from the output WITH accessors (plugin parameter field_access=true): the codecs must not depend
        # on the parameter (checked below), and the accessors are exercised by the msg suite
        rc, so, se = C.run([base, "genrun", plugin, outdir, "paths=source_relative,field_access=true", spec], check=False, timeout=300,
                           env=dict(os.environ, VERIF_REPO=C.REPO))
        C.run([base, "genrun", plugin, os.path.join(plain, "fresh", pkg), "paths=source_relative", spec], check=False, timeout=300,
              env=dict(os.environ, VERIF_REPO=C.REPO))
        line = [l for l in so.split("\n") if l.startswith("genrun\t")]
        if rc != 0 or not line:
            results[pkg] = "error: driver: " + (so + se)[-500:]
            continue
        cols = line[0].split("\t")
        if cols[2] == "ok":
            results[pkg] = "ok"
            extra.append((os.path.join(src, pkg + ".proto"), pkg + ".proto", "%s/%s" % (PKG_ROOT, pkg), "fresh_" + pkg,
                          os.path.join(outdir, pkg + ".pico.go")))
        else:
            results[pkg] = "error: " + cols[3]
            shutil.rmtree(outdir, ignore_errors=True)
    # "its output compiles": build every emitted package on its own first
    ov = C.write_overlay(gen)
    ok_extra = []
    for e in extra:
        pkg = e[1][:-6]
        rc, so, se = C.run(["go", "build", "-tags", "verif", "-overlay", ov, "./internal/zzverif/fresh/" + pkg], cwd=C.REPO, env=C.GOENV, check=False, timeout=600)
        if rc != 0:
            results[pkg] = "compile-error: " + " | ".join((so + se).strip().split("\n")[:4])[:600]
        else:
            ok_extra.append(e)
    extra = ok_extra
    # the output without accessors: compiles too, and is the output with accessors minus lines (same codecs)
    ovp = C.write_overlay(plain)
    for e in list(extra):
        pkg = e[1][:-6]
        pf = os.path.join(plain, "fresh", pkg, pkg + ".pico.go")
        if not os.path.exists(pf):
            results[pkg] = "error: generator fails without field_access although it succeeds with it"
            extra.remove(e)
            continue
        rc, so, se = C.run(["go", "build", "-tags", "verif", "-overlay", ovp, "./internal/zzverif/fresh/" + pkg], cwd=C.REPO, env=C.GOENV, check=False, timeout=600)
        if rc != 0:
            results[pkg] = "compile-error: (without field_access) " + " | ".join((so + se).strip().split("\n")[:4])[:600]
            extra.remove(e)
            continue
        it = iter(open(e[4]).read().split("\n"))
        if not all(any(l == m for m in it) for l in open(pf).read().split("\n")):
            results[pkg] = "compile-error: output without field_access is not the output with field_access minus the accessors"
            extra.remove(e)
    registry.generate(extra=extra, out_path=os.path.join(gen, "zz_registry.go"))
    out = os.path.join(C.BIN, "zzverif-" + tag)
    rc, msg, dt = C.go_build("./internal/zzverif", out, gen_root=gen)
    if rc != 0:
        return {"driver": None, "results": results, "log": "go build of generated code failed: " + msg[-3000:], "gen": gen}
    # go vet of the emitted sources (toolchain fact, reported only)
    return {"driver": out, "results": results, "log": log, "gen": gen, "src": src}


def cached_build(schemas, tag):
    """Build once per (repo tree, harness, schema texts); reused by the checks of one run."""
    import hashlib
    import json
    key = hashlib.sha256((C.repo_fingerprint() + C.verif_fingerprint() + json.dumps(schemas, sort_keys=True)).encode()).hexdigest()[:16]
    stamp = os.path.join(C.WORK, tag, "stamp.json")
    with C.Lock("fresh-" + tag):
        if os.path.exists(stamp):
            try:
                st = json.load(open(stamp))
                if st.get("key") == key and (st["res"]["driver"] is None or os.path.exists(st["res"]["driver"])):
                    return st["res"]
            except Exception:  # noqa
                pass
        res = build(schemas, tag)
        json.dump({"key": key, "res": res}, open(stamp, "w"))
        return res


def standard_set(seed, n_random):
    sch = fixed_schemas()
    rnd = random.Random(seed)
    for i in range(n_random):
        sch["r%d" % i] = random_schema("r%d" % i, rnd, seed)
    return sch
