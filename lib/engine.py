"""Check engine: shared build stages + per-property deciders (lib/props_*.py)."""
import glob
import hashlib
import importlib
import json
import os
import re
import shutil
import sys
import time

import common as C


class Ctx:
    """State of one check invocation."""

    def __init__(self, pid, tier, seed):
        self.pid = pid
        self.tier = tier
        self.seed = seed
        self.t0 = time.time()
        self.violations = []   # (replay_path, has_input, text)
        self.known = []        # text lines
        self.cover = {"evaluations": 0, "distinct_nontrivial": 0, "samples": [],
                      "traces_validated_against_impl": 0, "histograms": {}}
        self.assumptions = []
        self.notes = []
        self.prep = None

    # ---- reporting helpers
    def violation(self, name, obj, has_input=True, text=""):
        obj = dict(obj)
        obj.setdefault("property", self.pid)
        obj.setdefault("tier", self.tier)
        obj.setdefault("seed", self.seed)
        path = C.write_replay(self.pid, name, obj)
        self.violations.append((path, has_input, text))
        return path

    def add_cases(self, n, distinct_nontrivial, samples=(), traces=0, hist=None):
        self.cover["evaluations"] += n
        self.cover["distinct_nontrivial"] += distinct_nontrivial
        self.cover["traces_validated_against_impl"] += traces
        for s in samples:
            if len(self.cover["samples"]) < 12:
                self.cover["samples"].append(s)
        if hist:
            for k, v in hist.items():
                h = self.cover["histograms"].setdefault(k, {})
                for kk, vv in v.items():
                    h[kk] = h.get(kk, 0) + vv


# ------------------------------------------------------------------------
# shared stage

def _hash_file(p):
    return hashlib.sha256(open(p, "rb").read()).hexdigest()


def prepare(force_extract=False):
    """Build driver, run translators, make Coq, extract, build OCaml driver.
    Returns dict with status of every stage. Runs under the build lock."""
    st = {"driver_ok": False, "driver_msg": "", "coq_ok": False, "coq_log": "",
          "coq_failed": [], "extract_ok": False, "translate": {}, "t": {}}
    with C.Lock():
        t = time.time()
        rc, msg, out = C.build_driver()
        st["driver_ok"] = rc == 0
        st["driver_msg"] = msg[-3000:]
        st["driver"] = out
        st["t"]["go_build"] = round(time.time() - t, 1)

        # translators (model parts regenerated from the source)
        t = time.time()
        os.makedirs(os.path.join(C.COQ, "gen"), exist_ok=True)
        if st["driver_ok"]:
            try:
                import translate
                st["translate"] = translate.run_all(out)
            except ImportError:
                st["translate"] = {}
        st["t"]["translate"] = round(time.time() - t, 1)

        t = time.time()
        if not os.path.exists(os.path.join(C.COQ, "model.ml")):
            for f in glob.glob(os.path.join(C.COQ, "Extract", "Extract.vo*")):
                os.remove(f)
        rc, log = C.coq_make(["-k"])
        os.makedirs(C.WORK, exist_ok=True)
        open(os.path.join(C.WORK, "coq_make.log"), "w").write(log)
        st["coq_ok"] = rc == 0
        st["coq_log"] = log[-6000:]
        st["coq_failed"] = sorted(set(re.findall(r"\*\*\* \[[^\]]*?:\s*(\S+?)\.vo\]", log)))
        st["coq_errors"] = _coq_errors(log)
        st["t"]["coq_make"] = round(time.time() - t, 1)

        t = time.time()
        st["extract_ok"], st["extract_msg"] = build_model_driver()
        st["t"]["extract"] = round(time.time() - t, 1)
    st["model_driver"] = os.path.join(C.WORK, "extract", "model_driver")
    return st


def _coq_errors(log):
    """Map failing .v file -> error text (first 30 lines after its File header)."""
    errs = {}
    lines = log.split("\n")
    for i, l in enumerate(lines):
        m = re.match(r'File "\./(\S+?)\.v", line (\d+)', l)
        if m and i + 1 < len(lines) and any("Error" in x for x in lines[i + 1:i + 3]):
            errs.setdefault(m.group(1), "\n".join(lines[i:i + 25]))
    return errs


def build_model_driver():
    ex = os.path.join(C.WORK, "extract")
    os.makedirs(ex, exist_ok=True)
    vo = os.path.join(C.COQ, "Extract", "Extract.vo")
    ml = os.path.join(C.COQ, "model.ml")
    if not os.path.exists(vo) or not os.path.exists(ml):
        return False, "Extract.vo/model.ml missing (model did not build)"
    # model.ml/.mli are written by coqc (run by make, cwd = coq/) when Extract.v is compiled.
    key = _hash_file(ml) + _hash_file(os.path.join(C.OCAML, "driver.ml"))
    stamp = os.path.join(ex, "stamp")
    if os.path.exists(stamp) and open(stamp).read() == key and os.path.exists(os.path.join(ex, "model_driver")):
        return True, "cached"
    shutil.copy(ml, os.path.join(ex, "model.ml"))
    shutil.copy(ml + "i", os.path.join(ex, "model.mli"))
    shutil.copy(os.path.join(C.OCAML, "driver.ml"), os.path.join(ex, "driver.ml"))
    rc, so, se = C.run(["ocamlfind", "ocamlopt", "-O2", "-w", "-a", "-package", "str", "-linkpkg", "model.mli", "model.ml",
                        "driver.ml", "-o", "model_driver"], cwd=ex, check=False)
    if rc != 0:
        return False, (so + se)[-2000:]
    open(stamp, "w").write(key)
    return True, "built"


# ------------------------------------------------------------------------
# running suites

def run_model(model_driver, cf, timeout, env):
    """Evaluates the extracted model on a case file; returns one output line per input line.
    Rows are independent of each other except that a `schema` row defines the schema later rows refer to, so a
    large file is cut into shards (every shard gets all schema rows) that are evaluated in parallel."""
    import subprocess
    lines = open(cf).read().split("\n")
    if lines and lines[-1] == "":
        lines.pop()
    def big_stack():
        # the extracted model recurses over lists as long as the input (200 000 unknown fields, 10 000 nested groups):
        # give it the whole stack the system allows instead of the 8 MB default
        import resource
        try:
            hard = resource.getrlimit(resource.RLIMIT_STACK)[1]
            resource.setrlimit(resource.RLIMIT_STACK, (hard, hard))
        except Exception:  # noqa
            pass
    nsh = min(int(os.environ.get("VERIF_MODEL_SHARDS", "12")), len(lines) // 24)
    if any(len(l) > 1000000 and not l.startswith("msg\t") for l in lines):
        nsh = min(nsh, 4)       # megabyte-sized decoder rows (deep nesting, 200 000 unknown fields) cost the model about 8 GB each
                                # (megabyte-sized msg rows are skipped by the model)
    if nsh <= 1:
        p = subprocess.run([model_driver, cf], stdout=subprocess.PIPE, stderr=subprocess.PIPE, text=True, timeout=timeout, env=env, preexec_fn=big_stack)
        if p.returncode != 0:
            raise RuntimeError("model driver failed: " + p.stderr[-2000:])
        return p.stdout.split("\n")
    # rows go to the shard with the least work so far, longest rows first (the model's cost grows faster than the row length)
    owner = [0] * len(lines)
    load = [0.0] * nsh
    for i in sorted(range(len(lines)), key=lambda i: -len(lines[i])):
        if lines[i].startswith("schema\t"):
            continue
        k = min(range(nsh), key=lambda k: load[k])
        owner[i] = k
        load[k] += 200 + (len(lines[i]) if len(lines[i]) < 1500000 else 1000) ** 1.3
    procs = []
    for k in range(nsh):
        idx = [i for i, l in enumerate(lines) if l.startswith("schema\t") or owner[i] == k]
        sf = "%s.shard%d" % (cf, k)
        with open(sf, "w") as f:
            f.write("".join(lines[i] + "\n" for i in idx))
        # output goes to a file: a pipe would fill and serialise the shards
        procs.append((k, idx, sf, subprocess.Popen([model_driver, sf], stdout=open(sf + ".out", "w"), stderr=subprocess.PIPE, text=True, env=env, preexec_fn=big_stack)))
    out = ["?"] * len(lines)
    err = None
    for k, idx, sf, p in procs:
        try:
            _, se = p.communicate(timeout=timeout)
        except subprocess.TimeoutExpired:
            for _, _, _, q in procs:
                q.kill()
            raise
        so = open(sf + ".out").read()
        os.unlink(sf)
        os.unlink(sf + ".out")
        if p.returncode != 0:
            err = se[-2000:]
            continue
        ol = so.split("\n")
        for j, i in enumerate(idx):
            if (owner[i] == k or (k == 0 and lines[i].startswith("schema\t"))) and j < len(ol):
                out[i] = ol[j]
    if err is not None:
        raise RuntimeError("model driver failed: " + err)
    return out


def run_suite(ctx, name, gen_args, timeout=1200, driver=None):
    """Run a driver command producing a case file, then the model on it.
    Returns list of rows: dict(suite,input,impl,oracle,model,spec,extra...)."""
    prep = ctx.prep
    if ctx.tier == "thorough":
        timeout = max(timeout, 5400)     # megabyte-sized rows cost the extracted model minutes each
    d = os.path.join(C.WORK, "cases", ctx.pid)
    os.makedirs(d, exist_ok=True)
    cf = os.path.join(d, name + ".txt")
    t_go = time.time()
    with open(cf, "w") as f:
        import subprocess
        env = dict(os.environ, VERIF_REPO=C.REPO)
        if ctx.tier == "thorough":
            env.setdefault("VERIF_MAX_VAL", "160000")
        p = subprocess.run([driver or prep["driver"]] + [str(a) for a in gen_args], stdout=f, stderr=subprocess.PIPE,
                           text=True, timeout=timeout, env=env)
    if p.returncode == 97 and "VERIF-HANG" in p.stderr:
        # a library call did not return within the watchdog limit: a violation of whatever property is being checked
        # (every property presupposes that Marshal/Unmarshal terminate), reported with the input as replay
        line = [l for l in p.stderr.split("\n") if l.startswith("VERIF-HANG")][0].split("\t")
        ctx.violation("hang", {"what": "%s did not return within the watchdog limit (25 s)" % line[1], "go_type": line[2], "input": line[3][:20000],
                               "replay_cmd": "%s dec-one <type key> %s" % (driver or prep["driver"], line[3][:200])},
                      text="%s of %s hangs on input %s" % (line[1], line[2], line[3][:120]))
        return []
    if p.returncode != 0 and "could not discover wrapper of oneof member" in p.stderr:
        # the harness finds the wrapper type of a oneof member by decoding a minimal occurrence of the member: if that does not
        # select the member, the generated Decode ignores a field of its own schema - a violation of every decoding property
        msg = [l for l in p.stderr.split("\n") if "could not discover wrapper" in l][0]
        ctx.violation("oneof-member", {"what": "decoding a minimal occurrence of a oneof member does not select it (the generated Decode has no case for the member): " + msg[:300],
                                       "replay_cmd": "%s types" % (driver or prep["driver"])},
                      text="generated Decode ignores a oneof member: " + msg[:200])
        return []
    if p.returncode != 0 and "VERIF-RISKY\t" in p.stderr and "VERIF-RISKY-DONE" not in p.stderr.split("VERIF-RISKY\t")[-1]:
        # the driver died inside a call it had announced (a fatal runtime error - stack overflow, out of memory - cannot be recovered)
        line = p.stderr.split("VERIF-RISKY\t")[-1].split("\n")[0].split("\t")
        fatal = [l for l in p.stderr.split("\n") if l.startswith("fatal error") or "stack exceeds" in l][:2]
        ctx.violation("crash", {"what": "%s of %s kills the process (%s) on: %s" % (line[0], line[1], "; ".join(fatal)[:200], line[2]),
                                "replay_cmd": "%s %s" % (driver or prep["driver"], " ".join(str(a) for a in gen_args))},
                      text="%s of %s kills the process on %s" % (line[0], line[1], line[2][:120]))
        return []
    if p.returncode != 0:
        raise RuntimeError("driver %s failed: %s" % (gen_args, p.stderr[-2000:]))
    menv = dict(os.environ)
    if ctx.tier == "thorough":
        menv["VERIF_MODEL_BIG"] = "1"
    t_model = time.time()
    mlines = run_model(prep["model_driver"], cf, timeout, menv)
    if os.environ.get("VERIF_TIMING"):
        C.log("timing %s/%s: implementation+oracle %.1fs, model %.1fs" % (ctx.pid, name, t_model - t_go, time.time() - t_model))
    rows = []
    with open(cf) as f:
        for i, line in enumerate(f):
            cols = line.rstrip("\n").split("\t")
            mcols = mlines[i].split("\t") if i < len(mlines) else ["?"]
            rows.append({"suite": cols[0], "cols": cols[1:], "model": mcols[1:], "index": i})
    return rows


# ------------------------------------------------------------------------
# proof obligations

def theorem_names(pid):
    p = os.path.join(C.COQ, "Props", pid + ".v")
    if not os.path.exists(p):
        return [], []
    code = C.strip_coq_comments(open(p).read())
    pos = re.findall(r"\b(?:Theorem|Corollary)\s+(\w+)", code)
    ex = re.findall(r"\b(?:Example|Lemma|Fact)\s+(\w+)", code)
    return pos, ex


def obligations(ctx, pid=None):
    """Status of the proof side for a property: dependency cone built? refuted theorems?"""
    pid = pid or ctx.pid
    prep = ctx.prep
    vfile = os.path.join("Props", pid + ".v")
    res = {"file": vfile, "present": os.path.exists(os.path.join(C.COQ, vfile)), "cone": [], "failed": [],
           "theorems": [], "refuted": [], "qed": 0, "assumptions": []}
    if not res["present"]:
        return res
    cone = C.coq_deps(vfile)
    res["cone"] = cone
    failed = [f for f in cone if f[:-2] in prep["coq_failed"] or not os.path.exists(os.path.join(C.COQ, f[:-2] + ".vo"))]
    res["failed"] = failed
    pos, ex = theorem_names(pid)
    res["theorems"] = pos
    res["refuted"] = [n for n in pos + ex if n.endswith("_refuted")]
    res["partial"] = [n for n in pos if n.endswith("_partial")]
    res["qed"] = C.count_qed([os.path.join(C.COQ, f) for f in cone])
    if not failed:
        # Print Assumptions for every theorem of the property
        d = os.path.join(C.WORK, "pa")
        os.makedirs(d, exist_ok=True)
        src = "From Pico Require Import Props.%s.\n" % pid + "".join(
            'Goal True. idtac "@@ %s". Abort.\nPrint Assumptions %s.\n' % (n, n) for n in pos)
        f = os.path.join(d, "PA_%s.v" % pid)
        open(f, "w").write(src)
        rc, so, se = C.run(["timeout", "300", "coqc", "-Q", C.COQ, "Pico", f], cwd=d, check=False)
        cur = None
        for line in (so or "").split("\n"):
            if line.startswith("@@ "):
                cur = line[3:].strip()
            elif line.strip() and cur:
                res["assumptions"].append("%s: %s" % (cur, line.strip()))
        if rc != 0:
            res["failed"].append("Print Assumptions: " + (se or "")[-500:])
    return res


# ------------------------------------------------------------------------

def finish(ctx, level, extra_cover=None, trusted=None, explanation=None):
    kf = C.known_findings()
    cover = ctx.cover
    if extra_cover:
        cover.update(extra_cover)
    if trusted is not None:
        cover["trusted_base"] = trusted
    if explanation:
        cover["explanation"] = explanation
    cover.setdefault("rule", "")
    if not cover["samples"]:
        cover["samples"] = ["(none)"]
    for k in ctx.known:
        print("KNOWN-FINDING: property=%s %s" % (ctx.pid, k))
    C.write_evidence(ctx.pid, ctx.tier, ctx.seed, level, cover, ctx.assumptions + ctx.notes,
                     time.time() - ctx.t0, len(ctx.violations))
    for path, has_input, text in ctx.violations:
        print("VIOLATION property=%s replay=%s%s" % (ctx.pid, path, "" if has_input else " no-failing-input-found"))
    if ctx.violations:
        for path, has_input, text in ctx.violations[:5]:
            C.log("violation:", text)
        return 1
    C.log("%s %s: held on everything explored (%.1fs, %d cases)" % (ctx.pid, ctx.tier, time.time() - ctx.t0,
                                                                  cover.get("evaluations", 0)))
    return 0


def main(argv):
    if not argv:
        print(__doc__)
        return 2
    if argv[0] == "setup":
        st = prepare()
        C.log("setup:", json.dumps({k: st[k] for k in ("driver_ok", "coq_ok", "extract_ok", "t", "coq_failed")}))
        if not st["driver_ok"]:
            C.log(st["driver_msg"])
        if not st["coq_ok"]:
            C.log(st["coq_log"][-3000:])
        if not st["extract_ok"]:
            C.log(st.get("extract_msg"))
        return 0 if (st["driver_ok"] and st["coq_ok"] and st["extract_ok"]) else 1
    if argv[0] == "replay":
        import replay
        return replay.main(argv[1:])
    pid = argv[0]
    tier = argv[1] if len(argv) > 1 else os.environ.get("VERIF_TIER", "quick")
    if tier not in ("quick", "thorough"):
        tier = "quick"
    seed = int(os.environ.get("VERIF_SEED", "1") or "1")
    ctx = Ctx(pid, tier, seed)
    mod = importlib.import_module("props")
    fn = getattr(mod, "check_" + pid, None)
    if fn is None:
        print("unknown property", pid)
        return 2
    ctx.prep = prepare()
    return fn(ctx)
