#!/usr/bin/env python3
"""Mutation sweep: systematic small changes to storj/picobuf's sources, each tried in a scratch copy of the repository
(never /repo): a mutant that compiles and keeps the existing test suite green is run against the quick checks of the
properties its file is anchored in; a mutant no check reports is a SURVIVOR (either equivalent to the original or a blind spot
of the machinery - to be read by hand).

usage: mutate.py <scratch repo copy> <out.json> [--files a.go,b.go] [--shard k/n] [--limit N]
The scratch copy must be a git worktree/clone of /repo at HEAD; it is restored after every mutant.
"""
import json
import os
import re
import subprocess
import sys
import time

VERIF = os.path.dirname(os.path.dirname(os.path.abspath(__file__)))
GOENV = dict(os.environ, GOPROXY="off", GOSUMDB="off", GOTOOLCHAIN="local", GOFLAGS="-mod=mod")

# file -> checks to run (first report kills the mutant), in the order most likely to kill
TARGETS = {
    "decoder.go": ["C13", "C02", "C05", "C04", "C10", "C09", "C19", "C11", "C03"],
    "encoder.go": ["C13", "C01", "C06", "C17", "C03", "C08", "C11"],
    "conv.go": ["C13", "C15", "C01"],
    "message.go": ["C01", "C02", "C17", "C05", "C04", "C16"],
    "internal/protowire/wire.go": ["C13", "C05", "C10", "C04", "C02", "C01", "C19"],
    "picoconv/duration.go": ["C14", "C03", "C01"],
    "picoconv/timestamp.go": ["C14", "C03", "C01"],
    "internal/bitset/set.go": ["C20"],
    "protoc-gen-pico/main.go": ["C18", "C12", "C08", "C07"],
    "internal/generatecoder/main.go": ["C18", "C13", "C15", "C11", "C01", "C02"],
}
REGEN = {"internal/generatecoder/main.go": "go run ./internal/generatecoder"}

SWAPS = [
    (r"<=", "<"), (r">=", ">"), (r"(?<![<>=!-])<(?![=<-])", "<="), (r"(?<![<>=!-])>(?![=>])", ">="),
    (r"==", "!="), (r"!=", "=="), (r"&&", "||"), (r"\|\|", "&&"),
    (r"\+ 1\b", "+ 2"), (r"\+ 1\b", ""), (r"- 1\b", "- 2"), (r"- 1\b", ""), (r"\+= 1\b", "+= 2"),
    (r"\btrue\b", "false"), (r"\bfalse\b", "true"),
    (r"\b0x7f\b", "0x7e"), (r"\b0x80\b", "0x81"), (r"\b128\b", "127"), (r"\b127\b", "128"), (r"\b7\b", "8"), (r"\b63\b", "64"), (r"\b64\b", "63"),
    (r"\b32\b", "31"), (r"\b31\b", "32"), (r"\b10\b", "9"), (r"\b3\b", "2"), (r"\b2\b", "3"), (r"\b1\b", "0"), (r"\b0\b", "1"),
    (r"<<", ">>"), (r">>", "<<"), (r"\|=", "&="), (r"(?<![&|])&(?![&=^])", "|"), (r"\^", "&"),
    (r"\bbreak\b", "continue"), (r"\bcontinue\b", "break"),
    (r"len\(([a-zA-Z_.]+)\) == 0", r"len(\1) == 1"), (r"\bn < 0\b", "n <= 0"),
]


def sh(cmd, cwd, timeout=1800, env=None):
    p = subprocess.run(cmd, cwd=cwd, env=env or GOENV, shell=isinstance(cmd, str), stdout=subprocess.PIPE, stderr=subprocess.STDOUT, text=True, timeout=timeout)
    return p.returncode, p.stdout


def mutants_of(path, rel):
    lines = open(path).read().split("\n")
    out = []
    in_block_comment = False
    for i, line in enumerate(lines):
        s = line.strip()
        if in_block_comment:
            if "*/" in s:
                in_block_comment = False
            continue
        if s.startswith("/*"):
            in_block_comment = "*/" not in s
            continue
        if not s or s.startswith("//") or s.startswith("import") or s.startswith("package") or s.startswith('"'):
            continue
        code = line.split("//")[0] if '"' not in line else line
        # statement deletion: calls and assignments standing alone on a line
        if re.match(r"^\s*[A-Za-z_][A-Za-z0-9_.]*(\(.*\)|\s*(=|\+=|-=|:=).*)\s*$", code) and not s.endswith("{") and ":=" not in s:
            out.append((i, "delete-statement", line, re.match(r"^\s*", line).group(0) + "_ = 0 // deleted: " + s.replace("*/", "")))
        for pat, rep in SWAPS:
            for mt in re.finditer(pat, code):
                # skip matches inside string literals
                if code[:mt.start()].count('"') % 2 == 1 or code[:mt.start()].count("`") % 2 == 1:
                    continue
                new = code[:mt.start()] + mt.expand(rep) + code[mt.end():] + line[len(code):]
                if new != line:
                    out.append((i, "%s -> %s" % (mt.group(0), mt.expand(rep) or "(removed)"), line, new))
    # de-duplicate
    seen, uniq = set(), []
    for m in out:
        k = (m[0], m[3])
        if k not in seen:
            seen.add(k)
            uniq.append(m)
    return lines, uniq


def main():
    repo, outp = sys.argv[1], sys.argv[2]
    files = list(TARGETS)
    shard, limit = (0, 1), None
    a = sys.argv[3:]
    while a:
        if a[0] == "--files":
            files = a[1].split(",")
            a = a[2:]
        elif a[0] == "--shard":
            k, n = a[1].split("/")
            shard = (int(k), int(n))
            a = a[2:]
        elif a[0] == "--limit":
            limit = int(a[1])
            a = a[2:]
        else:
            a = a[1:]
    results = json.load(open(outp)) if os.path.exists(outp) else {}
    env_check = dict(os.environ, VERIF_REPO=repo, VERIF_SCALE=os.environ.get("VERIF_SCALE", "0.25"), VERIF_MODEL_SHARDS=os.environ.get("VERIF_MODEL_SHARDS", "4"))
    todo = []
    for rel in files:
        lines, ms = mutants_of(os.path.join(repo, rel), rel)
        for j, m in enumerate(ms):
            todo.append((rel, j, m))
    todo = [t for idx, t in enumerate(todo) if idx % shard[1] == shard[0]]
    if limit:
        step = max(1, len(todo) // limit)
        todo = todo[::step][:limit]
    print("mutants to try:", len(todo), flush=True)
    for rel, j, (ln, what, old, new) in todo:
        mid = "%s:%d:%s" % (rel, ln + 1, what)
        if mid in results:
            continue
        path = os.path.join(repo, rel)
        orig = open(path).read()
        lines = orig.split("\n")
        lines[ln] = new
        rec = {"file": rel, "line": ln + 1, "mutation": what, "old": old.strip(), "new": new.strip()}
        try:
            open(path, "w").write("\n".join(lines))
            if rel in REGEN:
                rc, o = sh(REGEN[rel], repo, timeout=300)
                if rc != 0:
                    rec["status"] = "does-not-generate"
                    continue
            rc, o = sh("go build ./... && go vet ./... 2>/dev/null; go build ./...", repo, timeout=600)
            if rc != 0:
                rec["status"] = "does-not-compile"
                continue
            rc, o = sh("go test -count=1 ./...", repo, timeout=900)
            if rc != 0:
                rec["status"] = "killed-by-existing-tests"
                continue
            rec["status"] = "survived"
            rec["checks_run"] = []
            for c in TARGETS[rel]:
                t = time.time()
                try:
                    p = subprocess.run([os.path.join(VERIF, "check"), c, "quick"], cwd=VERIF, env=env_check, stdout=subprocess.PIPE, stderr=subprocess.PIPE, text=True, timeout=1500)
                    rcc = p.returncode
                    viol = [l for l in p.stdout.split("\n") if l.startswith("VIOLATION")][:1]
                except subprocess.TimeoutExpired:
                    rcc, viol = 1, ["timeout (hang)"]
                rec["checks_run"].append([c, rcc, round(time.time() - t, 1)])
                if rcc != 0:
                    rec["status"] = "killed-by-" + c if rcc == 1 else "check-error-" + c
                    rec["violation"] = viol
                    break
        finally:
            subprocess.run(["git", "checkout", "--", "."], cwd=repo)
            subprocess.run(["git", "clean", "-fdq"], cwd=repo)
            results[mid] = rec
            json.dump(results, open(outp, "w"), indent=1)
            print(mid, "=>", rec.get("status"), flush=True)
    print("done")


if __name__ == "__main__":
    main()
