"""Per-property deciders.  Each check_<ID>(ctx) returns the process exit code."""
import json
import os
import subprocess

import common as C
import engine as E

KERNEL_TB = [
    "Coq 8.16.1 kernel + vm_compute (no native_compute)",
    "Print Assumptions output recorded under assumptions",
    "extraction: ExtrOcamlBasic only (bool/option/unit/list/prod/sumbool/sumor mapped to OCaml types; Z/positive/N/nat extracted as inductives)",
    "OCaml driver /verif/ocaml/driver.ml (parsing/printing, Z<->decimal), OCaml 4.13.1",
    "Go harness /verif/harness (case generators, canonicalisers), Go toolchain, go build -overlay",
]


def driver_out(ctx, args, timeout=600, driver=None):
    env = dict(os.environ, VERIF_REPO=C.REPO)
    p = subprocess.run([driver or ctx.prep["driver"]] + [str(a) for a in args], stdout=subprocess.PIPE,
                       stderr=subprocess.PIPE, text=True, timeout=timeout, env=env)
    if p.returncode != 0:
        raise RuntimeError("driver failed: %s: %s" % (args, p.stderr[-1500:]))
    return p.stdout


def proof_status(ctx, required, pid=None):
    """Checks the proof side. `required` = theorem names that must be present in
    positive form. Returns (ok, ob, problems)."""
    ob = E.obligations(ctx, pid)
    problems = []
    gate = C.hygiene_gate()
    if gate:
        problems.append("hygiene gate: " + "; ".join(gate[:5]))
    if not ob["present"]:
        problems.append("Props file missing")
    if ob["failed"]:
        for f in ob["failed"]:
            problems.append("does not check: %s :: %s" % (f, ctx.prep["coq_errors"].get(f[:-2], "")[:1500]))
    for t in required:
        if t not in ob["theorems"]:
            problems.append("theorem %s not stated in positive form" % t)
    for t in ob["refuted"]:
        problems.append("refuted form present: %s" % t)
    bad_ax = [a for a in ob["assumptions"] if "Closed under the global context" not in a]
    ctx.assumptions += ob["assumptions"]
    ctx.cover["obligations"] = ob["qed"] + len(ctx.prep.get("translate", {}))
    ctx.cover["discharged"] = ctx.cover["obligations"] if not (ob["failed"] or gate) else 0
    ctx.cover["checker_cmd"] = "make -C /verif/coq (coqc 8.16.1, full .vo) + coqc work/pa/PA_%s.v (Print Assumptions)" % (pid or ctx.pid)
    ctx.cover["theorems"] = ob["theorems"]
    ctx.cover["dependency_cone"] = ob["cone"]
    if bad_ax:
        ctx.notes.append("axioms reported: " + "; ".join(bad_ax))
    # thorough tier: independent re-check of the compiled cone with coqchk (axioms, type-in-type, unsafe fixpoints)
    if ctx.tier == "thorough" and ob["present"] and not ob["failed"]:
        try:
            p = subprocess.run(["coqchk", "-silent", "-o", "-Q", ".", "Pico", "Pico.Props." + (pid or ctx.pid)], cwd=C.COQ,
                               stdout=subprocess.PIPE, stderr=subprocess.STDOUT, text=True, timeout=5400)
            tail = p.stdout[-1500:]
            summary = " ".join(l.strip() for l in tail.split("\n") if l.strip().startswith("*"))
            ctx.cover["coqchk"] = {"rc": p.returncode, "summary": summary[:600]}
            if p.returncode != 0 or "Axioms: <none>" not in summary:
                problems.append("coqchk does not accept the compiled cone without axioms: " + tail[-400:])
        except subprocess.TimeoutExpired:
            ctx.cover["coqchk"] = {"rc": None, "summary": "timeout after 5400 s (not counted)"}
    return (not problems), ob, problems


def model_available(ctx):
    return ctx.prep["driver_ok"] and ctx.prep["extract_ok"]


def infra_failure(ctx, level):
    """Harness/model could not be built from the current tree: nothing can be shown."""
    what = []
    if not ctx.prep["driver_ok"]:
        what.append("go build of the harness against the working tree failed: " + ctx.prep["driver_msg"][-1500:])
    if not ctx.prep["extract_ok"]:
        what.append("model extraction failed: " + str(ctx.prep.get("extract_msg")) + " :: " + ctx.prep["coq_log"][-1500:])
    ctx.violation("build", {"kind": "build-failure", "detail": what}, has_input=False, text="; ".join(what)[:300])
    return E.finish(ctx, level, trusted=KERNEL_TB)


# --------------------------------------------------------------------------
# C20 bitset

def shrink_list(xs, fails):
    """Greedy delta: drop elements while `fails` stays true."""
    xs = list(xs)
    changed = True
    while changed:
        changed = False
        for i in range(len(xs)):
            cand = xs[:i] + xs[i + 1:]
            if cand and fails(cand):
                xs = cand
                changed = True
                break
    return xs


def check_C20(ctx):
    level = "proof"
    if not model_available(ctx):
        return infra_failure(ctx, level)
    ok, ob, problems = proof_status(ctx, ["C20"])
    exh, nrand = (3, 400) if ctx.tier == "quick" else (4, 20000)
    rows = E.run_suite(ctx, "bitset", ["bitset", ctx.seed, exh, nrand])
    tie_bad, prop_bad = [], []
    distinct = set()
    hist = {"length": {}, "outcome": {}}
    for r in rows:
        inp, impl, oracle = (r["cols"] + ["", "", ""])[:3]
        model = r["model"][0] if r["model"] else "?"
        n = len(inp.split())
        hist["length"][str(min(n, 10))] = hist["length"].get(str(min(n, 10)), 0) + 1
        hist["outcome"]["panic" if impl.endswith("P") else "ok"] = hist["outcome"].get("panic" if impl.endswith("P") else "ok", 0) + 1
        if n >= 2:
            distinct.add(inp)
        if impl != model:
            tie_bad.append(r)
        if impl != oracle:
            prop_bad.append(r)
    ctx.add_cases(len(rows), len(distinct), traces=len(rows), hist=hist,
                  samples=[{"history": r["cols"][0], "impl": r["cols"][1], "model": r["model"][0]} for r in rows[-3:]])
    ctx.cover["rule"] = ("all histories of <=%d Set calls over the property's 15-letter boundary alphabet (exhaustive) + %d random "
                         "histories (len<=40, mixed universes); non-trivial = at least two calls; distinct = distinct history strings; "
                         "observable = per-call return value or PANIC" % (exh, nrand))
    ctx.cover["exhaustive"] = False
    if prop_bad:
        r = min(prop_bad, key=lambda r: len(r["cols"][0]))

        def fails(xs):
            o = driver_out(ctx, ["bitset-replay"] + xs).strip().split("\t")
            return o[2] != o[3]
        xs = shrink_list(r["cols"][0].split(), fails)
        o = driver_out(ctx, ["bitset-replay"] + xs).strip().split("\t")
        ctx.violation("bitset", {"suite": "bitset", "history": xs, "impl": o[2], "expected": o[3],
                                 "model": r["model"][0], "failing_cases": len(prop_bad),
                                 "replay_cmd": "/verif/work/bin/zzverif bitset-replay " + " ".join(xs)},
                      text="Small.Set history %s -> %s, set semantics says %s" % (xs, o[2], o[3]))
    elif tie_bad or not ok:
        detail = {"broken_theorems": problems,
                  "correspondence_mismatches": [{"history": r["cols"][0], "impl": r["cols"][1], "model": r["model"][0]} for r in tie_bad[:5]],
                  "search": "bitset suite (%d cases) impl vs map-based set: no failing input" % len(rows)}
        ctx.violation("bitset-tie", detail, has_input=False, text=json.dumps(detail)[:400])
    return E.finish(ctx, level, trusted=KERNEL_TB + ["modelled: uint64 words as Z (no overflow possible in 1<<b|w for b<64), Go slice index/append as list ops with explicit panic"])


# --------------------------------------------------------------------------
# message-level suites (msg / dec / hist) shared by C01..C06, C08..C11, C13, C19

import re as _re
import re
import glob


def parse_flags(s):
    d = {}
    for part in s.split(","):
        if "=" in part:
            k, v = part.split("=", 1)
            d[k] = v
        elif part:
            d[part] = "1"
    return d


def model_kv(cols):
    return dict(x.split("=", 1) for x in cols if "=" in x)


ERR_CLASSES = [("expected wire type", "wire"), ("unable to parse", "parse"), ("advance outside buffer", "advance"),
               ("failed to parse", "tag"), ("invalid field number", "fieldnum"), ("stack mangled", "stack")]


def impl_status(st):
    """'ok' | 'err:<field>:<class>' | 'PANIC' from the driver's status text."""
    if st == "ok":
        return "ok"
    if st.startswith("PANIC"):
        return "PANIC"
    m = _re.match(r"err:failed while parsing (-?\d+): (.*)", st)
    if not m:
        return "err:?:?"
    cls = "custom"
    for pat, c in ERR_CLASSES:
        if m.group(2).startswith(pat):
            cls = c
            break
    return "err:%s:%s" % (m.group(1), cls)


def parse_rows(rows):
    out = []
    for r in rows:
        s, c = r["suite"], r["cols"]
        m = model_kv(r["model"])
        if s == "msg" and len(c) >= 7:
            out.append(dict(suite="msg", tref=c[0], key=c[1], val=c[2], impl=c[3], flags=parse_flags(c[4]), detail=c[5], refb=c[6], model=m))
        elif s == "dec" and len(c) >= 9:
            out.append(dict(suite="dec", tref=c[0], key=c[1], hex=c[2], st=c[3], ist=impl_status(c[3]), pv=c[4], ost=c[5], ov=c[6],
                            flags=parse_flags(c[7]), tag=c[8], model=m))
        elif s == "hist" and len(c) >= 10:
            out.append(dict(suite="hist", tref=c[0], key=c[1], chunks=c[2], seqst=c[3], sv=c[4], onest=c[5], ov=c[6], rst=c[7], rv=c[8],
                            flags=parse_flags(c[9]), model=m))
        elif s == "stat":
            out.append(dict(suite="stat", name=c[0], n=int(c[1])))
        elif s == "schema":
            out.append(dict(suite="schema", name=c[0], ok=(r["model"] and r["model"][0] == "ok"),
                            tdec=(len(r["model"] or []) > 1 and r["model"][1] == "tdec=yes")))
    return out


# ---- ties: model vs implementation in one projection
def tie_bytes(r):      # exact Marshal bytes
    if r["model"].get("pico") == "skipped":
        return True        # payloads of 2 MiB and more: implementation against the reference only (the list model is quadratic)
    return r["model"].get("pico") == r["impl"]


def tie_dec_val(r):    # decoded value + ok/err
    ms = r["model"].get("st", "?")
    if ms == "skipped":
        return True
    if r["ist"] == "PANIC":
        return False
    if (r["ist"] == "ok") != (ms == "ok"):
        return False
    return r["ist"] != "ok" or r["model"].get("val") == r["pv"]


def tie_dec_ok(r):     # the boolean err == nil
    if r["model"].get("st") == "skipped":
        return True
    return (r["ist"] == "ok") == (r["model"].get("st") == "ok")


def tie_dec_class(r):  # outcome class only
    if r["model"].get("st") == "skipped":
        return True  # very long input: model evaluated in the thorough tier only
    return tie_dec_ok(r) and r["ist"] != "PANIC"


def tie_dec_err(r):    # (field, class) of errors
    if r["model"].get("st") == "skipped":
        return True
    return r["ist"] == r["model"].get("st")


def tie_hist(r):
    m = r["model"]
    return impl_status(r["seqst"]) == m.get("seq") and impl_status(r["onest"]) == m.get("one") and \
        (r["seqst"] != "ok" or m.get("seqval") == r["sv"]) and (r["onest"] != "ok" or m.get("oneval") == r["ov"])


# ---- model-internal instances of the theorems (spec validation against the oracle)
def spec_msg(r):
    m = r["model"]
    if m.get("pico") == "skipped":
        return True
    # wfmsg: the premise msg_ok of T_enc holds of the generated value (theorems are not vacuous on the test domain)
    return (r["refb"] == "-" or m.get("ref") == r["refb"]) and m.get("rt") == m.get("norm") and m.get("refdec") == m.get("norm") and m.get("wfmsg", "1") == "1"


def spec_dec(r):
    # ref_decode accepts exactly the well-formed inputs and yields what the model decoder yields
    m = r["model"]
    if m.get("st") == "skipped":
        return True
    wf = r["flags"].get("wf") == "1"
    if (m.get("ref") != "reject") != wf:
        return False
    return m.get("st") != "ok" or m.get("ref") == m.get("val")


def shrink_bytes(ctx, key, hexs, fails):
    """Greedy byte-level shrink of a hex input (drop chunks while it still fails)."""
    b = bytes.fromhex(hexs)
    step = max(1, len(b) // 2)
    budget = 120
    while step >= 1 and budget > 0:
        i = 0
        while i < len(b) and budget > 0:
            cand = b[:i] + b[i + step:]
            budget -= 1
            if fails(cand.hex()):
                b = cand
            else:
                i += step
        step //= 2
    return b.hex()


def run_message_property(ctx, spec):
    return run_message_property_with(ctx, spec)


def run_message_property_with(ctx, spec, pre_problems=None):
    """Generic decider for the properties that live on the msg/dec/hist suites."""
    level = spec.get("level", "proof")
    if not model_available(ctx):
        return infra_failure(ctx, level)
    ok, ob, problems = proof_status(ctx, spec["theorems"])
    if pre_problems:
        problems = list(problems) + list(pre_problems)
        ok = False
    kf = C.known_findings()
    prop_bad, tie_bad, spec_bad = [], [], []
    total = 0
    distinct = set()
    hist = {}
    samples = []
    for entry in spec["suites"](ctx):
        sname, gen_args = entry[0], entry[1]
        drv = entry[2] if len(entry) > 2 else None
        rows = parse_rows(E.run_suite(ctx, sname + "_" + str(gen_args[0]) + ("_fresh" if drv else ""), gen_args, driver=drv))
        for r in rows:
            r["_drv"] = drv
            if r["suite"] == "schema":
                if not r["ok"]:
                    tie_bad.append(("schema", r))
                td = ctx.cover.setdefault("schemas_T_dec_side_condition", {"holds": 0, "does_not": 0})
                td["holds" if r.get("tdec") else "does_not"] += 1
                continue
            if r["suite"] == "stat":
                hist.setdefault("rewrites", {})[r["name"]] = hist.get("rewrites", {}).get(r["name"], 0) + r["n"]
                continue
            if spec.get("filter") and not spec["filter"](r):
                continue
            if r["suite"] == "msg" and isinstance(r.get("model"), dict) and "rtok" in r["model"]:
                rt = ctx.cover.setdefault("values_meeting_round_trip_theorem_premises", {"yes": 0, "no": 0})
                rt["yes" if r["model"]["rtok"] == "1" else "no"] += 1
            total += 1
            if r.get("model", {}).get("st") == "skipped":
                hist.setdefault("model", {})["skipped_long_input"] = hist.setdefault("model", {}).get("skipped_long_input", 0) + 1
            h = hist.setdefault("type", {})
            h[r["key"]] = h.get(r["key"], 0) + 1
            if r["suite"] == "dec":
                h2 = hist.setdefault("input_class", {})
                kk = r["tag"] + ":" + ("ok" if r["ist"] == "ok" else "PANIC" if r["ist"] == "PANIC" else "err")
                h2[kk] = h2.get(kk, 0) + 1
            ident = r.get("val") or r.get("hex") or r.get("chunks")
            if spec["nontrivial"](r):
                distinct.add(r["key"] + "|" + ident)
            pt = spec["prop"].get(r["suite"])
            if pt and not pt(r):
                prop_bad.append(r)
            tt = spec["tie"].get(r["suite"])
            if tt and not tt(r):
                tie_bad.append((sname, r))
            st = spec.get("spec", {}).get(r["suite"])
            if st and not st(r):
                spec_bad.append((sname, r))
            if len(samples) < 3 and spec["nontrivial"](r):
                samples.append({k: (v[:300] if isinstance(v, str) else v) for k, v in r.items() if k in ("suite", "key", "val", "hex", "chunks", "impl", "st", "flags")})
    ctx.add_cases(total, len(distinct), traces=total, hist=hist, samples=samples)
    ctx.cover["rule"] = spec["rule"]
    if prop_bad:
        # a failing input is in hand: report the smallest (by input length), shrunk
        r = min(prop_bad, key=lambda r: len(r.get("val") or r.get("hex") or r.get("chunks")))
        rep = {"suite": r["suite"], "type": r["key"], "failing_cases": len(prop_bad)}
        if r["suite"] == "msg":
            flag = spec.get("shrink_flag", "bad")
            try:
                out = driver_out(ctx, ["msg-shrink", r["key"], r["val"], flag], driver=r.get("_drv"))
                line = [l for l in out.split("\n") if l.startswith("msg\t")][0].split("\t")
                rep.update({"value": line[3], "marshal_bytes": line[4], "flags": line[5], "detail": line[6][:2000]})
                rep["replay_cmd"] = "%s msg-one '%s' '%s'" % (r.get("_drv") or "/verif/work/bin/zzverif", r["key"], line[3])
            except Exception as e:  # noqa
                rep.update({"value": r["val"], "marshal_bytes": r["impl"], "flags": r["flags"], "detail": r["detail"][:2000], "shrink_error": str(e)[:200]})
                rep["replay_cmd"] = "/verif/work/bin/zzverif msg-one '%s' '%s'" % (r["key"], r["val"])
        elif r["suite"] == "dec":
            pt = spec["prop"]["dec"]

            def fails(hx):
                out = driver_out(ctx, ["dec-one", r["key"], hx], driver=r.get("_drv"))
                line = [l for l in out.split("\n") if l.startswith("dec\t")][0].split("\t")
                rr = parse_rows([{"suite": "dec", "cols": line[1:], "model": []}])[0]
                keep = spec.get("shrink_keep")
                # a failing VALID encoding (one the reference accepts) is shrunk to valid encodings only
                return (not pt(rr)) and (keep is None or keep(rr)) and (r["ost"] != "ok" or rr["ost"] == "ok")
            hx = r["hex"][1:]
            try:
                if fails(hx):
                    hx = shrink_bytes(ctx, r["key"], hx, fails)
            except Exception as e:  # noqa
                rep["shrink_error"] = str(e)[:200]
            out = driver_out(ctx, ["dec-one", r["key"], hx], driver=r.get("_drv"))
            line = [l for l in out.split("\n") if l.startswith("dec\t")][0].split("\t")
            rep.update({"input_hex": hx, "picobuf": line[4], "picobuf_value": line[5][:1500], "reference": line[6], "reference_value": line[7][:1500], "flags": line[8]})
            rep["replay_cmd"] = "%s dec-one '%s' %s" % (r.get("_drv") or "/verif/work/bin/zzverif", r["key"], hx)
        else:
            rep.update({"chunks": r["chunks"], "sequential": [r["seqst"], r["sv"][:1500]], "one_call": [r["onest"], r["ov"][:1500]],
                        "reference": [r["rst"], r["rv"][:1500]], "flags": r["flags"]})
            rep["replay_cmd"] = "%s hist-one '%s' %s" % (r.get("_drv") or "/verif/work/bin/zzverif", r["key"], r["chunks"])
        sig = "%s:%s" % (r["suite"], r["key"])
        known = [k for k in kf["open"] if k["property"] == ctx.pid and k.get("sig") == sig]
        if known and len({x["key"] for x in prop_bad}) == 1:
            ctx.known.append(known[0]["text"])
        else:
            ctx.violation(r["suite"], rep, text="%s %s: %s" % (r["suite"], r["key"], json.dumps(rep)[:300]))
    elif tie_bad or spec_bad or not ok:
        detail = {"broken_theorems_or_obligations": problems,
                  "correspondence_mismatches": [dict(suite=s, type=r.get("key"), input=(r.get("val") or r.get("hex") or r.get("chunks") or "")[:600],
                                                     impl=(r.get("impl") or r.get("st") or "")[:300], model={k: v[:300] for k, v in r.get("model", {}).items()})
                                                for s, r in tie_bad[:4]],
                  "spec_vs_reference_mismatches": [dict(suite=s, type=r.get("key"), input=(r.get("val") or r.get("hex") or "")[:600]) for s, r in spec_bad[:4]],
                  "search": "%d cases of suites %s run against the reference implementation: no input violating the property found" % (
                      total, [e[0] for e in spec["suites"](ctx)])}
        ctx.violation("tie", detail, has_input=False, text=json.dumps(detail)[:500])
    return E.finish(ctx, level, trusted=KERNEL_TB + spec.get("trusted", []))


def _n(ctx, quick, thorough):
    n = quick if ctx.tier == "quick" else thorough
    # VERIF_SCALE (default 1): used by the mutation sweep (lib/mutate.py) to trade sensitivity for throughput; never set by
    # the registered commands
    try:
        return max(50, int(n * float(os.environ.get("VERIF_SCALE", "1"))))
    except ValueError:
        return n


MSG_RULE = ("random well-typed messages of every checked-in generated type without opaque custom types (boundary-biased scalars, "
            "presence-with-default, nil/empty/present sub-messages, nested to depth 3, payload lengths around 0/1/127/128/16383/16384); "
            "non-trivial = at least one non-default slot; distinct = distinct (type, value) strings")
DEC_RULE = ("encodings of random messages (picobuf's and the reference encoder's) closed under meaning-preserving rewrites "
            "(permute, pack/unpack/mixed, non-minimal varints, 32-bit kinds in varints with bits above bit 31, an earlier occurrence of a singular scalar, split sub-message, inject unknown fields/groups) for the valid stream; "
            "half of the Unmarshal calls come right after a rejected input of the same type; "
            "prefixes, byte/token corruptions (also inside intact sub-messages: lengths cut short or beyond the parent), short token strings and random bytes for the malformed stream; non-trivial = non-empty input")


def nontrivial_any(r):
    if r["suite"] == "msg":
        return _re.search(r"\(i -?[1-9]|\(b x[0-9a-f]|\(o \(|\(m \(|\(t |\(d [^0]", r["val"]) is not None
    if r["suite"] == "dec":
        return len(r["hex"]) > 1
    return r["chunks"].count(",") >= 1


def msg_flag(name):
    return lambda r: r["impl"] != "PANIC" and r["flags"].get(name) == "ok"


# --------------------------------------------------------------------------
# leaf suites: writer / reader / fnstr / conv rows

def leaf_eval(r):
    """Returns (impl_vs_oracle_ok or None, impl_vs_model_ok, description, identity, nontrivial)."""
    s, c, m = r["suite"], r["cols"], r["model"]
    mv = m[0] if m else "?"
    if s == "writer":
        k, always, rep, num, vals, impl, ref = c[:7]
        return (impl == ref, impl == mv, "writer %s always=%s rep=%s field=%s vals=%s -> %s (reference %s, model %s)" % (k, always, rep, num, vals[:200], impl[:200], ref[:200], mv[:200]),
                "|".join(c[:5]), vals not in ("(l)", "(l (i 0))", "(l (b x))"), k)
    if s == "reader":
        k, rep, field, data, init, res = c[:6]
        ref = c[6] if len(c) > 6 else res
        return (res == ref, res == mv and res != "PANIC", "reader %s rep=%s field=%s data=%s init=%s -> %s (model %s)" % (k, rep, field, data, init, res, mv),
                "|".join(c[:5]), len(data) > 3, k)
    if s == "rseq":
        _, slots, data, steps, verdict = c[:5]
        # the steps themselves are reader rows; this row says whether anything observed earlier changed afterwards
        return (verdict == "stable", True, "reader sequence over x%s with destinations %s (%s calls): %s" % (data[:300], slots, steps, verdict[:300]), "rseq|" + slots + "|" + data[:600], True, "rseq")
    if s == "eprog":
        prog, impl, ref = c[:3]
        m2 = dict(x.split("=", 1) for x in mv.split(" ") if "=" in x)
        # property: the Encoder calls produce the reference bytes (protowire); tie: implementation = model; the model's own
        # specification = the reference; the program meets the theorem's well-typedness premise
        return (impl == ref, impl == m2.get("pico") and m2.get("spec") == ref and m2.get("ok") == "1" and impl != "PANIC",
                "encoder program %s -> %s (reference %s, model %s, spec %s, premise %s)" % (prog[:400], impl[:200], ref[:200], (m2.get("pico") or "?")[:200], (m2.get("spec") or "?")[:200], m2.get("ok")),
                "ep|" + prog[:2000], len(prog) > 12, "eprog")
    if s == "nreader":
        k, rep, field, data, init, wrap, res = c[:7]
        # property half: an error raised inside the callback is still reported after the call returns
        # (decided against the model: Err() after Message/PresentMessage/RepeatedMessage = the model's)
        return (res == mv and res != "PANIC", res == mv and res != "PANIC",
                "reader %s rep=%s field=%s inside %s on %s init=%s -> %s (model %s)" % (k, rep, field, ["Message", "PresentMessage", "RepeatedMessage"][int(wrap) % 3], data, init, res, mv),
                "n|" + "|".join(c[:6]), len(data) > 8, k)
    if s == "dreader":
        k, rep, field, data, init, depth, deep, one = c[:8]
        return (deep == one, True, "reader %s rep=%s field=%s on %s, %s messages deep -> %s; one level deep -> %s" % (k, rep, field, data, depth, deep, one),
                "d|" + "|".join(c[:6]), len(data) > 3, k)
    if s == "fnstr":
        f, impl, ref = c[:3]
        return (impl == ref, impl == mv, "FieldNumber(%s).String() = %s, strconv.Itoa = %s, model %s" % (f, impl, ref, mv), f, f not in ("0",), "fnstr")
    if s == "sweep32":
        k, total, bad, first = (c + [""])[:4]
        return (bad == "0", True, "exhaustive sweep of %s values of %s: %s mismatches %s" % (total, k, bad, first), "sweep|" + k, True, k)
    if s == "durdec":
        sec, n, impl, ref = c[:4]
        return (impl == ref, impl == mv, "Duration decode (%s s, %s ns) = %s, durationpb %s, model %s" % (sec, n, impl, ref, mv), "durdec|%s|%s" % (sec, n), (sec, n) != ("0", "0"), "durdec")
    if s == "tsdec":
        sec, n, impl, ref = c[:4]
        a, b = impl.split(" "), ref.split(" ")
        return (a[:2] == b[:2] and a[2] == "UTC", " ".join(a[:2]) == mv, "Timestamp decode (%s s, %s ns) = %s, timestamppb %s, model %s" % (sec, n, impl, ref, mv), "tsdec|%s|%s" % (sec, n), (sec, n) != ("0", "0"), "tsdec")
    if s == "durenc":
        d, impl, ref, back = c[:4]
        return (impl == ref and back == d, impl == mv, "Duration %s encodes to %s (durationpb %s), back %s, model %s" % (d, impl, ref, back, mv), "durenc|" + d, d != "0", "durenc")
    if s == "tsenc":
        sec, n, impl, ref, back = c[:5]
        return (impl == ref and (impl == "x" or back == sec + " " + n), impl == mv, "Time (%s,%s) encodes to %s (timestamppb %s), back %s, model %s" % (sec, n, impl, ref, back, mv), "tsenc|%s|%s" % (sec, n), True, "tsenc")
    return (None, True, "", "", False, s)


def run_leaf_property(ctx, spec):
    level = spec.get("level", "proof")
    if not model_available(ctx):
        return infra_failure(ctx, level)
    ok, ob, problems = proof_status(ctx, spec["theorems"])
    prop_bad, tie_bad = [], []
    total, distinct, hist, samples = 0, set(), {}, []
    for sname, gen_args in spec["suites"](ctx):
        rows = E.run_suite(ctx, sname, gen_args)
        for r in rows:
            if spec.get("filter") and not spec["filter"](r):
                continue
            po, to, desc, ident, nontriv, hk = leaf_eval(r)
            total += 1
            h = hist.setdefault("kind", {})
            h[hk] = h.get(hk, 0) + 1
            if nontriv:
                distinct.add(r["suite"] + "|" + ident)
            if po is False:
                prop_bad.append((r, desc))
            if not to:
                tie_bad.append((r, desc))
            if len(samples) < 4 and nontriv and total % 97 == 1:
                samples.append(desc[:400])
    if spec.get("extra"):
        pb, tb, n, nd, h2 = spec["extra"](ctx)
        prop_bad += pb
        tie_bad += tb
        total += n
        distinct |= nd
        hist.update(h2)
    ctx.add_cases(total, len(distinct), traces=total, hist=hist, samples=samples)
    ctx.cover["rule"] = spec["rule"]
    if prop_bad:
        r, desc = min(prop_bad, key=lambda x: len(x[1]))
        ctx.violation(r["suite"], {"suite": r["suite"], "case": r["cols"], "model": r["model"], "what": desc, "failing_cases": len(prop_bad),
                                   "replay_cmd": "/verif/check %s %s  (case is regenerated deterministically from VERIF_SEED=%d)" % (ctx.pid, ctx.tier, ctx.seed)},
                      text=desc[:300])
    elif tie_bad or not ok:
        detail = {"broken_theorems_or_obligations": problems,
                  "correspondence_mismatches": [d[:600] for _, d in tie_bad[:5]],
                  "search": "%d cases against the independent reference (protowire / strconv / durationpb / timestamppb): no failing input" % total}
        ctx.violation("tie", detail, has_input=False, text=json.dumps(detail)[:500])
    return E.finish(ctx, level, trusted=KERNEL_TB + spec.get("trusted", []))


K32 = ("bool", "int32", "sint32", "sfixed32", "uint32", "fixed32", "float", "enum")


def check_C13(ctx):
    return run_leaf_property(ctx, dict(
        theorems=["C13_writer", "C13_nest_message", "C13_nest_always", "C13_nest_present", "C13_reader_other", "C13_reader_wrong_wire", "C13_reader_value", "C13_reader_next", "C13_reader_any_input", "C13_repeated_reader_iteration", "C13_packed_is_reference_unpack", "C13_encoder_programs", "C13_absent_message_no_trace", "C13_repeated_reader_appends"],
        suites=lambda c: [("writers", ["writers", c.seed] + (["thorough"] if c.tier == "thorough" else [])), ("readers", ["readers", c.seed, _n(c, 1500, 20000)]),
                          ("eprogs", ["eprogs", c.seed, _n(c, 4000, 60000)])],
        rule="programs of Encoder calls (typed writers, RepeatedEnum, UnrecognizedFields, Message/AlwaysMessage/PresentMessage/AlwaysAnyBytes nested to depth 3, callbacks that write and "
             "then report absence, bodies of 0/127/128/16383/16384 bytes, fresh / reused-with-stale-content / one-byte-capacity buffers); exhaustive grids: 60 typed writers x boundary value alphabet x field-number alphabet (1..2^29-1 boundaries) x dirty/tight buffers, lists across packed length classes; "
             "30 typed readers x pending{same,other} x wire types 0-7 x payload alphabet (valid, empty, truncated, overlong, packed), non-zero initial lists, also inside Message callbacks 1, 5, 9 and 17 levels deep; "
             "1500 sequences of reader calls over one input with destinations that persist from call to call (every step a reader row; afterwards no earlier output and no input byte may have changed); "
             "reference = protobuf-go protowire; non-trivial = non-default value / payload longer than a tag"))


def check_C15(ctx):
    spec = dict(
        theorems=["C15_enc", "C15_enc_element", "C15_dec", "C15_dec_element", "C15_repeated_keeps_earlier"],
        suites=lambda c: [("writers", ["writers", c.seed] + (["thorough"] if c.tier == "thorough" else [])), ("readers", ["readers", c.seed, _n(c, 1500, 20000)])] +
                         ([("sweep32", ["sweep32", c.seed])] if c.tier == "thorough" else []),
        filter=lambda r: r["suite"] == "sweep32" or r["cols"][0] in K32,
        rule="writer/reader grids and reader sequences (persistent destinations, several packed/unpacked records per list) restricted to the 32-bit kinds (bool,int32,sint32,sfixed32,uint32,fixed32,float; enum uses the int32 writer); "
             "thorough adds the exhaustive 2^32 sweep of every kind against a Go transcription of closed_form; non-trivial = non-default")
    return run_leaf_property(ctx, spec)


def _c19_unmarshal_errors(ctx):
    """Whole messages on the malformed stream: the error Unmarshal returns names the field the model's decoder fails at, with
    the same class (wrong wire type / unparsable value / ...). The model's fail sites carry the field by construction."""
    prop_bad, tie_bad, total, distinct, hist = [], [], 0, set(), {"unmarshal_error": {}}
    runs = [("decb", ["decb", ctx.seed + 9, _n(ctx, 6000, 60000)], None), ("deep", ["deep", ctx.seed], None)]
    fres = fresh_driver(ctx)
    if fres.get("driver"):
        # freshly generated types: recursion and chains of sub-messages put known fields at every depth
        runs.append(("decbf", ["decb", ctx.seed + 29, _n(ctx, 4000, 30000), ".proto:"], fres["driver"]))
    for sname, args, drv in runs:
        for r in parse_rows(E.run_suite(ctx, sname + "_c19", args, driver=drv)):
            if r["suite"] != "dec":
                continue
            total += 1
            ms = r["model"].get("st", "?")
            if ms == "skipped":
                continue
            k = r["ist"] if r["ist"] in ("ok", "PANIC") else "err:" + r["ist"].split(":")[-1]
            hist["unmarshal_error"][k] = hist["unmarshal_error"].get(k, 0) + 1
            distinct.add("dec|" + r["key"] + "|" + r["hex"][:400])
            if "stale-error" in r["flags"]:
                # an error a caller kept from an earlier call no longer names its field: it was rewritten by this call
                prop_bad.append(({"suite": "dec", "cols": [r["key"], r["hex"][:4000], r["st"], r["tag"][:600]], "model": [ms]},
                                 "after Unmarshal of %s into %s: %s" % (r["hex"][:200], r["key"], r["tag"][:400])))
                continue
            if r["ist"] == ms:
                continue
            desc = "Unmarshal of %s into %s returns %r; the decoder model fails with %s" % (r["hex"][:300], r["key"], r["st"][:200], ms)
            mm = _re.match(r"err:(-?\d+):(wire|parse)$", ms)
            if mm and mm.group(1) != "0" and r["ist"].startswith("err:"):
                # the offending known field is not named (or its class is wrong): the property itself fails, on this input
                prop_bad.append(({"suite": "dec", "cols": [r["key"], r["hex"][:4000], r["st"]], "model": [ms]}, desc))
            else:
                tie_bad.append((r, desc))
    return prop_bad, tie_bad, total, distinct, hist


def check_C19(ctx):
    return run_leaf_property(ctx, dict(
        theorems=["C19_str", "C19_err_wire", "C19_reader_names_itself", "C19_repeated_reader_names_itself", "C19_unmarshal_error_names_field", "C19_unmarshal_error_names_schema_field"],
        suites=lambda c: [("fnstr", ["fnstr", c.seed, _n(c, 3000, 200000)]), ("readers", ["readers", c.seed, _n(c, 1500, 20000)])],
        extra=_c19_unmarshal_errors,
        rule="FieldNumber.String on boundaries (0, +-10^k+-1, Min/MaxInt32) and random int32 against strconv.Itoa; reader grid compares (field, class) of every error; "
             "whole messages: 6000 malformed inputs for the checked-in types and 4000 for freshly generated ones (truncations, wrong wire types, damaged lengths at every depth, groups) and the deep-nesting inputs through Unmarshal - the returned error's "
             "field number and class equal the decoder model's, and the last eight errors returned keep their text after every later call; non-trivial = non-zero"))


def check_C14(ctx):
    return run_leaf_property(ctx, dict(
        theorems=["C14_dur_enc", "C14_dur_fits", "C14_dur_sat", "C14_dur_rt", "C14_ts_norm", "C14_ts_rt", "C14_zero_time_absent", "C14_time_bytes", "C14_duration_bytes"],
        suites=lambda c: [("conv", ["conv", c.seed, _n(c, 1500, 100000)])],
        trusted=["modelled, not verified: Go time.Unix/Unix()/Nanosecond()/IsZero()/UTC() (from the Go standard library source), int64 wrap-around of time.Duration arithmetic"],
        rule="(seconds,nanos) plane on a boundary grid (+-floor(MaxInt64/10^9)+-1, 0, +-1, int32/int64 extremes, mixed signs) x random; durations and instants (each instant in UTC, Local or a fixed zone; the zero instant in all three); "
             "reference = durationpb/timestamppb New/AsDuration/AsTime; non-trivial = not (0,0)"))


# --------------------------------------------------------------------------
# message-level properties

def _msg_suite(c, n_quick, n_thorough):
    return ("msg", ["msg", c.seed, _n(c, n_quick, n_thorough)])


def fresh_suites(ctx, entries):
    """entries: [(suite, args-without-driver)] -> run on the fresh driver if it can be built (else reported by C12)."""
    res = fresh_driver(ctx)
    if not res.get("driver"):
        return []
    return [(n, a, res["driver"]) for n, a in entries]


def boundary_suites(ctx, seed, n, kinds=("msg",), only=None):
    """Schemas just outside the documented feature set, which the pinned generator rejects (so they contribute nothing on the
    unchanged tree). When a changed generator accepts one, its output is held to the same properties as everything else."""
    bnd = {k: v[1]() for k, v in F.BOUNDARY.items()}
    bres = F.cached_build(bnd, "fresh-boundary")
    if not bres.get("driver"):
        return []
    return [(kind, [kind, seed, n, k + ".proto:"], bres["driver"]) for k, v in sorted(bres["results"].items()) if v == "ok" and (only is None or k in only)
            for kind in kinds]


def check_C01(ctx):
    return run_message_property(ctx, dict(
        theorems=["C01_scalar_field", "C01_varint_readable", "C01_framing", "C01_marshal_is_reference_encoding", "C01_total", "C01_reference_reads_the_values"],
        suites=lambda c: [_msg_suite(c, 6000, 60000)] + fresh_suites(c, [("msg", ["msg", c.seed + 11, _n(c, 3600, 30000), ".proto:"])]) + boundary_suites(c, c.seed + 17, 600),
        prop={"msg": msg_flag("c01")}, tie={"msg": tie_bytes}, spec={"msg": spec_msg},
        nontrivial=nontrivial_any, shrink_flag="c01=bad", rule=MSG_RULE + "; oracle: proto.Unmarshal (dynamicpb) of the Marshal output compared with the value"))


def check_C03(ctx):
    return run_message_property(ctx, dict(
        theorems=["C03_scalar", "C03_transform", "C03_duration", "C03_time", "C03_reference_round_trip", "C03_marshal_unmarshal"],
        suites=lambda c: [_msg_suite(c, 6000, 60000)] + fresh_suites(c, [("msg", ["msg", c.seed + 12, _n(c, 3600, 30000), ".proto:"])]) + boundary_suites(c, c.seed + 18, 600),
        prop={"msg": msg_flag("c03")}, tie={"msg": tie_bytes}, spec={"msg": spec_msg},
        nontrivial=nontrivial_any, shrink_flag="c03=bad", rule=MSG_RULE + "; oracle: deep comparison of m with Unmarshal(Marshal(m)) (bit patterns, presence, map contents)"))


def check_C06(ctx):
    return run_message_property(ctx, dict(
        theorems=["C06_minimal_varint", "C06_minimal_tag", "C06_minimal_length", "C06_field", "C06_strong", "C06_ascending_order"],
        suites=lambda c: [_msg_suite(c, 6000, 60000)] + fresh_suites(c, [("msg", ["msg", c.seed + 13, _n(c, 3600, 30000), ".proto:"])]),
        prop={"msg": lambda r: r["impl"] != "PANIC" and r["flags"].get("c06") in ("ok", "na")}, tie={"msg": tie_bytes}, spec={"msg": spec_msg},
        nontrivial=nontrivial_any, shrink_flag="c06=bad",
        rule=MSG_RULE + "; map-free types only for the property test; oracle: bytes == deterministic re-marshal of their own parse (protobuf-go)"))


def check_C08(ctx):
    return run_message_property(ctx, dict(
        theorems=["C08_optional_always", "C08_oneof_always", "C08_oneof_enum_always", "C08_oneof_message_never_omitted", "C08_always_message_emits", "C08_always_emits", "C08_message_presence", "C08_presence_round_trip"],
        suites=lambda c: [_msg_suite(c, 4000, 60000)] + fresh_suites(c, [("msg", ["msg", c.seed + 14, _n(c, 2500, 20000), "presence.proto:"]), ("msg", ["msg", c.seed + 15, _n(c, 3000, 30000), ".proto:"]),
                                                                                  ("decv", ["decv", c.seed + 19, _n(c, 3000, 30000), ".proto:"])]) + boundary_suites(c, c.seed + 16, 600),
        prop={"msg": lambda r: r["impl"] != "PANIC" and r["flags"].get("c08o") == "ok" and r["flags"].get("c08r") == "ok",
              # presence also survives decoding of encodings no encoder writes (reordered, split, with unknown fields in between):
              # the decoded value - nil-ness and selected members included - is the reference's
              "dec": lambda r: r["ist"] == "ok" and r["ost"] == "ok" and r["flags"].get("c02") == "ok"},
        shrink_keep=lambda rr: rr.get("ost") == "ok",
        tie={"msg": tie_bytes, "dec": tie_dec_val}, spec={"msg": spec_msg, "dec": spec_dec}, nontrivial=nontrivial_any, shrink_flag="c08",
        rule=MSG_RULE + "; projection: presence skeleton (nil-ness, selected oneof member, list lengths) after round trip and as seen by the reference (Has()); "
             "rewritten valid encodings of every fresh type (reordered, split, unknown fields in between) decode to the reference's value, presence included"))


def check_C02(ctx):
    return run_message_property(ctx, dict(
        theorems=["C02_value_rules", "C02_field", "C02_tag", "C02_loop_is_dispatch", "C02_flat_message", "C02_every_decode_body", "C02_varint_reader", "C02_unmarshal_is_reference_decoder", "C02_exchange_records_reference", "C02_exchange_records_unmarshal", "C02_split_submessage", "C02_replace_records", "C02_packed_unpacked_reference", "C02_packed_unpacked_unmarshal", "C02_packed_split", "C02_same_meaning_records", "C02_nonminimal_varint", "C02_narrow32_records"],
        suites=lambda c: [("decv", ["decv", c.seed, _n(c, 8000, 60000)])] + fresh_suites(c, [("decv", ["decv", c.seed + 21, _n(c, 4000, 30000), ".proto:"])]),
        prop={"dec": lambda r: r["ist"] == "ok" and r["ost"] == "ok" and r["flags"].get("c02") == "ok"},
        shrink_keep=lambda rr: rr["ost"] == "ok",     # the replay stays a valid encoding (one the reference accepts)
        tie={"dec": tie_dec_val}, spec={"dec": spec_dec}, nontrivial=nontrivial_any, rule=DEC_RULE + " (valid stream only); oracle: proto.Unmarshal of the same bytes"))


def check_C10(ctx):
    return run_message_property(ctx, dict(
        theorems=["C10_known_untouched", "C10_retag", "C10_skip_varint", "C10_unknown_token", "C10_unmarshal_is_reference_decoder"],
        suites=lambda c: [("decv", ["decv", c.seed + 7, _n(c, 6000, 60000)]), ("decb", ["decb", c.seed + 7, _n(c, 4000, 30000)]), ("deep", ["deep", c.seed])] +
                         fresh_suites(c, [("decv", ["decv", c.seed + 22, _n(c, 4000, 30000), ".proto:"]), ("decb", ["decb", c.seed + 22, _n(c, 2000, 20000), ".proto:"])]),
        prop={"dec": lambda r: r["ist"] != "PANIC" and (r["ist"] != "ok" or r["flags"].get("wf") == "1") and
              (r["tag"] != "valid" or (r["ist"] == "ok" and r["flags"].get("c02") == "ok")) and
              (r["flags"].get("wf") != "1" or r["ost"] != "ok" or r["ist"] == "ok")},   # well-formed and accepted by the reference (e.g. 10 001 nested unknown groups): accepted
        tie={"dec": tie_dec_val}, spec={"dec": spec_dec}, nontrivial=nontrivial_any,
        rule=DEC_RULE + "; unknown fields/groups injected at every level (also into capturing messages: captured bytes compared with the reference's unknown fields, re-tagged); malformed stream must give an error, never a crash"))


def check_C04(ctx):
    return run_message_property(ctx, dict(
        theorems=["C04_varint_in_bounds", "C04_bytes_in_bounds", "C04_cursor_progress", "C04_skip_progress", "C04_reader_progress", "C04_skipper_in_bounds", "C04_statement_progress", "C04_total_on_arbitrary_bytes"],
        suites=lambda c: [("decb", ["decb", c.seed, _n(c, 8000, 100000)])] +
                         (fresh_suites(c, [("deep", ["deep", c.seed]), ("decb", ["decb", c.seed + 5, _n(c, 4000, 30000)])]) or [("deep", ["deep", c.seed])]),
        prop={"dec": lambda r: r["ist"] != "PANIC" and "input-modified" not in r["flags"] and "slow" not in r["flags"]},
        tie={"dec": tie_dec_class}, nontrivial=nontrivial_any,
        trusted=["runtime facts observed, not modelled: Go stack growth on 10 000-deep nesting, wall-clock time, recover()"],
        rule=DEC_RULE + " (malformed stream) + 10 000-deep sub-message and 10 001-deep group inputs under a watchdog, three million nested unknown groups under a 64 MiB stack limit (a driver killed by a fatal runtime error is a violation); projection: outcome class ok/err/PANIC/slow and input bytes before/after"))


def check_C05(ctx):
    return run_message_property(ctx, dict(
        theorems=["C05_invalid_number", "C05_truncated_tag", "C05_wrong_wire", "C05_sticky_next", "C05_sticky_pop", "C05_skip_is_one_value", "C05_accepts_exactly_wellformed"],
        suites=lambda c: [("decb", ["decb", c.seed + 3, _n(c, 10000, 100000)]), ("decv", ["decv", c.seed + 3, _n(c, 2500, 20000)]), ("deep", ["deep", c.seed])] +
                         fresh_suites(c, [("decb", ["decb", c.seed + 23, _n(c, 4000, 30000), ".proto:"])]),
        prop={"dec": lambda r: r["ist"] != "PANIC" and (r["ist"] == "ok") == (r["flags"].get("wf") == "1")},
        tie={"dec": tie_dec_ok}, spec={"dec": spec_dec}, nontrivial=nontrivial_any,
        rule=DEC_RULE + "; oracle: independent well-formedness predicate on protobuf-go's protowire; projection: err == nil"))


def check_C09(ctx):
    return run_message_property(ctx, dict(
        theorems=["C09_no_reset", "C09_cursor", "C09_overwrite", "C09_tokens", "C09_reference", "C09_unmarshal_concat"],
        suites=lambda c: [("hist", ["hist", c.seed, _n(c, 5000, 40000)])] + fresh_suites(c, [("hist", ["hist", c.seed + 24, _n(c, 2500, 20000), ".proto:"])]),
        prop={"hist": lambda r: r["flags"].get("seq") == "ok" and r["flags"].get("ref") == "ok"},
        tie={"hist": tie_hist}, nontrivial=nontrivial_any,
        rule="histories of 1-4 valid (rewritten) encodings of one type decoded sequentially into one message and in one call on the concatenation; "
             "oracle: proto.Unmarshal of the concatenation; non-trivial = at least two chunks"))


def check_C11(ctx):
    return run_message_property(ctx, dict(
        theorems=["C11_entry", "C11_map_round_trip"],
        suites=lambda c: [("msg", ["msg", c.seed, _n(c, 1000, 30000), "Map"]), ("decv", ["decv", c.seed, _n(c, 1000, 30000), "Map"]), ("hist", ["hist", c.seed + 1, _n(c, 500, 5000), "Map"])] +
                         fresh_suites(c, [("msg", ["msg", c.seed + 2, _n(c, 800, 20000), "allmaps"]), ("decv", ["decv", c.seed + 2, _n(c, 800, 20000), "allmaps"]),
                                          ("hist", ["hist", c.seed + 2, _n(c, 300, 5000), "allmaps"])]) +
                         boundary_suites(c, c.seed + 3, 600, kinds=("msg", "decv"), only=("bcapmap",)),
        filter=lambda r: "Map" in r.get("key", "") or "allmaps" in r.get("key", ""),
        prop={"msg": lambda r: r["impl"] != "PANIC" and r["flags"].get("c01") == "ok" and r["flags"].get("c03") == "ok",
              "dec": lambda r: r["ist"] == "ok" and r["flags"].get("c02") == "ok",
              "hist": lambda r: r["flags"].get("seq") == "ok" and r["flags"].get("ref") == "ok"},
        tie={"msg": tie_bytes, "dec": tie_dec_val, "hist": tie_hist}, spec={"msg": spec_msg, "dec": spec_dec},
        nontrivial=nontrivial_any, shrink_flag="bad",
        rule="map-typed messages only: random maps (zero keys, zero values, NaN values, 0-6 entries), Marshal repeated under Go's random iteration order "
             "(the model's entry order is instantiated with the observed one), wire encodings with missing key/value, duplicates, both field orders, unknown fields inside entries; oracle: dynamicpb maps"))


# --------------------------------------------------------------------------
# C12 / fresh schemas

import fresh as F  # noqa: E402


def fresh_set(ctx):
    n = 10 if ctx.tier == "quick" else 40
    sch = F.standard_set(ctx.seed, n)
    return sch


def fresh_driver(ctx):
    """Build (cached) the second driver containing the generated packages of the standard fresh set."""
    res = F.cached_build(fresh_set(ctx), "fresh-" + ctx.tier)
    return res


def fresh_filter(res):
    pk = tuple(k + ".proto:" for k, v in res["results"].items() if v == "ok")
    return lambda r: r.get("key", "").startswith(pk)


def check_C12(ctx):
    level = "proof"
    if not model_available(ctx):
        return infra_failure(ctx, level)
    ok, ob, problems = proof_status(ctx, ["C12_always_selection", "C12_boundary_optional_enum", "C12_checked_in_total", "C12_encode_correct", "C12_decode_correct", "C12_round_trip"])
    sch = fresh_set(ctx)
    bnd = {k: v[1]() for k, v in F.BOUNDARY.items()}
    res = fresh_driver(ctx)
    bres = F.cached_build(bnd, "fresh-boundary")
    findings = []
    obligations_bad = []
    # 1. generator verdicts vs the model's gen_all on the same schemas
    specs = []
    for tag, d in (("fresh-" + ctx.tier, sch), ("fresh-boundary", bnd)):
        for pkg in d:
            specs.append("%s=%s.proto" % (os.path.join(C.WORK, tag, "src", pkg + ".proto"), pkg))
    rows = E.run_suite(ctx, "schema-of", ["schema-of"] + specs)
    model_verdict, model_progs, go_names = {}, {}, {}
    for r in rows:
        if r["suite"] == "schema":
            model_verdict[r["cols"][0][:-6]] = r["model"][0] if r["model"] else "?"
        elif r["suite"] == "progs":
            model_progs[r["cols"][0][:-6]] = r["model"][0] if r["model"] else "?"
            go_names[r["cols"][0][:-6]] = r["cols"][1].split(",")
        elif r["suite"] == "schemaerror":
            obligations_bad.append("harness could not parse generated schema %s: %s" % (r["cols"][0], r["cols"][1]))
    allres = dict(res["results"])
    allres.update(bres["results"])
    hist = {"generator": {}, "model": {}}
    for pkg, verdict in sorted(allres.items()):
        mv = model_verdict.get(pkg, "?")
        gk = "ok" if verdict == "ok" else ("compile-error" if verdict.startswith("compile-error") else "error")
        hist["generator"][gk] = hist["generator"].get(gk, 0) + 1
        hist["model"][mv.split(":")[0]] = hist["model"].get(mv.split(":")[0], 0) + 1
        expected_boundary = pkg in bnd
        text = (sch.get(pkg) or bnd.get(pkg))
        if gk == "compile-error":
            findings.append(("compile", pkg, {"schema": text, "generator": verdict, "model": mv,
                                              "what": "protoc-gen-pico output does not compile for a schema inside the documented feature set"}))
        elif gk == "error" and not expected_boundary:
            findings.append(("generror", pkg, {"schema": text, "generator": verdict, "model": mv,
                                               "what": "generator fails on a schema inside the documented feature set"}))
        elif gk == "ok" and expected_boundary:
            obligations_bad.append("boundary schema %s (%s) accepted by the generator; model says %s" % (pkg, F.BOUNDARY[pkg][0], mv))
        if (gk == "ok") != (mv == "ok") and gk != "compile-error":
            obligations_bad.append("generator/model disagree on %s: generator %s, model %s" % (pkg, verdict[:200], mv))
    # 2. emitted programs = the generator model's programs (T-pico)
    tp_total = 0
    files = []
    for tag, r0 in (("fresh-" + ctx.tier, res),):
        for pkg, v in r0["results"].items():
            if v == "ok":
                files.append(os.path.join(r0["gen"], "fresh", pkg, pkg + ".pico.go"))
    if files:
        out = driver_out(ctx, ["tpico"] + files)
        for line in out.split("\n"):
            c = line.split("\t")
            if c[0] == "prog" and len(c) >= 5:
                pkg = c[1][:-8]
                names = go_names.get(pkg, [])
                mp = model_progs.get(pkg, "").split(";;")
                if c[2] in names and names.index(c[2]) < len(mp):
                    tp_total += 1
                    if mp[names.index(c[2])] != c[3] + "|" + c[4]:
                        obligations_bad.append("emitted program of %s.%s differs from the generator model: emitted %s | model %s" % (
                            pkg, c[2], (c[3] + "|" + c[4])[:600], mp[names.index(c[2])][:600]))
            elif c[0] == "progerror":
                obligations_bad.append("T-pico cannot parse %s: %s" % (c[1], c[2][:300]))
    # 3. determinism: the same descriptor yields the same source
    if res.get("driver"):
        import tempfile, filecmp
        d2 = os.path.join(C.WORK, "fresh-det")
        import shutil
        shutil.rmtree(d2, ignore_errors=True)
        plugin = os.path.join(C.BIN, "protoc-gen-pico")
        det_runs = 0
        for pkg, v in list(res["results"].items()):
            if v != "ok":
                continue
            a = os.path.join(res["gen"], "fresh", pkg, pkg + ".pico.go")
            want = open(a).read()
            # Go map iteration order needs several runs to show: 12 on the fixed feature set, 4 elsewhere
            for k in range(12 if pkg in F.fixed_schemas() else 4):
                driver_out(ctx, ["genrun", plugin, os.path.join(d2, pkg), "paths=source_relative,field_access=true", "%s=%s.proto" % (os.path.join(res["src"], pkg + ".proto"), pkg)])
                det_runs += 1
                b = os.path.join(d2, pkg, pkg + ".pico.go")
                if not (os.path.exists(b) and open(b).read() == want):
                    findings.append(("nondeterministic", pkg, {"schema": sch.get(pkg), "what": "plugin runs on the same descriptor produced different sources (run %d)" % (k + 2)}))
                    break
        ctx.cover["determinism_plugin_runs"] = det_runs
        shutil.rmtree(d2, ignore_errors=True)
    ctx.cover["histograms"]["schemas"] = hist
    ctx.cover["programs_compared_with_model"] = tp_total
    ctx.cover["schemas_generated"] = len(allres)
    kf = C.known_findings()
    for kind, pkg, rep in findings:
        sig = "gen:%s:%s" % (kind, pkg)
        known = [k for k in kf["open"] if k["property"] == "C12" and k.get("sig") == sig]
        if known:
            ctx.known.append(known[0]["text"])
        else:
            ctx.violation("gen-" + pkg, rep, text="%s: %s" % (pkg, rep["what"]))
    if ctx.violations:
        ctx.add_cases(len(allres), max(2, len(allres)), samples=[{"schema": k, "generator": v[:100]} for k, v in list(allres.items())[:3]])
        ctx.cover["rule"] = "fresh schemas (fixed feature-coverage set + grammar-drawn) through the real plugin"
        return E.finish(ctx, level, trusted=KERNEL_TB)
    # 4. behaviour of the emitted code: C01/C03/C06/C08 on the generated types
    if not res.get("driver"):
        ctx.violation("fresh-build", {"what": "fresh driver could not be built", "log": res.get("log", "")[:3000]}, has_input=False, text=res.get("log", "")[:300])
        return E.finish(ctx, level, trusted=KERNEL_TB)
    flt = fresh_filter(res)
    spec = dict(
        theorems=["C12_always_selection", "C12_boundary_optional_enum", "C12_checked_in_total", "C12_encode_correct", "C12_decode_correct", "C12_round_trip"],
        suites=lambda c: [("msg", ["msg", c.seed, _n(c, 5000, 40000), ".proto:"], res["driver"]), ("decv", ["decv", c.seed, _n(c, 4000, 20000), ".proto:"], res["driver"])],
        filter=flt,
        prop={"msg": lambda r: r["impl"] != "PANIC" and all(r["flags"].get(k) in ("ok", "na") for k in ("c01", "c03", "c06", "c08o", "c08r")) and r["flags"].get("get", "ok") == "ok",
              "dec": lambda r: r["ist"] == "ok" and r["flags"].get("c02") == "ok"},
        tie={"msg": tie_bytes, "dec": tie_dec_val}, spec={"msg": spec_msg, "dec": spec_dec}, nontrivial=nontrivial_any, shrink_flag="bad",
        rule="schemas: fixed set covering every generator branch (all 180 maps, recursion, optional x 15 kinds, oneof x 15 kinds + enum + message, out-of-order and extreme field numbers, "
             "picoconv casts in all four shapes, capture, nested declarations) + grammar-drawn schemas, run through the real plugin with and without field_access=true (both outputs compile, the second is the first minus the accessors), "
             "driven like the checked-in types, every generated accessor compared with the field it reads (also on a nil receiver); "
             "boundary schemas (optional enum, map<_,message/enum>, capture with number >= 64) must be rejected by generator and model alike")
    rc = run_message_property_with(ctx, spec, pre_problems=obligations_bad)
    return rc


# --------------------------------------------------------------------------
# C18 generated sources

def check_C18(ctx):
    level = "translation_validation"
    if not ctx.prep["driver_ok"]:
        return infra_failure(ctx, level)
    ok, ob, problems = proof_status(ctx, ["C18_types_table", "C18_schemas_generate"])
    import shutil
    scratch = os.path.join(C.WORK, "c18")
    shutil.rmtree(scratch, ignore_errors=True)
    out = driver_out(ctx, ["c18", scratch], timeout=900)
    arte = []
    for line in out.split("\n"):
        c = line.split("\t")
        if c[0] == "c18" and len(c) >= 3:
            arte.append((c[1], c[2], c[3] if len(c) > 3 else ""))
    samples = []
    for path, status, detail in arte:
        samples.append({"artefact": path, "status": status})
        if status == "DIFF":
            diff = ""
            try:
                diff = open(detail).read()[:6000]
            except OSError:
                pass
            ctx.violation("diff-" + path.replace("/", "_"), {"artefact": path, "what": "checked-in file differs from the output of the generator built from the working tree",
                                                               "diff": diff, "replay_cmd": "/verif/work/bin/zzverif c18 /verif/work/c18"},
                          text="%s differs from generator output" % path)
        elif status != "same":
            ctx.violation("err-" + path.replace("/", "_"), {"artefact": path, "what": "generator could not be run", "detail": detail[:2000]},
                          text="%s: %s" % (path, detail[:200]))
    # semantic half: programs in the checked-in *.pico.go = generator model on the working tree's schemas
    import registry
    specs = ["%s=%s" % (e[0], e[1]) for e in registry.CHECKED_IN]
    rows = E.run_suite(ctx, "schema-of", ["schema-of"] + specs) if model_available(ctx) else []
    model_progs, go_names = {}, {}
    for r in rows:
        if r["suite"] == "progs":
            model_progs[r["cols"][0]] = (r["model"][0] if r["model"] else "?").split(";;")
            go_names[r["cols"][0]] = r["cols"][1].split(",")
    files = [os.path.join(C.REPO, e[4]) for e in registry.CHECKED_IN]
    base2proto = {os.path.basename(e[4]): e[1] for e in registry.CHECKED_IN}
    tp = driver_out(ctx, ["tpico"] + files)
    compared, prog_bad = 0, []
    for line in tp.split("\n"):
        c = line.split("\t")
        if c[0] == "prog" and len(c) >= 5:
            proto = base2proto.get(c[1])
            names = go_names.get(proto, [])
            if c[2] in names:
                compared += 1
                mp = model_progs[proto][names.index(c[2])] if names.index(c[2]) < len(model_progs.get(proto, [])) else "?"
                if mp != c[3] + "|" + c[4]:
                    prog_bad.append({"file": c[1], "type": c[2], "checked_in": (c[3] + "|" + c[4])[:1500], "model": mp[:1500]})
        elif c[0] == "progerror":
            prog_bad.append({"file": c[1], "error": c[2][:300]})
    ctx.cover.update({"programs": len(arte) + compared, "disagreements_checked": len(arte) + compared,
                      "generated_artefacts_diffed": len(arte), "message_programs_compared_with_model": compared})
    ctx.add_cases(len(arte) + compared, len(arte) + compared, samples=samples[:8])
    ctx.cover["rule"] = ("8 generated artefacts regenerated by the generators built from the working tree (generatecoder in a scratch directory; "
                         "protoc-gen-pico on descriptors parsed from the working tree's .proto files with the go:generate parameters) and compared byte for byte; "
                         "Encode/Decode programs of every checked-in message parsed back (T-pico) and compared with the generator model")
    if not ctx.violations and (prog_bad or not ok):
        detail = {"broken_theorems_or_obligations": problems, "program_mismatches": prog_bad[:5],
                  "search": "byte comparison of all 8 artefacts found no difference"}
        ctx.violation("tie", detail, has_input=False, text=json.dumps(detail)[:400])
    shutil.rmtree(scratch, ignore_errors=True)
    return E.finish(ctx, level, trusted=KERNEL_TB + ["protoparse (proto3 subset parser written for this harness) stands in for protoc; validated by reproducing all five checked-in *.pico.go byte for byte"])


# --------------------------------------------------------------------------
# C07 imports / link

def link_probe_source():
    """A program that references every exported function and method of the runtime and one
    message of every generated package (method expressions kept alive through a sink)."""
    import re as _r
    lines = ['package main', '', 'import (', '\t"storj.io/picobuf"', '\t"storj.io/picobuf/picoconv"', '\t"storj.io/picobuf/picowire"',
             '\tpicotest "storj.io/picobuf/internal/picotest"', '\tcompat "storj.io/picobuf/internal/protocompat/pico"',
             '\tszone "storj.io/picobuf/internal/sizebench/pico/one"', '\tsztwo "storj.io/picobuf/internal/sizebench/pico/two"',
             '\tszsml "storj.io/picobuf/internal/sizebench/pico/sml"', ')', '', 'var sink []interface{}', '', 'func main() {']
    for f, recv in (("encoder.go", "Encoder"), ("encoder_types.go", "Encoder"), ("decoder.go", "Decoder"), ("decoder_types.go", "Decoder")):
        src = open(os.path.join(C.REPO, f)).read()
        for m in _r.findall(r"^func \(\w+ \*%s\) ([A-Z]\w*)\(" % recv, src, _r.M):
            lines.append("\tsink = append(sink, (*picobuf.%s).%s)" % (recv, m))
    for fn in ("Marshal", "MarshalBuffer", "Unmarshal", "NewEncoder", "NewEncoderBuffer", "NewDecoder"):
        lines.append("\tsink = append(sink, picobuf.%s)" % fn)
    lines.append("\tsink = append(sink, picobuf.FieldNumber.String, picobuf.FieldNumber.IsValid)")
    for t in _r.findall(r"^type (Map\w+) map\[", open(os.path.join(C.REPO, "picowire", "map.go")).read(), _r.M):
        lines.append("\tsink = append(sink, (*picowire.%s).PicoEncode, (*picowire.%s).PicoDecode)" % (t, t))
    for t in ("Timestamp", "Duration"):
        lines.append("\tsink = append(sink, (*picoconv.%s).PicoEncode, (*picoconv.%s).PicoDecode)" % (t, t))
    for alias, typ in (("picotest", "AllTypes"), ("picotest", "CustomMessageTypes"), ("picotest", "Tag"), ("picotest", "UnknownMessage"), ("compat", "Types"), ("compat", "Map"),
                       ("szone", "Types"), ("sztwo", "Types2"), ("szsml", "Types")):
        lines.append("\t{ m := new(%s.%s); b, _ := picobuf.Marshal(m); _ = picobuf.Unmarshal(b, m); sink = append(sink, m) }" % (alias, typ))
    lines += ["\tprintln(len(sink))", "}"]
    return "\n".join(lines) + "\n"


def check_C07(ctx):
    level = "other"
    ok, ob, problems = proof_status(ctx, ["C07_plain", "C07_verif"])
    import translate as T
    findings = []
    total = 0
    samples = []
    # direct reading of the import graphs (the same data the regenerated Coq file holds), to name offenders
    for cfg, verif in (("plain", False), ("verif", True)):
        try:
            pk = T.go_list_deps(T.RUNTIME_PKGS + T.GENERATED_PKGS, verif)
        except Exception as e:  # noqa
            problems.append("go list (%s) failed: %s" % (cfg, str(e)[:300]))
            continue
        by = {p["ImportPath"]: p for p in pk}
        for root in T.RUNTIME_PKGS + T.GENERATED_PKGS:
            if root not in by:
                continue
            total += 1
            # BFS with parent pointers for a witness path
            parent, todo = {root: None}, [root]
            while todo:
                n = todo.pop(0)
                for i in by.get(n, {}).get("Imports", []):
                    if i not in parent:
                        parent[i] = n
                        todo.append(i)
            for n in parent:
                p = by.get(n, {})
                if n in T.FORBIDDEN or (not p.get("Standard") and not n.startswith("storj.io/picobuf") and n not in ("C", "unsafe")):
                    path = [n]
                    while parent[path[-1]] is not None:
                        path.append(parent[path[-1]])
                    findings.append({"config": cfg, "root": root, "forbidden": n, "import_path": list(reversed(path))})
            if len(samples) < 4:
                samples.append({"config": cfg, "root": root, "transitive_imports": len(parent) - 1})
    # generated code of FRESH schemas (enum size boundaries, every field shape): the emitted packages' import closure
    fres = fresh_driver(ctx)
    fresh_pkgs = []
    if fres.get("gen"):
        fresh_pkgs = ["storj.io/picobuf/internal/zzverif/fresh/" + k for k, v in fres["results"].items() if v == "ok"]
        ov = C.write_overlay(fres["gen"])
        rc, so, se = C.run(["go", "list", "-deps", "-json=ImportPath,Imports,Standard", "-tags", "verif", "-overlay", ov] + fresh_pkgs, cwd=C.REPO, env=C.GOENV, check=False, timeout=600)
        if rc != 0:
            problems.append("go list (fresh generated packages) failed: %s" % se[-300:])
        else:
            dec, i, pk = json.JSONDecoder(), 0, []
            while i < len(so):
                while i < len(so) and so[i].isspace():
                    i += 1
                if i >= len(so):
                    break
                obj, i = dec.raw_decode(so, i)
                pk.append(obj)
            by = {p["ImportPath"]: p for p in pk}
            for root in fresh_pkgs:
                total += 1
                parent, todo = {root: None}, [root]
                while todo:
                    n = todo.pop(0)
                    for imp in by.get(n, {}).get("Imports", []):
                        if imp not in parent:
                            parent[imp] = n
                            todo.append(imp)
                for n in parent:
                    pinfo = by.get(n, {})
                    if n in T.FORBIDDEN or (not pinfo.get("Standard") and not n.startswith("storj.io/picobuf") and n not in ("C", "unsafe")):
                        path = [n]
                        while parent[path[-1]] is not None:
                            path.append(parent[path[-1]])
                        src = os.path.join(fres.get("src", ""), root.rsplit("/", 1)[1] + ".proto")
                        findings.append({"config": "fresh", "root": root, "forbidden": n, "import_path": list(reversed(path)),
                                         "schema": open(src).read() if os.path.exists(src) else ""})
    elif fres.get("log"):
        problems.append("fresh generated packages unavailable: " + fres["log"][:300])
    ctx.cover["fresh_generated_packages"] = len(fresh_pkgs)
    # what the generator CAN make generated code import, whatever the schema (also for schemas no test set contains, e.g. proto2
    # files): every package named by a protogen.GoImportPath("...") literal in the generator's source must itself be free of
    # fmt/reflect. (Packages named by the user in custom_type / custom_serialize options are the user's own.)
    gen_imports = set()
    for f in glob.glob(os.path.join(C.REPO, "protoc-gen-pico", "*.go")):
        if f.endswith("_test.go") or f.endswith(".pb.go"):
            continue
        gen_imports |= set(re.findall(r'GoImportPath\(\s*"([^"]+)"\s*\)', open(f).read()))
    ctx.cover["packages_the_generator_can_import"] = sorted(gen_imports)
    if gen_imports:
        rc, so, se = C.run(["go", "list", "-deps", "-json=ImportPath,Imports,Standard"] + sorted(gen_imports), cwd=C.REPO, env=C.GOENV, check=False, timeout=600)
        if rc != 0:
            problems.append("go list (packages named in the generator) failed: %s" % se[-300:])
        else:
            dec, i, pk = json.JSONDecoder(), 0, []
            while i < len(so):
                while i < len(so) and so[i].isspace():
                    i += 1
                if i >= len(so):
                    break
                obj, i = dec.raw_decode(so, i)
                pk.append(obj)
            by = {p["ImportPath"]: p for p in pk}
            for root in sorted(gen_imports):
                total += 1
                parent, todo = {root: None}, [root]
                while todo:
                    n = todo.pop(0)
                    for imp in by.get(n, {}).get("Imports", []):
                        if imp not in parent:
                            parent[imp] = n
                            todo.append(imp)
                for n in parent:
                    if n in T.FORBIDDEN:
                        path = [n]
                        while parent[path[-1]] is not None:
                            path.append(parent[path[-1]])
                        findings.append({"config": "generator-source", "root": root, "forbidden": n, "import_path": list(reversed(path)),
                                         "what": "protoc-gen-pico can emit an import of %s (GoImportPath literal in its source), which depends on %s" % (root, n)})
    # link-time evidence
    nm_hits = []
    link = os.path.join(C.WORK, "link")
    os.makedirs(link, exist_ok=True)
    open(os.path.join(link, "main.go"), "w").write(link_probe_source())
    for cfg, verif in (("plain", False), ("verif", True)):
        repl = {os.path.join(C.REPO, "internal", "zzlink", "main.go"): os.path.join(link, "main.go")}
        if verif:
            repl.update(json.load(open(C.write_overlay()))["Replace"])
        ovp = os.path.join(link, "overlay-%s.json" % cfg)
        json.dump({"Replace": repl}, open(ovp, "w"))
        exe = os.path.join(link, "probe-" + cfg)
        cmd = ["go", "build", "-o", exe, "-overlay", ovp] + (["-tags", "verif"] if verif else []) + ["./internal/zzlink"]
        rc, so, se = C.run(cmd, cwd=C.REPO, env=C.GOENV, check=False, timeout=600)
        if rc != 0:
            problems.append("link probe (%s) does not build: %s" % (cfg, (so + se)[-800:]))
            continue
        rc, so, se = C.run(["go", "tool", "nm", exe], cwd=C.REPO, env=C.GOENV, check=False, timeout=300)
        syms = so.split("\n")
        total += 1
        hits = [l.split()[-1] for l in syms if l.split() and (re.search(r"\b(reflect|fmt)\.", l.split()[-1]) and "internal/reflectlite" not in l or "MethodByName" in l)]
        if hits:
            nm_hits.append({"config": cfg, "symbols": hits[:20]})
        samples.append({"config": cfg, "linked_symbols": len(syms), "reflect_or_fmt_symbols": len(hits)})
        try:
            os.remove(exe)
        except OSError:
            pass
    ctx.add_cases(total, max(2, total), samples=samples)
    ctx.cover["rule"] = ("`go list -deps` of the 4 runtime and 5 generated packages in both build configurations (plain / -tags verif with the injected hook), "
                         "checked by a verified closure over the regenerated graph; the import closure of every package the plugin emits for the fresh schema set (all field shapes, enums of 17 and 20 values); plus a linked probe referencing every exported function, method and map codec, scanned with go tool nm")
    ctx.cover["explanation"] = ("Verified checker over a graph extracted by `go list`: Theorem C07_plain/C07_verif (closed set + soundness lemma) shows no reachable package is "
                                "reflect, fmt or outside std/module. The linker's dead-code elimination is toolchain behaviour: observed with go tool nm on a probe binary.")
    for f in findings[:3]:
        ctx.violation("import-%s-%s" % (f["config"], f["forbidden"].replace("/", "_")), dict(f, what="forbidden package reachable", replay_cmd="cd /repo && go list -deps " + f["root"]),
                      text="%s imports %s via %s" % (f["root"], f["forbidden"], " -> ".join(f["import_path"])))
    for h in nm_hits[:2]:
        ctx.violation("nm-" + h["config"], dict(h, what="linked binary contains reflect/fmt/MethodByName symbols"), text="nm: %s" % h["symbols"][:5])
    if not ctx.violations and not ok:
        ctx.violation("tie", {"broken_theorems_or_obligations": problems, "search": "import graphs and nm scan show no forbidden package"}, has_input=False,
                      text=json.dumps(problems)[:400])
    return E.finish(ctx, level, trusted=KERNEL_TB + ["`go list -deps` output and `go tool nm` (Go toolchain)"])


# --------------------------------------------------------------------------
# C16 concurrency

def check_C16(ctx):
    level = "other"
    if not ctx.prep["driver_ok"]:
        return infra_failure(ctx, level)
    ok, ob, problems = proof_status(ctx, ["C16_sched", "C16_no_shared_mutable_state"])
    exe = os.path.join(C.BIN, "zzverif-race")
    fres = fresh_driver(ctx)   # generated types too (picoconv casts, maps, recursion)
    rc, msg, dt = C.go_build("./internal/zzverif", exe, race=True, gen_root=fres.get("gen") if fres.get("driver") else None)
    if rc != 0:
        ctx.violation("race-build", {"what": "race-instrumented build of the harness failed", "log": msg[-2000:]}, has_input=False, text=msg[-300:])
        return E.finish(ctx, level, trusted=KERNEL_TB)
    n, g = (150, 16) if ctx.tier == "quick" else (3000, 64)
    env = dict(os.environ, VERIF_REPO=C.REPO, GORACE="halt_on_error=0 exitcode=66")
    p = subprocess.run([exe, "race", str(ctx.seed), str(n), str(g)], stdout=subprocess.PIPE, stderr=subprocess.PIPE, text=True, env=env, timeout=3000)
    rows = [l.split("\t") for l in p.stdout.split("\n") if l.startswith("race\t")]
    bad = [r for r in rows if r[4] != "ok"]
    races = p.stderr.count("WARNING: DATA RACE")
    hist = {"type": {}}
    for r in rows:
        hist["type"][r[1]] = hist["type"].get(r[1], 0) + 1
    ctx.add_cases(len(rows), len({r[3] for r in rows if len(r[3]) > 40}), traces=len(rows), hist=hist,
                  samples=[{"type": r[1], "goroutines": r[2], "message": r[3][:200], "result": r[4]} for r in rows[:2]])
    ctx.cover["rule"] = ("%d random messages x %d goroutines each doing Marshal of the same message, Unmarshal of the same input bytes into its own message and a picoconv "
                         "round trip, under the Go race detector; every result compared with the sequential baseline; non-trivial = message with content" % (n, g))
    ctx.cover["explanation"] = ("Schedule-independence proved generically in Coq (C16_sched); its side condition 'no step writes shared state' discharged from the regenerated "
                                "list of package-level variables (C16_no_shared_mutable_state); data races in compiled Go are a runtime fact observed with -race.")
    ctx.cover["race_reports"] = races
    if races or p.returncode == 66:
        ctx.violation("race", {"what": "Go race detector report", "report": p.stderr[:6000], "replay_cmd": "%s race %d %d %d" % (exe, ctx.seed, n, g)},
                      text="%d data race reports" % races)
    elif bad:
        r = bad[0]
        ctx.violation("concurrent-result", {"type": r[1], "goroutines": r[2], "message": r[3], "result": r[4],
                                             "replay_cmd": "%s race %d %d %d" % (exe, ctx.seed, n, g)}, text="%s: %s" % (r[1], r[4][:200]))
    elif p.returncode != 0:
        ctx.violation("race-run", {"what": "race run failed", "stderr": p.stderr[-2000:]}, has_input=False, text=p.stderr[-300:])
    elif not ok:
        ctx.violation("tie", {"broken_theorems_or_obligations": problems, "search": "race detector run reported nothing"}, has_input=False, text=json.dumps(problems)[:400])
    return E.finish(ctx, level, trusted=KERNEL_TB + ["Go race detector (runtime)", "T-globals: syntactic scan of package-level variables and their writes (go/ast)"])


# --------------------------------------------------------------------------
# C17 buffers

def check_C17(ctx):
    level = "proof"
    if not model_available(ctx):
        return infra_failure(ctx, level)
    ok, ob, problems = proof_status(ctx, ["C17_reset", "C17_append", "C17_reslice", "C17_copy", "C17_put", "C17_position_independent", "C17_encode_appends_only", "C17_programs_on_any_buffer", "C17_concrete_refines_abstract", "C17_encode_into_any_buffer", "C17_generated_encode_refines", "C17_marshal_buffer_is_marshal"])
    n = _n(ctx, 600, 20000)
    out = driver_out(ctx, ["bufs", ctx.seed, n], timeout=3000)
    rows = [l.split("\t") for l in out.split("\n") if l.startswith("bufs\t")]
    bad = [r for r in rows if r[3] != "ok"]
    # argument immutability and model tie ride on the msg/dec suites
    mrows = parse_rows(E.run_suite(ctx, "msg", ["msg", ctx.seed, _n(ctx, 600, 10000)]))
    for sname, gen_args, drv in fresh_suites(ctx, [("msg", ["msg", ctx.seed + 17, _n(ctx, 400, 8000), "casts.proto:"])]):
        # generated types with time.Time / time.Duration casts in every shape (values in non-UTC locations)
        mrows += parse_rows(E.run_suite(ctx, "msg_casts_fresh", gen_args, driver=drv))
    drows = parse_rows(E.run_suite(ctx, "decv", ["decv", ctx.seed, _n(ctx, 600, 10000)]))
    immut_bad = [r for r in mrows if r["suite"] == "msg" and r["flags"].get("immut") != "ok"]
    input_bad = [r for r in drows if r["suite"] == "dec" and "input-modified" in r["flags"]]
    tie_bad = [r for r in mrows if r["suite"] == "msg" and not tie_bytes(r)]
    total = len(rows) + len([r for r in mrows if r["suite"] == "msg"]) + len([r for r in drows if r["suite"] == "dec"])
    ctx.add_cases(total, len({r[2] for r in rows if len(r[2]) > 40}) + len({r["val"] for r in mrows if r["suite"] == "msg" and nontrivial_any(r)}), traces=total,
                  samples=[{"type": r[1], "message": r[2][:200], "result": r[3]} for r in rows[:2]])
    ctx.cover["rule"] = ("random messages x 11 supplied buffers (nil, cap 0/1, too small, exact, +1/+2/+3, oversized dirty, full of stale data, tiny stale) through MarshalBuffer and "
                         "NewEncoderBuffer, buffer reuse across consecutive messages, earlier Marshal results re-read after later calls; message snapshot before/after Marshal, "
                         "input bytes before/after Unmarshal; non-trivial = message with content")
    if bad:
        r = min(bad, key=lambda r: len(r[2]))
        ctx.violation("bufs", {"type": r[1], "message": r[2], "result": r[3], "replay_cmd": "/verif/work/bin/zzverif bufs %d %d" % (ctx.seed, n)}, text="%s: %s" % (r[1], r[3][:200]))
    elif immut_bad:
        r = immut_bad[0]
        ctx.violation("immut", {"type": r["key"], "message": r["val"], "detail": r["detail"][:1500], "what": "Marshal modified its argument"}, text="Marshal modified %s" % r["key"])
    elif input_bad:
        r = input_bad[0]
        ctx.violation("input", {"type": r["key"], "input_hex": r["hex"], "what": "Unmarshal modified its input bytes",
                                "replay_cmd": "/verif/work/bin/zzverif dec-one '%s' %s" % (r["key"], r["hex"][1:])}, text="Unmarshal modified its input (%s)" % r["key"])
    elif tie_bad or not ok:
        ctx.violation("tie", {"broken_theorems_or_obligations": problems, "correspondence_mismatches": len(tie_bad),
                              "search": "%d buffer cases: MarshalBuffer/NewEncoderBuffer always equal Marshal" % len(rows)}, has_input=False, text=json.dumps(problems)[:300])
    return E.finish(ctx, level, trusted=KERNEL_TB + ["modelled: Go slice/append/copy semantics as (array, len) with arbitrary stale contents and growth policy (Enc/CBuf.v)"])
