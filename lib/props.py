"""Per-property deciders.  Each check_<ID>(ctx) returns the process exit code."""
import json
import os
import subprocess

import common as C
import engine as E

KERNEL_TB = [
    "Coq 8.16.1 kernel + vm_compute (no native_compute)",
    "Print Assumptions output recorded under assumptions",
    "extraction: ExtrOcamlBasic only (bool/option/unit/list/prod/sumbool/sumor mapped to OCaml types; Z/positive/N/nat extracted as inductives)",
    "OCaml driver /verif/ocaml/driver.ml (parsing/printing, Z<->decimal), OCaml 4.13.1",
    "Go harness /verif/harness (case generators, canonicalisers), Go toolchain, go build -overlay",
]


def driver_out(ctx, args, timeout=600):
    env = dict(os.environ, VERIF_REPO=C.REPO)
    p = subprocess.run([ctx.prep["driver"]] + [str(a) for a in args], stdout=subprocess.PIPE,
                       stderr=subprocess.PIPE, text=True, timeout=timeout, env=env)
    if p.returncode != 0:
        raise RuntimeError("driver failed: %s: %s" % (args, p.stderr[-1500:]))
    return p.stdout


def proof_status(ctx, required, pid=None):
    """Checks the proof side. `required` = theorem names that must be present in
    positive form. Returns (ok, ob, problems)."""
    ob = E.obligations(ctx, pid)
    problems = []
    gate = C.hygiene_gate()
    if gate:
        problems.append("hygiene gate: " + "; ".join(gate[:5]))
    if not ob["present"]:
        problems.append("Props file missing")
    if ob["failed"]:
        for f in ob["failed"]:
            problems.append("does not check: %s :: %s" % (f, ctx.prep["coq_errors"].get(f[:-2], "")[:1500]))
    for t in required:
        if t not in ob["theorems"]:
            problems.append("theorem %s not stated in positive form" % t)
    for t in ob["refuted"]:
        problems.append("refuted form present: %s" % t)
    bad_ax = [a for a in ob["assumptions"] if "Closed under the global context" not in a]
    ctx.assumptions += ob["assumptions"]
    ctx.cover["obligations"] = ob["qed"] + len(ctx.prep.get("translate", {}))
    ctx.cover["discharged"] = ctx.cover["obligations"] if not (ob["failed"] or gate) else 0
    ctx.cover["checker_cmd"] = "make -C /verif/coq (coqc 8.16.1, full .vo) + coqc work/pa/PA_%s.v (Print Assumptions)" % (pid or ctx.pid)
    ctx.cover["theorems"] = ob["theorems"]
    ctx.cover["dependency_cone"] = ob["cone"]
    if bad_ax:
        ctx.notes.append("axioms reported: " + "; ".join(bad_ax))
    return (not problems), ob, problems


def model_available(ctx):
    return ctx.prep["driver_ok"] and ctx.prep["extract_ok"]


def infra_failure(ctx, level):
    """Harness/model could not be built from the current tree: nothing can be shown."""
    what = []
    if not ctx.prep["driver_ok"]:
        what.append("go build of the harness against the working tree failed: " + ctx.prep["driver_msg"][-1500:])
    if not ctx.prep["extract_ok"]:
        what.append("model extraction failed: " + str(ctx.prep.get("extract_msg")) + " :: " + ctx.prep["coq_log"][-1500:])
    ctx.violation("build", {"kind": "build-failure", "detail": what}, has_input=False, text="; ".join(what)[:300])
    return E.finish(ctx, level, trusted=KERNEL_TB)


# --------------------------------------------------------------------------
# C20 bitset

def shrink_list(xs, fails):
    """Greedy delta: drop elements while `fails` stays true."""
    xs = list(xs)
    changed = True
    while changed:
        changed = False
        for i in range(len(xs)):
            cand = xs[:i] + xs[i + 1:]
            if cand and fails(cand):
                xs = cand
                changed = True
                break
    return xs


def check_C20(ctx):
    level = "proof"
    if not model_available(ctx):
        return infra_failure(ctx, level)
    ok, ob, problems = proof_status(ctx, ["C20"])
    exh, nrand = (3, 400) if ctx.tier == "quick" else (4, 20000)
    rows = E.run_suite(ctx, "bitset", ["bitset", ctx.seed, exh, nrand])
    tie_bad, prop_bad = [], []
    distinct = set()
    hist = {"length": {}, "outcome": {}}
    for r in rows:
        inp, impl, oracle = (r["cols"] + ["", "", ""])[:3]
        model = r["model"][0] if r["model"] else "?"
        n = len(inp.split())
        hist["length"][str(min(n, 10))] = hist["length"].get(str(min(n, 10)), 0) + 1
        hist["outcome"]["panic" if impl.endswith("P") else "ok"] = hist["outcome"].get("panic" if impl.endswith("P") else "ok", 0) + 1
        if n >= 2:
            distinct.add(inp)
        if impl != model:
            tie_bad.append(r)
        if impl != oracle:
            prop_bad.append(r)
    ctx.add_cases(len(rows), len(distinct), traces=len(rows), hist=hist,
                  samples=[{"history": r["cols"][0], "impl": r["cols"][1], "model": r["model"][0]} for r in rows[-3:]])
    ctx.cover["rule"] = ("all histories of <=%d Set calls over the property's 15-letter boundary alphabet (exhaustive) + %d random "
                         "histories (len<=40, mixed universes); non-trivial = at least two calls; distinct = distinct history strings; "
                         "observable = per-call return value or PANIC" % (exh, nrand))
    ctx.cover["exhaustive"] = False
    if prop_bad:
        r = min(prop_bad, key=lambda r: len(r["cols"][0]))

        def fails(xs):
            o = driver_out(ctx, ["bitset-replay"] + xs).strip().split("\t")
            return o[2] != o[3]
        xs = shrink_list(r["cols"][0].split(), fails)
        o = driver_out(ctx, ["bitset-replay"] + xs).strip().split("\t")
        ctx.violation("bitset", {"suite": "bitset", "history": xs, "impl": o[2], "expected": o[3],
                                 "model": r["model"][0], "failing_cases": len(prop_bad),
                                 "replay_cmd": "/verif/work/bin/zzverif bitset-replay " + " ".join(xs)},
                      text="Small.Set history %s -> %s, set semantics says %s" % (xs, o[2], o[3]))
    elif tie_bad or not ok:
        detail = {"broken_theorems": problems,
                  "correspondence_mismatches": [{"history": r["cols"][0], "impl": r["cols"][1], "model": r["model"][0]} for r in tie_bad[:5]],
                  "search": "bitset suite (%d cases) impl vs map-based set: no failing input" % len(rows)}
        ctx.violation("bitset-tie", detail, has_input=False, text=json.dumps(detail)[:400])
    return E.finish(ctx, level, trusted=KERNEL_TB + ["modelled: uint64 words as Z (no overflow possible in 1<<b|w for b<64), Go slice index/append as list ops with explicit panic"])
