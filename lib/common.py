"""Shared orchestration for /verif/check: build stages, evidence, known findings.

Everything is rebuilt from /repo's current working tree; build products live
under /verif/work (untracked).  Nothing here writes into /repo.
"""
import fcntl
import hashlib
import json
import os
import re
import subprocess
import sys
import time

VERIF = os.path.dirname(os.path.dirname(os.path.abspath(__file__)))
REPO = os.environ.get("VERIF_REPO", "/repo")
WORK = os.path.join(VERIF, "work")
COQ = os.path.join(VERIF, "coq")
HARNESS = os.path.join(VERIF, "harness")
OCAML = os.path.join(VERIF, "ocaml")
EVID = os.path.join(VERIF, "evidence")
BIN = os.path.join(WORK, "bin")
REPLAY = os.path.join(WORK, "replay")

GOENV = dict(os.environ, GOPROXY="off", GOSUMDB="off", GOTOOLCHAIN="local",
             GOFLAGS="", CGO_ENABLED=os.environ.get("CGO_ENABLED", "0"))


def log(*a):
    print("[verif]", *a, file=sys.stderr, flush=True)


def run(cmd, cwd=None, env=None, timeout=None, check=True, inp=None, capture=True):
    """Run a command; returns (rc, stdout, stderr)."""
    p = subprocess.run(cmd, cwd=cwd, env=env, timeout=timeout, input=inp,
                       stdout=subprocess.PIPE if capture else None,
                       stderr=subprocess.PIPE if capture else None, text=True)
    if check and p.returncode != 0:
        raise RuntimeError("command failed (%d): %s\n%s\n%s" % (
            p.returncode, " ".join(cmd) if isinstance(cmd, list) else cmd,
            (p.stdout or "")[-4000:], (p.stderr or "")[-4000:]))
    return p.returncode, p.stdout, p.stderr


class Lock:
    """Serialises the shared build stages between concurrently running checks."""

    def __init__(self, name="build"):
        os.makedirs(WORK, exist_ok=True)
        self.path = os.path.join(WORK, name + ".lock")

    def __enter__(self):
        self.f = open(self.path, "w")
        fcntl.flock(self.f, fcntl.LOCK_EX)
        return self

    def __exit__(self, *a):
        fcntl.flock(self.f, fcntl.LOCK_UN)
        self.f.close()


def sha_files(paths):
    h = hashlib.sha256()
    for p in sorted(paths):
        h.update(p.encode())
        try:
            with open(p, "rb") as f:
                h.update(hashlib.sha256(f.read()).digest())
        except OSError:
            h.update(b"<missing>")
    return h.hexdigest()


def walk(root, exts, skip=(".git",)):
    out = []
    for d, dn, fn in os.walk(root):
        dn[:] = [x for x in dn if x not in skip]
        for f in fn:
            if f.endswith(exts):
                out.append(os.path.join(d, f))
    return sorted(out)


def repo_fingerprint():
    files = walk(REPO, (".go", ".proto", ".mod", ".sum"))
    return sha_files(files)[:16]


def verif_fingerprint():
    files = walk(HARNESS, (".go",)) + walk(COQ, (".v", "_CoqProject"), skip=("gen",)) + \
        walk(OCAML, (".ml", "dune", "dune-project")) + walk(os.path.join(VERIF, "lib"), (".py",))
    return sha_files(files)[:16]


# --------------------------------------------------------------------------
# Go harness, built inside /repo's module through -overlay (adds nothing to /repo)

def write_overlay(gen_root=None):
    """Map /verif/harness/zzverif/** -> /repo/internal/zzverif/**,
    /verif/harness/hook/*.go -> /repo/*.go (package picobuf, //go:build verif)."""
    repl = {}
    zz = os.path.join(HARNESS, "zzverif")
    for p in walk(zz, (".go",)):
        rel = os.path.relpath(p, zz)
        repl[os.path.join(REPO, "internal", "zzverif", rel)] = p
    gen = gen_root or os.path.join(WORK, "gen")
    if os.path.isdir(gen):
        for p in walk(gen, (".go",)):
            rel = os.path.relpath(p, gen)
            repl[os.path.join(REPO, "internal", "zzverif", rel)] = p
    hk = os.path.join(HARNESS, "hook")
    for p in walk(hk, (".go",)):
        rel = os.path.relpath(p, hk)
        repl[os.path.join(REPO, rel)] = p
    os.makedirs(WORK, exist_ok=True)
    path = os.path.join(WORK, "overlay.json" if gen_root is None else "overlay-%s%s.json" % (os.path.basename(os.path.dirname(gen_root.rstrip("/"))), "" if os.path.basename(gen_root.rstrip("/")) == "gen" else "-" + os.path.basename(gen_root.rstrip("/"))))
    with open(path, "w") as f:
        json.dump({"Replace": repl}, f, indent=1)
    return path


def go_build(pkg, out, tags="verif", overlay=True, race=False, extra=None, gen_root=None):
    os.makedirs(os.path.dirname(out), exist_ok=True)
    cmd = ["go", "build", "-o", out]
    if tags:
        cmd += ["-tags", tags]
    if overlay:
        cmd += ["-overlay", write_overlay(gen_root)]
    env = dict(GOENV)
    if race:
        cmd += ["-race"]
        env["CGO_ENABLED"] = "1"
    if extra:
        cmd += extra
    cmd.append(pkg)
    t = time.time()
    rc, so, se = run(cmd, cwd=REPO, env=env, check=False, timeout=900)
    return rc, (so or "") + (se or ""), time.time() - t


def build_driver():
    """Build the correspondence driver from the current working tree."""
    import registry
    registry.generate()
    out = os.path.join(BIN, "zzverif")
    rc, msg, dt = go_build("./internal/zzverif", out)
    return rc, msg, out


# --------------------------------------------------------------------------
# Coq

def coq_make(targets=None, timeout=3000, jobs=16):
    """Full .vo build (never -vos). Returns (rc, output)."""
    if not os.path.exists(os.path.join(COQ, "Makefile")) or \
            os.path.getmtime(os.path.join(COQ, "Makefile")) < os.path.getmtime(os.path.join(COQ, "_CoqProject")):
        run(["coq_makefile", "-f", "_CoqProject", "-o", "Makefile"], cwd=COQ)
    cmd = ["timeout", str(timeout), "make", "-j%d" % jobs]
    if targets:
        cmd += targets
    rc, so, se = run(cmd, cwd=COQ, check=False, timeout=timeout + 60)
    return rc, (so or "") + (se or "")


FORBIDDEN = re.compile(
    r"\b(Admitted|admit|Axiom|Axioms|Parameter|Parameters|Conjecture|Conjectures|Hypothesis|Hypotheses|Variable|Variables|"
    r"Admit Obligations|Unset Guard Checking|Unset Positivity Checking|Unset Universe Checking|bypass_check|"
    r"type-in-type|impredicative-set)\b")


def strip_coq_comments(s):
    out = []
    depth = 0
    i = 0
    instr = False
    while i < len(s):
        if not instr and s.startswith("(*", i):
            depth += 1
            i += 2
            continue
        if not instr and depth and s.startswith("*)", i):
            depth -= 1
            i += 2
            continue
        c = s[i]
        if depth == 0:
            if c == '"':
                instr = not instr
            out.append(c)
        i += 1
    return "".join(out)


def hygiene_gate():
    """No Admitted/axioms/unchecked flags anywhere in the development.
    Variable/Hypothesis are allowed only inside a Section."""
    bad = []
    files = walk(COQ, (".v",)) + [os.path.join(COQ, "_CoqProject")]
    for p in files:
        try:
            src = open(p).read()
        except OSError:
            continue
        code = strip_coq_comments(src) if p.endswith(".v") else src
        depth = 0
        for ln, line in enumerate(code.split("\n"), 1):
            if re.match(r"\s*Section\b", line):
                depth += 1
            if re.match(r"\s*End\b", line) and depth > 0:
                depth -= 1
            for m in FORBIDDEN.finditer(line):
                w = m.group(1)
                if w in ("Variable", "Variables", "Hypothesis", "Hypotheses") and depth > 0:
                    continue
                if w in ("Parameter", "Parameters") and False:
                    continue
                bad.append("%s:%d: %s" % (os.path.relpath(p, VERIF), ln, line.strip()[:120]))
    return bad


def count_qed(files):
    n = 0
    for p in files:
        try:
            code = strip_coq_comments(open(p).read())
        except OSError:
            continue
        n += len(re.findall(r"\b(Qed|Defined)\s*\.", code))
    return n


def coq_deps(vfile):
    """Transitive .v dependencies of a file inside /verif/coq (via coqdep)."""
    seen = set()
    todo = [vfile]
    args = []
    for line in open(os.path.join(COQ, "_CoqProject")):
        line = line.strip()
        if line.startswith("-Q") or line.startswith("-R"):
            args += line.split()
    while todo:
        f = todo.pop()
        if f in seen:
            continue
        seen.add(f)
        rc, so, se = run(["coqdep"] + args + [f], cwd=COQ, check=False)
        for m in re.finditer(r"(\S+)\.vo\b", so.split(":", 1)[1] if ":" in so else ""):
            cand = m.group(1) + ".v"
            if os.path.exists(os.path.join(COQ, cand)) and cand not in seen and cand != f:
                todo.append(cand)
    return sorted(seen)


def print_assumptions(vo_base):
    """Parse `Print Assumptions` blocks out of the make log stored for a file."""
    p = os.path.join(WORK, "coqlog", vo_base.replace("/", "_") + ".log")
    if not os.path.exists(p):
        return []
    return [l.strip() for l in open(p).read().split("\n") if l.strip()]


# --------------------------------------------------------------------------
# known findings

def known_findings():
    path = os.path.join(VERIF, "known_findings.txt")
    out = {"open": [], "fixed": []}
    if not os.path.exists(path):
        return out
    for line in open(path):
        line = line.strip()
        if not line or line.startswith("#"):
            continue
        m = re.match(r"(open|fixed):\s+property=(\S+)\s+(.*)", line)
        if not m:
            continue
        kind, pid, rest = m.groups()
        ent = {"property": pid, "text": rest}
        sm = re.match(r"sig=(\S+)\s+(.*)", rest)
        if sm:
            ent["sig"], ent["text"] = sm.groups()
        out[kind].append(ent)
    return out


# --------------------------------------------------------------------------
# evidence / verdict

def write_evidence(pid, tier, seed, level, coverage, assumptions, wall, violations):
    os.makedirs(EVID, exist_ok=True)
    ev = {"property_id": pid, "tier": tier, "seed": seed, "level": level,
          "coverage": coverage, "assumptions": assumptions,
          "wall_s": round(wall, 2), "violations": violations}
    with open(os.path.join(EVID, pid + ".json"), "w") as f:
        json.dump(ev, f, indent=1, sort_keys=True)
        f.write("\n")


def write_replay(pid, name, obj):
    d = os.path.join(REPLAY, pid)
    os.makedirs(d, exist_ok=True)
    p = os.path.join(d, name + ".json")
    with open(p, "w") as f:
        json.dump(obj, f, indent=1)
        f.write("\n")
    return p
