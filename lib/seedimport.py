#!/usr/bin/env python3
"""Import validated seeded changes (written by independent sub-agents in scratch worktrees) into /verif/seeded/.

usage: seedimport.py <seed root> <results.json> <verif commit the results were produced with>

Creates /verif/seeded/<PROP>-<X>/{patch.diff, demo/<files>, notes.md, meta.json}. Only seeds that validated
(existing suite passes with the patch, demonstration fails with it and passes without it) are kept.
"""
import json
import os
import re
import shutil
import sys

VERIF = os.path.dirname(os.path.dirname(os.path.abspath(__file__)))


def section(text, title_re):
    m = re.search(r"^##+\s*(" + title_re + r").*?$", text, re.M | re.I)
    if not m:
        return ""
    rest = text[m.end():]
    n = re.search(r"^##+\s", rest, re.M)
    return (rest[:n.start()] if n else rest).strip()


def update_own(results, commit):
    """seedimport.py --update-own <results.json> <verif commit>: records, for seeds already imported, what the check of
    their own property reported when run (seedrun.py --own) with the machinery of the given commit."""
    res = json.load(open(results))
    for sid, rec in sorted(res.items()):
        mp = os.path.join(VERIF, "seeded", sid.replace("/", "-"), "meta.json")
        if not os.path.exists(mp):
            print("not imported:", sid)
            continue
        meta = json.load(open(mp))
        own = rec.get("checks", {}).get(rec["property"])
        if own is None:
            continue
        meta["detection"]["own_check_latest"] = {
            "verif_commit": commit, "validated_again": (None if rec.get("fast") else rec.get("validated")),
            "reports_it": own.get("rc") == 1, "violation_line": (own.get("violations") or [""])[0],
            "replay_head": (own.get("replay_head") or "")[:1500]}
        json.dump(meta, open(mp, "w"), indent=1)
        print("updated", sid, "own check reports it:", own.get("rc") == 1)


def main():
    if sys.argv[1] == "--update-own":
        return update_own(sys.argv[2], sys.argv[3])
    root, results, commit = sys.argv[1], sys.argv[2], sys.argv[3]
    res = json.load(open(results))
    for sid, rec in sorted(res.items()):
        d = os.path.join(root, sid)
        if not rec.get("validated"):
            print("skip (not validated):", sid)
            continue
        name = sid.replace("/", "-")
        out = os.path.join(VERIF, "seeded", name)
        os.makedirs(os.path.join(out, "demo"), exist_ok=True)
        shutil.copy(os.path.join(d, "patch.diff"), os.path.join(out, "patch.diff"))
        notes = open(os.path.join(d, "notes.md")).read() if os.path.exists(os.path.join(d, "notes.md")) else ""
        open(os.path.join(out, "notes.md"), "w").write(notes)
        for f in rec.get("demo_files", {}):
            shutil.copy(os.path.join(d, f), os.path.join(out, "demo", f))
        checks = rec.get("checks", {})
        caught = sorted(c for c, v in checks.items() if v.get("rc") == 1)
        first = re.search(r"^#\s*(.*)$", notes, re.M)
        meta = {
            "id": name,
            "property": rec["property"],
            "title": first.group(1).strip() if first else "",
            "what_it_changes": section(notes, r"What the change does")[:3000],
            "which_part_breaks": section(notes, r"Which part of the property[^\n]*")[:3000],
            "needs_to_manifest": section(notes, r"What is needed[^\n]*")[:3000],
            "patched_files": rec.get("patched_files"),
            "demonstration": {"files": rec.get("demo_files"), "command": rec.get("demo_cmd"),
                              "placement": "copy demo/<file> to the listed path inside the repository before running the command"},
            "validation": {
                "where": "scratch copy of /repo at the pinned HEAD (never /repo itself); restored after every step",
                "ran": ["git apply patch.diff", "go build ./... && go test -count=1 ./...   (existing suite, unedited)",
                        rec.get("demo_cmd"), "restore files, run the demonstration again without the patch"],
                "existing_suite_with_patch": rec.get("suite_with_patch"),
                "demonstration_with_patch": rec.get("demo_with_patch"),
                "demonstration_without_patch": rec.get("demo_without_patch"),
                "demonstration_output_tail": rec.get("demo_with_patch_tail", "")[-600:],
            },
            "detection": {
                "verif_commit": commit,
                "how": "patch applied to a scratch copy of /repo, the listed quick checks run with VERIF_REPO pointing at it",
                "checks_run": sorted(checks),
                "caught_by": caught,
                "own_property_check_reports_it": rec["property"] in caught,
                "first_violation_line": {c: (v.get("violations") or [""])[0] for c, v in checks.items() if v.get("rc") == 1},
                "replay_head_of_own_check": (checks.get(rec["property"], {}).get("replay_head") or "")[:1500],
                "check_errors": sorted(c for c, v in checks.items() if v.get("rc") not in (0, 1)),
            },
        }
        json.dump(meta, open(os.path.join(out, "meta.json"), "w"), indent=1)
        print("imported", name, "caught_by", caught)


if __name__ == "__main__":
    main()
