#!/usr/bin/env python3
"""Validate seeded defects and run the checks against them.

usage: seedrun.py <seed root> <repo dir> [--checks C01,C02,...] [--only C01/A,...] [--out results.json]

For every <seed root>/<PROP>/<X>/ (patch.diff, demo test file(s), demo.txt):
  1. apply patch to <repo dir> (a scratch copy/worktree, never /repo), go build + existing test suite must pass
  2. demo must FAIL with the patch and PASS without it
  3. with the patch applied run the checks (VERIF_REPO=<repo dir>) and record VIOLATION lines
  4. restore the files
"""
import json
import os
import re
import shutil
import subprocess
import sys
import time

VERIF = os.path.dirname(os.path.dirname(os.path.abspath(__file__)))
GOENV = dict(os.environ, GOPROXY="off", GOSUMDB="off", GOTOOLCHAIN="local", GOFLAGS="-mod=mod")
ALL = ["C%02d" % i for i in range(1, 21)]


def sh(cmd, cwd, env=None, timeout=3000):
    p = subprocess.run(cmd, cwd=cwd, env=env or GOENV, shell=isinstance(cmd, str), stdout=subprocess.PIPE, stderr=subprocess.STDOUT, text=True, timeout=timeout)
    return p.returncode, p.stdout


def patch_files(patch):
    files = []
    for line in open(patch):
        m = re.match(r"^\+\+\+ b/(.*)$", line.rstrip("\n"))
        if m:
            files.append(m.group(1))
        m = re.match(r"^--- a/(.*)$", line.rstrip("\n"))
        if m:
            files.append(m.group(1))
    return sorted(set(files))


def demo_info(d):
    demos = [f for f in os.listdir(d) if f.endswith("_test.go") or (f.endswith(".go") and f != "patch.diff")]
    txt = open(os.path.join(d, "demo.txt")).read() if os.path.exists(os.path.join(d, "demo.txt")) else ""
    place = {}
    for f in demos:
        cands = re.findall(r"([A-Za-z0-9_./-]*" + re.escape(f) + ")", txt)
        cands = [c.lstrip("./") for c in cands if not c.startswith("/tmp")]
        withdir = [c for c in cands if "/" in c]
        place[f] = withdir[0] if withdir else f
    cmd = None
    for line in txt.split("\n"):
        m = re.search(r"(go test [^`\n]*)", line)
        if m:
            cmd = m.group(1).strip().rstrip(".")
            break
    return demos, place, cmd


def main():
    root, repo = sys.argv[1], sys.argv[2]
    checks = ALL
    only = None
    own = False
    fast = False
    shard = None
    out = os.path.join(root, "results.json")
    a = sys.argv[3:]
    while a:
        if a[0] == "--checks":
            checks = a[1].split(",")
            a = a[2:]
        elif a[0] == "--only":
            only = set(a[1].split(","))
            a = a[2:]
        elif a[0] == "--own":
            own = True          # run only the check of the seed's own property
            a = a[1:]
        elif a[0] == "--out":
            out = a[1]
            a = a[2:]
        elif a[0] == "--fast":
            fast = True         # seeds validated at import: apply and run the check(s) only
            a = a[1:]
        elif a[0] == "--shard":
            shard = tuple(int(x) for x in a[1].split("/"))    # i/n: every n-th seed starting at i
            a = a[2:]
        else:
            a = a[1:]
    results = {}
    if os.path.exists(out):
        try:
            results = json.load(open(out))
        except Exception:  # noqa
            results = {}
    seeds = []
    committed = os.path.exists(os.path.join(root, os.listdir(root)[0], "meta.json")) if os.listdir(root) else False
    if committed:
        # the committed layout /verif/seeded/<PROP>-<X>/{patch.diff, demo/, meta.json}
        for name in sorted(os.listdir(root)):
            d = os.path.join(root, name)
            if os.path.exists(os.path.join(d, "meta.json")):
                seeds.append((name.replace("-", "/", 1), json.load(open(os.path.join(d, "meta.json")))["property"], d))
    for prop in ([] if committed else sorted(os.listdir(root))):
        pd = os.path.join(root, prop)
        if not os.path.isdir(pd):
            continue
        for x in sorted(os.listdir(pd)):
            d = os.path.join(pd, x)
            if os.path.isdir(d) and os.path.exists(os.path.join(d, "patch.diff")):
                seeds.append((prop + "/" + x, prop, d))
    env_check = dict(os.environ, VERIF_REPO=repo, VERIF_TIER="quick")
    if shard:
        seeds = [x for k, x in enumerate(seeds) if k % shard[1] == shard[0]]
    for sid, prop, d in seeds:
        if only and sid not in only:
            continue
        rec = {"property": prop, "dir": d, "validated": False}
        patch = os.path.join(d, "patch.diff")
        files = patch_files(patch)
        backup = {}
        for f in files:
            p = os.path.join(repo, f)
            backup[f] = open(p, "rb").read() if os.path.exists(p) else None
        if committed:
            meta = json.load(open(os.path.join(d, "meta.json")))
            place, cmd = meta["demonstration"]["files"] or {}, meta["demonstration"]["command"]
            demos = list(place)
        else:
            demos, place, cmd = demo_info(d)
        rec.update({"patched_files": files, "demo_files": place, "demo_cmd": cmd})

        def restore():
            for f, content in backup.items():
                p = os.path.join(repo, f)
                if content is None:
                    if os.path.exists(p):
                        os.remove(p)
                else:
                    open(p, "wb").write(content)

        def place_demo():
            for f, rel in place.items():
                dst = os.path.join(repo, rel)
                os.makedirs(os.path.dirname(dst), exist_ok=True)
                shutil.copy(os.path.join(d, "demo", f) if committed else os.path.join(d, f), dst)

        def remove_demo():
            for f, rel in place.items():
                dst = os.path.join(repo, rel)
                if os.path.exists(dst):
                    os.remove(dst)
        try:
            rc, o = sh(["git", "apply", "--whitespace=nowarn", patch], repo)
            if rc != 0:
                rc, o2 = sh(["patch", "-p1", "--no-backup-if-mismatch", "-i", patch], repo)
                o += o2
            rec["apply"] = "ok" if rc == 0 else "FAILED: " + o[-600:]
            if rc != 0:
                restore()
                results[sid] = rec
                json.dump(results, open(out, "w"), indent=1)
                continue
            if not fast:
                rc, o = sh("go build ./... && go test -count=1 ./...", repo)
                rec["suite_with_patch"] = "pass" if rc == 0 else "FAIL: " + o[-800:]
            if cmd and not fast:
                place_demo()
                rc1, o1 = sh(cmd, repo)
                rec["demo_with_patch"] = "fail" if rc1 != 0 else "PASSES(unexpected)"
                rec["demo_with_patch_tail"] = o1[-400:]
                restore()
                rc2, o2 = sh(cmd, repo)
                rec["demo_without_patch"] = "pass" if rc2 == 0 else "FAILS(unexpected): " + o2[-400:]
                remove_demo()
                rc, o = sh(["git", "apply", "--whitespace=nowarn", patch], repo)
                if rc != 0:
                    sh(["patch", "-p1", "--no-backup-if-mismatch", "-i", patch], repo)
            rec["fast"] = fast
            rec["validated"] = fast or (rec.get("suite_with_patch") == "pass" and rec.get("demo_with_patch") == "fail" and rec.get("demo_without_patch") == "pass")
            # run the checks with the patch applied
            rec["checks"] = {}
            for c in ([prop] if own else checks):
                t = time.time()
                p = subprocess.run([os.path.join(VERIF, "check"), c, "quick"], cwd=VERIF, env=env_check, stdout=subprocess.PIPE, stderr=subprocess.PIPE, text=True, timeout=3000)
                viol = [l for l in p.stdout.split("\n") if l.startswith("VIOLATION")]
                detail = ""
                for l in viol[:1]:
                    m = re.search(r"replay=(\S+)", l)
                    if m and os.path.exists(m.group(1)):
                        detail = open(m.group(1)).read()[:1200]
                rec["checks"][c] = {"rc": p.returncode, "violations": viol[:3], "secs": round(time.time() - t, 1), "stderr_tail": p.stderr[-300:] if p.returncode not in (0, 1) else "",
                                    "replay_head": detail}
                print(sid, c, p.returncode, viol[:1], flush=True)
        finally:
            restore()
            remove_demo()
        results[sid] = rec
        json.dump(results, open(out, "w"), indent=1)
    print("done")


if __name__ == "__main__":
    main()
