(* Model-side correspondence driver.  Reads the case file written by the Go
   driver (tab separated: suite, input, impl, oracle), evaluates the extracted
   Coq model on the input and prints one line per case:
     suite <TAB> model-result [<TAB> spec-result]
   Hand-written OCaml (trusted base): only parsing/printing and Z conversion. *)
open Model

(* ---------- Z conversion: decimal strings <-> extracted Z ------------ *)
let rec pos_of_int (n : int) : positive =
  if n = 1 then XH
  else if n land 1 = 0 then XO (pos_of_int (n lsr 1))
  else XI (pos_of_int (n lsr 1))

let z_of_int (n : int) : z =
  if n = 0 then Z0 else if n > 0 then Zpos (pos_of_int n) else Zneg (pos_of_int (-n))

let z10 = z_of_int 10

let z_of_string (s : string) : z =
  let neg = String.length s > 0 && s.[0] = '-' in
  let acc = ref Z0 in
  String.iteri (fun i c ->
      if i = 0 && neg then ()
      else acc := Z.add (Z.mul !acc z10) (z_of_int (Char.code c - 48))) s;
  if neg then Z.opp !acc else !acc

let rec int_of_pos (p : positive) : int =
  match p with XH -> 1 | XO q -> 2 * int_of_pos q | XI q -> 2 * int_of_pos q + 1

(* only used on small values (digits, lengths) *)
let int_of_z (x : z) : int =
  match x with Z0 -> 0 | Zpos p -> int_of_pos p | Zneg p -> - (int_of_pos p)

let string_of_z (x : z) : string =
  match x with
  | Z0 -> "0"
  | _ ->
    let neg, a = (match x with Zneg p -> true, Zpos p | _ -> false, x) in
    let buf = Buffer.create 24 in
    let rec go a acc =
      match a with
      | Z0 -> acc
      | _ -> let (q, r) = Z.div_eucl a z10 in go q (Char.chr (48 + int_of_z r) :: acc)
    in
    let ds = go a [] in
    if neg then Buffer.add_char buf '-';
    List.iter (Buffer.add_char buf) ds;
    Buffer.contents buf

let split_ws s = List.filter (fun x -> x <> "") (String.split_on_char ' ' s)
let zs_of_string s = List.map z_of_string (split_ws s)

(* ---------- bytes / hex ------------ *)
let hexdigit c = match c with
  | '0'..'9' -> Char.code c - 48 | 'a'..'f' -> Char.code c - 87 | 'A'..'F' -> Char.code c - 55
  | _ -> failwith "hex"

(* "x0aff" -> list of extracted Z bytes *)
let bytes_of_hex (s : string) : z list =
  let s = if String.length s > 0 && s.[0] = 'x' then String.sub s 1 (String.length s - 1) else s in
  let n = String.length s / 2 in
  let rec go i acc = if i < 0 then acc else go (i - 1) (z_of_int (16 * hexdigit s.[2*i] + hexdigit s.[2*i+1]) :: acc) in
  go (n - 1) []

let hex_of_bytes (l : z list) : string =
  let b = Buffer.create 64 in
  Buffer.add_char b 'x';
  List.iter (fun x -> Buffer.add_string b (Printf.sprintf "%02x" ((int_of_z x) land 255))) l;
  Buffer.contents b

let rec nat_of_int n = if n <= 0 then O else S (nat_of_int (n - 1))

(* ---------- s-expressions ------------ *)
type sx = A of string | L of sx list

let parse_sx (s : string) : sx =
  let n = String.length s in
  let p = ref 0 in
  let skip () = while !p < n && (s.[!p] = ' ' || s.[!p] = '\n') do incr p done in
  let rec rd () =
    skip ();
    if !p >= n then failwith "sx: eof";
    if s.[!p] = '(' then begin
      incr p;
      let items = ref [] in
      let fin = ref false in
      while not !fin do
        skip ();
        if !p >= n then failwith "sx: unclosed";
        if s.[!p] = ')' then (incr p; fin := true) else items := rd () :: !items
      done;
      L (List.rev !items)
    end else begin
      let st = !p in
      while !p < n && s.[!p] <> ' ' && s.[!p] <> '(' && s.[!p] <> ')' do incr p done;
      A (String.sub s st (!p - st))
    end in
  rd ()

let kind_of_string = function
  | "bool" -> KBool | "int32" -> KInt32 | "int64" -> KInt64 | "uint32" -> KUint32 | "uint64" -> KUint64
  | "sint32" -> KSint32 | "sint64" -> KSint64 | "fixed32" -> KFixed32 | "fixed64" -> KFixed64
  | "sfixed32" -> KSfixed32 | "sfixed64" -> KSfixed64 | "float" -> KFloat | "double" -> KDouble
  | "string" -> KString | "bytes" -> KBytes | k -> failwith ("kind " ^ k)

(* (schema (msg cap ap (f num type label oneof ap custom)...)...) *)
let schema_of_sx (x : sx) : mdesc list =
  let field = function
    | L [A "f"; A num; ty; A lab; A one; A ap; A cust] ->
      let fty = (match ty with
          | A "enum" -> TEnum
          | A k -> TScalar (kind_of_string k)
          | L [A "msg"; A i] -> TMsg (nat_of_int (int_of_string i))
          | L [A "mapother"] -> TMapOther
          | L [A "map"; A kk; A vk] ->
            (* map values outside the 15 scalar kinds are reported as TMap with ... *)
            TMap (kind_of_string kk, kind_of_string vk)
          | _ -> failwith "ftype") in
      { fnum = z_of_string num; fty = fty;
        flabel = (match lab with "s" -> LSingular | "o" -> LOptional | _ -> LRepeated);
        foneof = (if one = "-" then None else Some (nat_of_int (int_of_string one)));
        f_always_present = (ap = "1");
        f_custom = (match cust with "-" -> CNone | "ts" -> CTimestamp | "dur" -> CDuration | _ -> COpaque) }
    | _ -> failwith "field" in
  match x with
  | L (A "schema" :: ms) ->
    List.map (function
        | L (A "msg" :: A cap :: A ap :: fs) ->
          { mfields = List.map field fs; m_always_present = (ap = "1"); m_capture = (cap = "1") }
        | _ -> failwith "msg") ms
  | _ -> failwith "schema"

let rec val_of_sx (x : sx) : val0 =
  match x with
  | L [A "i"; A n] -> VInt (z_of_string n)
  | L [A "d"; A n] -> VDur (z_of_string n)
  | L [A "t"; A a; A b] -> VTime (z_of_string a, z_of_string b)
  | L [A "b"; A h] -> VBytes (bytes_of_hex h)
  | L [A "o"] -> VOpt None
  | L [A "o"; v] -> VOpt (Some (val_of_sx v))
  | L (A "l" :: vs) -> VList (List.map val_of_sx vs)
  | L [A "m"] -> VMsg None
  | L [A "m"; L fs; A u] -> VMsg (Some (List.map val_of_sx fs, bytes_of_hex u))
  | L [A "e"; L fs; A u] -> VEmb (List.map val_of_sx fs, bytes_of_hex u)
  | L (A "p" :: es) -> VMap (List.map (function L [k; v] -> (val_of_sx k, val_of_sx v) | _ -> failwith "entry") es)
  | _ -> failwith "val"

let z_lt a b = Z.ltb a b

let rec string_of_val (v : val0) : string =
  match v with
  | VInt z -> "(i " ^ string_of_z z ^ ")"
  | VDur z -> "(d " ^ string_of_z z ^ ")"
  | VTime (a, b) -> "(t " ^ string_of_z a ^ " " ^ string_of_z b ^ ")"
  | VBytes b -> "(b " ^ hex_of_bytes b ^ ")"
  | VOpt None -> "(o)"
  | VOpt (Some x) -> "(o " ^ string_of_val x ^ ")"
  | VList l -> "(l" ^ String.concat "" (List.map (fun x -> " " ^ string_of_val x) l) ^ ")"
  | VMsg None -> "(m)"
  | VMsg (Some (fs, u)) -> "(m (" ^ String.concat " " (List.map string_of_val fs) ^ ") " ^ hex_of_bytes u ^ ")"
  | VEmb (fs, u) -> "(e (" ^ String.concat " " (List.map string_of_val fs) ^ ") " ^ hex_of_bytes u ^ ")"
  | VMap es ->
    (* canonical form: sorted by key (integers numerically, byte strings lexicographically) *)
    let key_lt a b = (match a, b with
        | VInt x, VInt y -> z_lt x y
        | VBytes x, VBytes y -> (List.map int_of_z x) < (List.map int_of_z y)
        | _ -> false) in
    let sorted = List.stable_sort (fun (a, _) (b, _) -> if key_lt a b then -1 else if key_lt b a then 1 else 0) es in
    "(p" ^ String.concat "" (List.map (fun (k, v) -> " (" ^ string_of_val k ^ " " ^ string_of_val v ^ ")") sorted) ^ ")"

let string_of_ecls = function
  | EWire -> "wire" | EParse -> "parse" | EAdvance -> "advance" | ETag -> "tag" | EFieldNum -> "fieldnum"
  | ECustom -> "custom" | EStack -> "stack"

(* schemas seen so far: name -> (schema, programs) *)
let schemas : (string, (mdesc list * prog list option)) Hashtbl.t = Hashtbl.create 16

let split_ref (r : string) : string * int =
  let i = String.rindex r ':' in
  (String.sub r 0 i, int_of_string (String.sub r (i + 1) (String.length r - i - 1)))

let lookup (r : string) =
  let (name, idx) = split_ref r in
  let (s, p) = Hashtbl.find schemas name in
  (s, p, nat_of_int idx)

(* ---------- suites ------------ *)
let do_bitset (input : string) : string =
  let xs = zs_of_string input in
  let (bs, p) = mx_bitset_run xs in
  let b = Buffer.create 16 in
  List.iter (fun x -> Buffer.add_char b (if x then '1' else '0')) bs;
  if p then Buffer.add_char b 'P';
  Buffer.contents b

let do_fnstr (input : string) : string =
  match mx_fn_string (z_of_string input) with
  | Panic -> "PANIC"
  | Ok l -> hex_of_bytes l

let do_schema name sx =
  let s = schema_of_sx (parse_sx sx) in
  let p = (match mx_gen_all s with GOk p -> Some p | GError _ -> None) in
  Hashtbl.replace schemas name (s, p);
  (match mx_gen_all s with GOk _ -> "ok" | GError r -> "generror:" ^ string_of_int (let rec n = function O -> 0 | S k -> 1 + n k in n r))
  ^ "\ttdec=" ^ (if mx_tdec_applies s then "yes" else "no") ^ "\trt=" ^ (if mx_rt_applies s then "yes" else "no")

(* msg: typeref gotype val implbytes flags detail refbytes
   -> pico=<model Marshal bytes|PANIC> ref=<ref_encode (norm v)> rt=<model unmarshal of model bytes> refdec=<ref_decode of model bytes> norm=<norm v> *)
let do_msg tref vs =
  let (s, p, idx) = lookup tref in
  match p with
  | None -> "nogen"
  | Some _ when String.length vs > 1500000 ->
    (* payloads of 2 MiB and more (the four-byte length class): compared with the reference implementation only *)
    "pico=skipped"
  | Some progs ->
    let v = val_of_sx (parse_sx vs) in
    let nv = mx_norm s idx v in
    let pico = mx_marshal progs idx v in
    let refb = mx_ref_encode s idx nv in
    let zero = mx_zero progs idx in
    let (pico_s, rt_s, refdec_s) = (match pico with
        | Panic -> ("PANIC", "-", "-")
        | Ok b ->
          let (e, m) = mx_unmarshal progs idx b zero in
          let rt = (match e with None -> string_of_val m | Some (f, c) -> "err:" ^ string_of_z f ^ ":" ^ string_of_ecls c) in
          let rd = (match mx_ref_decode s idx b zero with Some m -> string_of_val m | None -> "reject") in
          (hex_of_bytes b, rt, rd)) in
    let wf = if mx_msg_ok progs idx v then "1" else "0" in
    let rtok = if mx_rt_applies_at s idx && mx_rt_ok s idx v then "1" else "0" in
    String.concat "\t" ["pico=" ^ pico_s; "ref=" ^ hex_of_bytes refb; "rt=" ^ rt_s; "refdec=" ^ refdec_s; "norm=" ^ string_of_val nv; "wfmsg=" ^ wf; "rtok=" ^ rtok]

(* dec: typeref gotype hexdata ... -> st=<ok|err:f:cls> val=<..> ref=<val|reject> *)
let do_dec tref hx =
  let (s, p, idx) = lookup tref in
  match p with
  | None -> "nogen"
  | Some _ when String.length hx > 60000 && Sys.getenv_opt "VERIF_MODEL_BIG" = None ->
    (* list-based model is quadratic on very long inputs: evaluated in the thorough tier only *)
    "st=skipped"
  | Some _ when String.length hx > 400000 ->
    (* inputs of 200 KB and more (200 000 unknown fields): the list model needs minutes and gigabytes for each (a capturing
       message even 4 * 10^10 steps), the implementation milliseconds; compared with the reference implementation only, in every tier *)
    "st=skipped"
  | Some progs ->
    let b = bytes_of_hex hx in
    let zero = mx_zero progs idx in
    let (e, m) = mx_unmarshal progs idx b zero in
    let st = (match e with None -> "ok" | Some (f, c) -> "err:" ^ string_of_z f ^ ":" ^ string_of_ecls c) in
    let rd = (match mx_ref_decode s idx b zero with Some m -> string_of_val m | None -> "reject") in
    String.concat "\t" ["st=" ^ st; "val=" ^ string_of_val m; "ref=" ^ rd]

(* hist: typeref gotype x<a>,x<b>,... -> seq=<st> seqval=<v> one=<st> oneval=<v> ref=<v|reject> *)
let do_hist tref chunks =
  let (s, p, idx) = lookup tref in
  match p with
  | None -> "nogen"
  | Some progs ->
    let cs = List.map bytes_of_hex (String.split_on_char ',' chunks) in
    let zero = mx_zero progs idx in
    let st_s e = (match e with None -> "ok" | Some (f, c) -> "err:" ^ string_of_z f ^ ":" ^ string_of_ecls c) in
    let (se, sv) = List.fold_left (fun (e, m) c ->
        match e with
        | Some _ -> (e, m)
        | None -> mx_unmarshal progs idx c m) (None, zero) cs in
    let all = List.concat cs in
    let (oe, ov) = mx_unmarshal progs idx all zero in
    let rd = (match mx_ref_decode s idx all zero with Some m -> string_of_val m | None -> "reject") in
    String.concat "\t" ["seq=" ^ st_s se; "seqval=" ^ string_of_val sv; "one=" ^ st_s oe; "oneval=" ^ string_of_val ov; "ref=" ^ rd]

let vals_of_string (s : string) : val0 list =
  match val_of_sx (parse_sx s) with VList l -> l | _ -> failwith "vals"

let do_writer k always rep num vs =
  if k = "enum" then (match mx_writer_enum (z_of_string num) (vals_of_string vs) with Panic -> "PANIC" | Ok b -> hex_of_bytes b) else
  match mx_writer (kind_of_string k) (always = "1") (rep = "1") (z_of_string num) (vals_of_string vs) with
  | Panic -> "PANIC"
  | Ok b -> hex_of_bytes b

(* eprog: (prog <call>...) with calls (s kind always rep field (l vals)) (en field int...) (m field ok call...) (am ..) (pm ..)
   (ab field call...) (u xHEX)  ->  pico=<hex|PANIC> spec=<hex> ok=<0|1> *)
let rec call_of_sx (x : sx) : ecall =
  match x with
  | L [A "s"; A k; A a; A r; A f; L (A "l" :: vs)] -> CScalar (kind_of_string k, a = "1", r = "1", z_of_string f, List.map val_of_sx vs)
  | L (A "en" :: A f :: vs) -> CRepEnum (z_of_string f, List.map (function A n -> z_of_string n | _ -> failwith "en") vs)
  | L (A "m" :: A f :: A ok :: cs) -> CMessage (z_of_string f, List.map call_of_sx cs, ok = "1")
  | L (A "am" :: A f :: A ok :: cs) -> CAlwaysMessage (z_of_string f, List.map call_of_sx cs, ok = "1")
  | L (A "pm" :: A f :: A ok :: cs) -> CPresentMessage (z_of_string f, List.map call_of_sx cs, ok = "1")
  | L (A "ab" :: A f :: cs) -> CAlwaysAnyBytes (z_of_string f, List.map call_of_sx cs)
  | L [A "u"; A h] -> CUnrec (bytes_of_hex h)
  | _ -> failwith "call"
let do_eprog p =
  let cs = (match parse_sx p with L (A "prog" :: cs) -> List.map call_of_sx cs | _ -> failwith "prog") in
  "pico=" ^ (match mx_run_calls cs with Panic -> "PANIC" | Ok b -> hex_of_bytes b) ^ " spec=" ^ hex_of_bytes (mx_spec_calls cs) ^
  " ok=" ^ (if mx_calls_ok cs then "1" else "0")

let do_reader k rep field data init =
  let k = if k = "enum" then "int32" else k in   (* RepeatedEnum: the element is int32(x) *)
  let ((((pf, pw), rem), e), vs) = mx_reader (kind_of_string k) (rep = "1") (z_of_string field) (bytes_of_hex data) (vals_of_string init) in
  let es = (match e with None -> "-" | Some (f, c) -> string_of_z f ^ ":" ^ string_of_ecls c) in
  let pw = (match pf with Zneg _ -> Z0 | _ -> pw) in
  "pf=" ^ string_of_z pf ^ " pw=" ^ string_of_z pw ^ " rem=" ^ string_of_z rem ^ " err=" ^ es ^ " val=" ^ string_of_val (VList vs)

let do_nested_reader k rep field data init wrap =
  let ((((pf, rem), e), vs), ((pf2, rem2), e2)) = mx_nested_reader (kind_of_string k) (rep = "1") (z_of_string field) (bytes_of_hex data) (vals_of_string init) (z_of_string wrap) in
  let es x = (match x with None -> "-" | Some (f, c) -> string_of_z f ^ ":" ^ string_of_ecls c) in
  "pf=" ^ string_of_z pf ^ " rem=" ^ string_of_z rem ^ " err=" ^ es e ^ " val=" ^ string_of_val (VList vs) ^
  " pf2=" ^ string_of_z pf2 ^ " rem2=" ^ string_of_z rem2 ^ " err2=" ^ es e2

let res_hex = function Panic -> "PANIC" | Ok b -> hex_of_bytes b

(* programs of the generator model in the T-pico text format *)
let string_of_kind = function
  | KBool -> "bool" | KInt32 -> "int32" | KInt64 -> "int64" | KUint32 -> "uint32" | KUint64 -> "uint64"
  | KSint32 -> "sint32" | KSint64 -> "sint64" | KFixed32 -> "fixed32" | KFixed64 -> "fixed64"
  | KSfixed32 -> "sfixed32" | KSfixed64 -> "sfixed64" | KFloat -> "float" | KDouble -> "double"
  | KString -> "string" | KBytes -> "bytes"
let b01 b = if b then "1" else "0"
let string_of_cast = function
  | CastTs -> "ts" | CastDur -> "dur" | CastMap (kk, vk) -> "map:" ^ string_of_kind kk ^ ":" ^ string_of_kind vk
let rec string_of_eop = function
  | EScalar (k, a, r, p, _, n) -> "(escalar " ^ string_of_kind k ^ " " ^ b01 a ^ " " ^ b01 r ^ " " ^ b01 p ^ " " ^ string_of_z n ^ ")"
  | EMsgPtr (_, n, _) -> "(emsgptr " ^ string_of_z n ^ ")"
  | EMsgRepPtr (_, n, _) -> "(emsgrepptr " ^ string_of_z n ^ ")"
  | EMsgPresent (_, n, _) -> "(emsgpresent " ^ string_of_z n ^ ")"
  | EMsgRepVal (_, n, _) -> "(emsgrepval " ^ string_of_z n ^ ")"
  | EMsgAlwaysVal (_, n, _) -> "(emsgalwaysval " ^ string_of_z n ^ ")"
  | EEnum (a, _, n) -> "(eenum " ^ b01 a ^ " " ^ string_of_z n ^ ")"
  | ERepEnum (_, n) -> "(erepenum " ^ string_of_z n ^ ")"
  | ECast (c, p, r, _, n) -> "(ecast " ^ string_of_cast c ^ " " ^ b01 p ^ " " ^ b01 r ^ " " ^ string_of_z n ^ ")"
  | EOpaque (_, n) -> "(eopaque " ^ string_of_z n ^ ")"
  | EOneof (_, i) -> "(eoneof " ^ string_of_eop i ^ ")"
  | EUnrec -> "(eunrec)"
let rec string_of_dop = function
  | DScalar (k, r, p, _, n) -> "(dscalar " ^ string_of_kind k ^ " " ^ b01 r ^ " " ^ b01 p ^ " " ^ string_of_z n ^ ")"
  | DMsgPtr (_, n, _) -> "(dmsgptr " ^ string_of_z n ^ ")"
  | DMsgRepPtr (_, n, _) -> "(dmsgrepptr " ^ string_of_z n ^ ")"
  | DMsgPresent (_, n, _) -> "(dmsgpresent " ^ string_of_z n ^ ")"
  | DMsgRepVal (_, n, _) -> "(dmsgrepval " ^ string_of_z n ^ ")"
  | DEnum (_, n) -> "(denum " ^ string_of_z n ^ ")"
  | DRepEnum (_, n) -> "(drepenum " ^ string_of_z n ^ ")"
  | DCast (c, p, r, _, n) -> "(dcast " ^ string_of_cast c ^ " " ^ b01 p ^ " " ^ b01 r ^ " " ^ string_of_z n ^ ")"
  | DOpaque (_, n) -> "(dopaque " ^ string_of_z n ^ ")"
  | DOneof (_, n, _, i) -> "(doneof " ^ string_of_z n ^ " " ^ string_of_dop i ^ ")"
  | DUnrec m -> "(dunrec " ^ string_of_z m ^ ")"
let concat_ops tag l = if l = [] then "(" ^ tag ^ ")" else "(" ^ tag ^ " " ^ String.concat " " l ^ ")"

(* progs <schema name> -> one "enc|dec" pair per message, separated by ';;' *)
let do_progs name =
  let (_, p) = Hashtbl.find schemas name in
  match p with
  | None -> "nogen"
  | Some progs ->
    String.concat ";;" (List.map (fun pr ->
        concat_ops "enc" (List.map string_of_eop pr.p_enc) ^ "|" ^ concat_ops "dec" (List.map string_of_dop pr.p_dec)) progs)

let dispatch suite cols =
  match suite, cols with
  | "bitset", input :: _ -> do_bitset input
  | "fnstr", input :: _ -> do_fnstr input
  | "schema", name :: sx :: _ -> do_schema name sx
  | "msg", tref :: _ :: v :: _ -> do_msg tref v
  | "dec", tref :: _ :: hx :: _ -> do_dec tref hx
  | "hist", tref :: _ :: cs :: _ -> do_hist tref cs
  | "progs", name :: _ -> do_progs name
  | "writer", k :: a :: r :: num :: vs :: _ -> do_writer k a r num vs
  | "eprog", p :: _ -> do_eprog p
  | "reader", k :: r :: f :: data :: init :: _ -> do_reader k r f data init
  | "nreader", k :: r :: f :: data :: init :: wrap :: _ -> do_nested_reader k r f data init wrap
  | "durdec", s :: n :: _ -> string_of_z (mx_dur_join (z_of_string s) (z_of_string n))
  | "tsdec", s :: n :: _ -> let (a, b) = mx_time_unix (z_of_string s) (z_of_string n) in string_of_z a ^ " " ^ string_of_z b
  | "durenc", d :: _ -> res_hex (mx_enc_duration (z_of_string d))
  | "tsenc", s :: n :: _ -> res_hex (mx_enc_timestamp (z_of_string s) (z_of_string n))
  | _ -> "?unknown-suite"

let () =
  let ic = if Array.length Sys.argv > 1 then open_in Sys.argv.(1) else stdin in
  (try
     while true do
       let line = input_line ic in
       match String.split_on_char '\t' line with
       | suite :: rest ->
         let r = (try dispatch suite rest with e -> "?exn:" ^ Printexc.to_string e) in
         print_string suite; print_char '\t'; print_string r; print_char '\n'
       | [] -> print_string "?\n"
     done
   with End_of_file -> ());
  flush stdout
