(* Model-side correspondence driver.  Reads the case file written by the Go
   driver (tab separated: suite, input, impl, oracle), evaluates the extracted
   Coq model on the input and prints one line per case:
     suite <TAB> model-result [<TAB> spec-result]
   Hand-written OCaml (trusted base): only parsing/printing and Z conversion. *)
open Model

(* ---------- Z conversion: decimal strings <-> extracted Z ------------ *)
let rec pos_of_int (n : int) : positive =
  if n = 1 then XH
  else if n land 1 = 0 then XO (pos_of_int (n lsr 1))
  else XI (pos_of_int (n lsr 1))

let z_of_int (n : int) : z =
  if n = 0 then Z0 else if n > 0 then Zpos (pos_of_int n) else Zneg (pos_of_int (-n))

let z10 = z_of_int 10

let z_of_string (s : string) : z =
  let neg = String.length s > 0 && s.[0] = '-' in
  let acc = ref Z0 in
  String.iteri (fun i c ->
      if i = 0 && neg then ()
      else acc := Z.add (Z.mul !acc z10) (z_of_int (Char.code c - 48))) s;
  if neg then Z.opp !acc else !acc

let rec int_of_pos (p : positive) : int =
  match p with XH -> 1 | XO q -> 2 * int_of_pos q | XI q -> 2 * int_of_pos q + 1

(* only used on small values (digits, lengths) *)
let int_of_z (x : z) : int =
  match x with Z0 -> 0 | Zpos p -> int_of_pos p | Zneg p -> - (int_of_pos p)

let string_of_z (x : z) : string =
  match x with
  | Z0 -> "0"
  | _ ->
    let neg, a = (match x with Zneg p -> true, Zpos p | _ -> false, x) in
    let buf = Buffer.create 24 in
    let rec go a acc =
      match a with
      | Z0 -> acc
      | _ -> let (q, r) = Z.div_eucl a z10 in go q (Char.chr (48 + int_of_z r) :: acc)
    in
    let ds = go a [] in
    if neg then Buffer.add_char buf '-';
    List.iter (Buffer.add_char buf) ds;
    Buffer.contents buf

let split_ws s = List.filter (fun x -> x <> "") (String.split_on_char ' ' s)
let zs_of_string s = List.map z_of_string (split_ws s)

(* ---------- suites ------------ *)
let do_bitset (input : string) : string =
  let xs = zs_of_string input in
  let (bs, p) = mx_bitset_run xs in
  let b = Buffer.create 16 in
  List.iter (fun x -> Buffer.add_char b (if x then '1' else '0')) bs;
  if p then Buffer.add_char b 'P';
  Buffer.contents b

let dispatch suite cols =
  match suite, cols with
  | "bitset", input :: _ -> do_bitset input
  | _ -> "?unknown-suite"

let () =
  let ic = if Array.length Sys.argv > 1 then open_in Sys.argv.(1) else stdin in
  (try
     while true do
       let line = input_line ic in
       match String.split_on_char '\t' line with
       | suite :: rest ->
         let r = (try dispatch suite rest with e -> "?exn:" ^ Printexc.to_string e) in
         print_string suite; print_char '\t'; print_string r; print_char '\n'
       | [] -> print_string "?\n"
     done
   with End_of_file -> ());
  flush stdout
