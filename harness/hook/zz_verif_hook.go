//go:build verif

package picobuf

// Accessors for the /verif correspondence harness (injected with `go build
// -overlay`, never part of the repository). Add-only: nothing existing is changed.

// VerifInit performs the initial nextField(0) that Loop does on first use.
func (dec *Decoder) VerifInit() {
	if !dec.init {
		dec.nextField(0)
		dec.init = true
	}
}

// VerifState exposes the cursor: pending field, pending wire type, remaining bytes.
func (dec *Decoder) VerifState() (int32, int8, int) {
	return int32(dec.pendingField), int8(dec.pendingWire), len(dec.buffer)
}

// VerifErrField returns (field, message) of the decoder error, ok=false if none.
func (dec *Decoder) VerifErrField() (int32, string, bool) {
	if dec.err == nil {
		return 0, "", false
	}
	if pe, ok := dec.err.(parseError); ok {
		return int32(pe.field), pe.message, true
	}
	return 0, dec.err.Error(), true
}

// VerifZigZag32 exposes the unexported conv.go transforms.
func VerifEncodeZigZag32(v int32) uint32 { return encodeZigZag32(v) }
func VerifDecodeZigZag32(v uint32) int32 { return decodeZigZag32(v) }

// VerifFieldString is FieldNumber.String.
func VerifFieldString(f int32) string { return FieldNumber(f).String() }
