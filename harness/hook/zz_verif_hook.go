//go:build verif

package picobuf

// Accessors for the /verif correspondence harness (injected with `go build
// -overlay`, never part of the repository). Add-only: nothing existing is changed.

// VerifInit performs the initial nextField(0) that Loop does on first use.
func (dec *Decoder) VerifInit() {
	if !dec.init {
		dec.nextField(0)
		dec.init = true
	}
}

// VerifState exposes the cursor: pending field, pending wire type, remaining bytes.
func (dec *Decoder) VerifState() (int32, int8, int) {
	return int32(dec.pendingField), int8(dec.pendingWire), len(dec.buffer)
}

// VerifErrField returns (field, message) of the decoder error, ok=false if none.
func (dec *Decoder) VerifErrField() (int32, string, bool) {
	if dec.err == nil {
		return 0, "", false
	}
	// read the public text "failed while parsing <field>: <message>" rather than the error's representation, which
	// a harmless rewrite (pointer receiver, another struct) may change
	text := dec.err.Error()
	const prefix = "failed while parsing "
	if len(text) > len(prefix) && text[:len(prefix)] == prefix {
		rest := text[len(prefix):]
		for i := 0; i < len(rest); i++ {
			if rest[i] == ':' {
				n, neg, ok := int64(0), false, i > 0
				for j := 0; j < i && ok; j++ {
					switch {
					case j == 0 && rest[j] == '-' && i > 1:
						neg = true
					case rest[j] >= '0' && rest[j] <= '9':
						n = n*10 + int64(rest[j]-'0')
					default:
						ok = false
					}
				}
				if ok {
					if neg {
						n = -n
					}
					msg := rest[i+1:]
					if len(msg) > 0 && msg[0] == ' ' {
						msg = msg[1:]
					}
					return int32(n), msg, true
				}
				break
			}
		}
	}
	return 0, text, true
}

// VerifFieldString is FieldNumber.String.
func VerifFieldString(f int32) string { return FieldNumber(f).String() }
