//go:build verif

package main

import "math/big"

// norm applies the "by design" absences (DESIGN.md 3.1): a pointer to a zero
// time.Time comes back nil, zero/nil time elements of a repeated cast field are
// dropped, a nil element of a repeated message slice comes back as an empty
// message. nil vs empty slices/maps/bytes are already identified by Val.
var zeroTimeSec = big.NewInt(-62135596800)

func isZeroTime(v *Val) bool { return v.T == 't' && v.I.Cmp(zeroTimeSec) == 0 && v.I2.Sign() == 0 }

func normVal(v *Val, sh *Shape) *Val {
	switch sh.T {
	case 'o':
		if !v.Some {
			return v
		}
		if isZeroTime(v.L[0]) {
			return vNone()
		}
		return vSome(normVal(v.L[0], sh.Elem))
	case 'l':
		out := &Val{T: 'l'}
		for _, e := range v.L {
			switch {
			case sh.Elem.T == 't' && isZeroTime(e):
				continue
			case sh.Elem.T == 'o' && sh.Elem.Elem.T == 't' && (!e.Some || isZeroTime(e.L[0])):
				continue
			case sh.Elem.T == 'o' && sh.Elem.Elem.T == 'd' && !e.Some:
				continue
			case sh.Elem.T == 'm' && !e.Some:
				out.L = append(out.L, zeroMsg(sh.Elem.TI, 'm'))
			default:
				out.L = append(out.L, normVal(e, sh.Elem))
			}
		}
		return out
	case 'm':
		if !v.Some {
			return v
		}
		return normMsg(v, sh.TI)
	case 'e':
		return normMsg(v, sh.TI)
	}
	return v
}

func normMsg(v *Val, ti *TypeInfo) *Val {
	out := &Val{T: v.T, Some: true, U: v.U}
	for i, e := range v.L {
		out.L = append(out.L, normVal(e, ti.Shapes[i]))
	}
	return out
}

// quietNaN32: protobuf-go's reflection API stores float32 values as float64, which
// sets the quiet bit of a signalling NaN. For comparisons against the reference
// implementation (and only there) float32 signalling NaNs are mapped to their
// quiet form. picobuf's own round trip is compared bit for bit.
func quietForOracle(v *Val, sh *Shape) *Val {
	switch sh.T {
	case 'i':
		if sh.K == KFloat {
			b := uint32(v.I.Uint64())
			if b&0x7f800000 == 0x7f800000 && b&0x007fffff != 0 {
				return vUint(uint64(b | 0x00400000))
			}
		}
		return v
	case 'o':
		if !v.Some {
			return v
		}
		return vSome(quietForOracle(v.L[0], sh.Elem))
	case 'l':
		out := &Val{T: 'l'}
		for _, e := range v.L {
			out.L = append(out.L, quietForOracle(e, sh.Elem))
		}
		return out
	case 'p':
		out := &Val{T: 'p'}
		for i := 0; i+1 < len(v.L); i += 2 {
			out.L = append(out.L, v.L[i], quietForOracle(v.L[i+1], sh.Elem))
		}
		return out
	case 'm', 'e':
		if sh.T == 'm' && !v.Some {
			return v
		}
		return quietMsg(v, sh.TI)
	}
	return v
}

func quietMsg(v *Val, ti *TypeInfo) *Val {
	out := &Val{T: v.T, Some: true, U: v.U}
	for i, e := range v.L {
		out.L = append(out.L, quietForOracle(e, ti.Shapes[i]))
	}
	return out
}
