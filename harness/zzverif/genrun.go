//go:build verif

package main

import (
	"bufio"
	"fmt"
	"os"
	"path/filepath"
	"strings"

	"google.golang.org/protobuf/reflect/protodesc"
	"google.golang.org/protobuf/types/descriptorpb"
	"google.golang.org/protobuf/types/known/durationpb"
	"google.golang.org/protobuf/types/known/emptypb"
	"google.golang.org/protobuf/types/known/timestamppb"

	"storj.io/picobuf/internal/zzverif/protoparse"
)

// wellKnown: descriptors of the well-known files a schema may import (as protoc would supply them)
func wellKnown() []*descriptorpb.FileDescriptorProto {
	return []*descriptorpb.FileDescriptorProto{
		protodesc.ToFileDescriptorProto(emptypb.File_google_protobuf_empty_proto),
		protodesc.ToFileDescriptorProto(timestamppb.File_google_protobuf_timestamp_proto),
		protodesc.ToFileDescriptorProto(durationpb.File_google_protobuf_duration_proto),
	}
}

// genrun <plugin> <outdir> <params> <proto path>=<recorded name>...
// Runs the repository's protoc-gen-pico (built from the working tree) on descriptors
// parsed from the given .proto files and writes the generated files below outdir.
// One line per proto: genrun <name> ok <files> | error <text>
func init() {
	// schema-of <proto>=<name>...: the schema s-expression (for the model) and Go type names, without running the plugin
	register("schema-of", func(args []string, out *bufio.Writer) error {
		picoFD, err := protoparse.ParseFile(filepath.Join(repoRoot(), "pico.proto"), "pico.proto")
		if err != nil {
			return fmt.Errorf("pico.proto: %v", err)
		}
		for _, spec := range args {
			i := strings.LastIndexByte(spec, '=')
			path, name := spec[:i], spec[i+1:]
			if !filepath.IsAbs(path) {
				path = filepath.Join(repoRoot(), path)
			}
			fd, err := protoparse.ParseFileWithDeps(path, name, append([]*descriptorpb.FileDescriptorProto{picoFD}, wellKnown()...)...)
			if err != nil {
				fmt.Fprintf(out, "schemaerror\t%s\t%s\n", name, oneLine(err.Error()))
				continue
			}
			s, err := buildSchema(fd)
			if err != nil {
				fmt.Fprintf(out, "schemaerror\t%s\t%s\n", name, oneLine(err.Error()))
				continue
			}
			fmt.Fprintf(out, "schema\t%s\t%s\n", name, s.sexp())
			names := []string{}
			for _, m := range s.Msgs {
				names = append(names, m.GoName)
			}
			fmt.Fprintf(out, "progs\t%s\t%s\n", name, strings.Join(names, ","))
		}
		return nil
	})
	register("genrun", func(args []string, out *bufio.Writer) error {
		if len(args) < 4 {
			return fmt.Errorf("usage: genrun <plugin> <outdir> <params> <proto>=<name>...")
		}
		plugin, outdir, params := args[0], args[1], args[2]
		picoFD, err := protoparse.ParseFile(filepath.Join(repoRoot(), "pico.proto"), "pico.proto")
		if err != nil {
			return fmt.Errorf("pico.proto: %v", err)
		}
		for _, spec := range args[3:] {
			i := strings.LastIndexByte(spec, '=')
			if i < 0 {
				return fmt.Errorf("bad spec %q", spec)
			}
			path, name := spec[:i], spec[i+1:]
			res := func() string {
				fd, err := protoparse.ParseFileWithDeps(path, name, append([]*descriptorpb.FileDescriptorProto{picoFD}, wellKnown()...)...)
				if err != nil {
					return "error\tparse: " + oneLine(err.Error())
				}
				files := []*descriptorpb.FileDescriptorProto{protoparse.DescriptorProtoFile(), picoFD}
				for _, wk := range wellKnown() {
					for _, d := range fd.GetDependency() {
						if d == wk.GetName() {
							files = append(files, wk)
						}
					}
				}
				req := protoparse.NewRequest(append(files, fd), []string{name}, params)
				resp, err := protoparse.RunPlugin(plugin, req)
				if err != nil {
					return "error\tplugin: " + oneLine(err.Error())
				}
				if resp.GetError() != "" {
					return "error\tplugin-reported: " + oneLine(resp.GetError())
				}
				var names []string
				for _, f := range resp.File {
					p := filepath.Join(outdir, f.GetName())
					if err := os.MkdirAll(filepath.Dir(p), 0o755); err != nil {
						return "error\t" + oneLine(err.Error())
					}
					if err := os.WriteFile(p, []byte(f.GetContent()), 0o644); err != nil {
						return "error\t" + oneLine(err.Error())
					}
					names = append(names, f.GetName())
				}
				return "ok\t" + strings.Join(names, ",")
			}()
			fmt.Fprintf(out, "genrun\t%s\t%s\n", name, res)
		}
		return nil
	})
}
