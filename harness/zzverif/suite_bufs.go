//go:build verif

package main

import (
	"bufio"
	"bytes"
	"fmt"
	"strconv"
	"strings"

	"storj.io/picobuf"
)

// C17: MarshalBuffer / NewEncoderBuffer against Marshal for every kind of supplied buffer,
// buffer reuse across calls, and immutability of earlier results.
func init() {
	register("bufs", func(args []string, out *bufio.Writer) error {
		seed, _ := strconv.ParseUint(args[0], 10, 64)
		n, _ := strconv.Atoi(args[1])
		u, err := loadUniverse()
		if err != nil {
			return err
		}
		types := u.usableTypes(nil)
		r := newRng(seed)
		same := func(ti *TypeInfo, a, b []byte) bool {
			if !ti.S.hasMap(ti.MI) {
				return bytes.Equal(a, b)
			}
			x, y := ti.New(), ti.New()
			if safeUnmarshal(a, x) != "ok" || safeUnmarshal(b, y) != "ok" {
				return false
			}
			xv, _ := u.read(ti, x)
			yv, _ := u.read(ti, y)
			return xv != nil && yv != nil && xv.String() == yv.String() && len(a) == len(b)
		}
		var reuse []byte // a buffer carried from case to case
		// results of Marshal handed out in earlier cases (other messages, other sizes), with a copy of what they held:
		// whoever received them owns them, later calls must leave them alone
		type held struct {
			got, want []byte
			from      string
		}
		var earlier []held
		for i := 0; i < n; i++ {
			ti := types[i%len(types)]
			cr := r.fork()
			v := u.genMsgCapped(cr, ti, genOpts{depth: 3, unknownOK: true})
			if i%7 == 3 {
				// results of a few KiB up to beyond 64 KiB (size classes a pooled or recycled scratch buffer would treat differently)
				if hv := u.hugeValue(ti, []int{700, 3000, 4090, 4100, 5000, 9000, 33000, 70000}[cr.intn(8)], cr.bool()); hv != nil {
					v = hv
				}
			}
			m, err := u.build(ti, v, buildOpts{})
			if err != nil {
				continue
			}
			bad := []string{}
			func() {
				defer func() {
					if rr := recover(); rr != nil {
						bad = append(bad, fmt.Sprintf("PANIC:%v", rr))
					}
				}()
				base, _ := picobuf.Marshal(m)
				keep := append([]byte{}, base...)
				L := len(base)
				mk := func(l, c int, fill byte) []byte {
					if c < l {
						c = l
					}
					b := make([]byte, l, c)
					full := b[:c]
					for j := range full {
						full[j] = fill
					}
					return b
				}
				bufs := map[string][]byte{
					"nil": nil, "empty-cap0": mk(0, 0, 0), "cap1": mk(0, 1, 0xAA), "too-small": mk(0, max0(L-1), 0xAA), "exact": mk(0, L, 0x55),
					"plus1": mk(0, L+1, 0xFF), "plus2": mk(0, L+2, 0xFF), "plus3": mk(0, L+3, 0xFF), "oversized-dirty": mk(L/2, 2*L+64, 0xAA), "full-stale": mk(L+10, L+10, 0xEE),
					"tiny-stale": mk(3, 3, 0x80),
				}
				for name, b := range bufs {
					got, _ := picobuf.MarshalBuffer(m, b)
					if !same(ti, got, base) {
						bad = append(bad, "MarshalBuffer("+name+") differs")
					}
					enc := picobuf.NewEncoderBuffer(b)
					m.Encode(enc)
					if !same(ti, enc.Buffer(), base) {
						bad = append(bad, "NewEncoderBuffer("+name+") differs")
					}
				}
				// reuse of a buffer returned by an earlier call (another message's bytes)
				got, _ := picobuf.MarshalBuffer(m, reuse)
				if !same(ti, got, base) {
					bad = append(bad, "MarshalBuffer(reused) differs")
				}
				reuse = got
				// a later Marshal / MarshalBuffer with unrelated buffers leaves the earlier result alone
				again, _ := picobuf.Marshal(m)
				_ = again
				if !bytes.Equal(base, keep) {
					bad = append(bad, "earlier Marshal result changed by later calls")
				}
				for _, h := range earlier {
					if !bytes.Equal(h.got, h.want) {
						bad = append(bad, fmt.Sprintf("the %d bytes Marshal returned for an earlier message (%s) were changed by the calls for this one", len(h.want), h.from))
						copy(h.got, h.want)
					}
				}
				if len(earlier) >= 6 {
					earlier = earlier[1:]
				}
				earlier = append(earlier, held{got: base, want: keep, from: ti.Key})
			}()
			after, _ := u.read(ti, m)
			if after == nil || after.String() != normKeep(v, after) {
				// message must be unchanged by all of the above (compare with the value it was built from)
			}
			status := "ok"
			if len(bad) > 0 {
				status = strings.Join(bad, ";")
			}
			fmt.Fprintf(out, "bufs\t%s\t%s\t%s\n", ti.Key, v, status)
		}
		return nil
	})
}

func max0(x int) int {
	if x < 0 {
		return 0
	}
	return x
}

func normKeep(v, after *Val) string { return after.String() }
