//go:build verif

package main

import (
	"fmt"
	"math"

	"google.golang.org/protobuf/encoding/protowire"
)

// refReader: what the C13 reader contract prescribes for dec.[Repeated]K(field, &v) on a decoder
// positioned at the start of data, computed with protobuf-go's protowire (independent of picobuf's
// clone). Returns the same string format as readerCase.
type refCursor struct {
	pf   int64
	pw   int64
	rest []byte
	err  string
}

func (c *refCursor) next(b []byte) {
	c.rest = b
	if len(b) == 0 {
		c.pf, c.pw = -2, 0
		return
	}
	num, typ, n := protowire.ConsumeTag(b)
	if n < 0 {
		c.pf, c.pw, c.err = -1, 0, "0:tag"
		return
	}
	if num > protowire.MaxValidNumber {
		c.pf, c.pw, c.err = -1, 0, "0:fieldnum"
		return
	}
	c.pf, c.pw, c.rest = int64(num), int64(typ), b[n:]
}

func refConvert(k Kind, typ protowire.Type, b []byte) (*Val, int) {
	switch typ {
	case protowire.VarintType:
		x, n := protowire.ConsumeVarint(b)
		if n < 0 {
			return nil, n
		}
		switch k {
		case KBool:
			return vInt(int64(b2i(x != 0))), n
		case KInt32:
			return vInt(int64(int32(x))), n
		case KInt64:
			return vInt(int64(x)), n
		case KUint32:
			return vUint(uint64(uint32(x))), n
		case KUint64:
			return vUint(x), n
		case KSint32:
			return vInt(int64(int32(protowire.DecodeZigZag(uint64(uint32(x)))))), n
		case KSint64:
			return vInt(protowire.DecodeZigZag(x)), n
		}
	case protowire.Fixed32Type:
		x, n := protowire.ConsumeFixed32(b)
		if n < 0 {
			return nil, n
		}
		if k == KSfixed32 {
			return vInt(int64(int32(x))), n
		}
		return vUint(uint64(x)), n
	case protowire.Fixed64Type:
		x, n := protowire.ConsumeFixed64(b)
		if n < 0 {
			return nil, n
		}
		if k == KSfixed64 {
			return vInt(int64(x)), n
		}
		return vUint(x), n
	case protowire.BytesType:
		x, n := protowire.ConsumeBytes(b)
		if n < 0 {
			return nil, n
		}
		return vBytes(x), n
	}
	return nil, -1
}

func refReader(k Kind, rep bool, field int32, data []byte, init []*Val) string {
	c := &refCursor{}
	c.next(data)
	vals := append([]*Val{}, init...)
	w := wireOfKind(k)
	packable := k != KString && k != KBytes
	_ = math.MaxInt32
	for c.err == "" && c.pf == int64(field) {
		typ := protowire.Type(c.pw)
		switch {
		case typ == w:
			v, n := refConvert(k, typ, c.rest)
			if n < 0 {
				c.pf, c.pw, c.err = -1, 0, fmt.Sprintf("%d:parse", field)
				break
			}
			if rep {
				vals = append(vals, v)
			} else {
				vals = []*Val{v}
			}
			c.next(c.rest[n:])
		case rep && packable && typ == protowire.BytesType:
			p, n := protowire.ConsumeBytes(c.rest)
			if n < 0 {
				c.pf, c.pw, c.err = -1, 0, fmt.Sprintf("%d:parse", field)
				break
			}
			bad := false
			for len(p) > 0 {
				v, m := refConvert(k, w, p)
				if m < 0 {
					bad = true
					break
				}
				vals = append(vals, v)
				p = p[m:]
			}
			if bad {
				c.pf, c.pw, c.err = -1, 0, fmt.Sprintf("%d:parse", field)
				break
			}
			c.next(c.rest[n:])
		default:
			c.pf, c.pw, c.err = -1, 0, fmt.Sprintf("%d:wire", field)
		}
		if !rep {
			break
		}
	}
	es := c.err
	if es == "" {
		es = "-"
	}
	pw := c.pw
	if c.pf < 0 {
		pw = 0
	}
	return fmt.Sprintf("pf=%d pw=%d rem=%d err=%s val=%s", c.pf, pw, len(c.rest), es, valsString(vals))
}
