//go:build verif

package main

import "io/fs"

type fsFileInfo = fs.FileInfo
