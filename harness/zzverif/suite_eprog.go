//go:build verif

package main

import (
	"bufio"
	"encoding/hex"
	"fmt"
	"strconv"
	"strings"

	"google.golang.org/protobuf/encoding/protowire"

	"storj.io/picobuf"
)

// Programs of Encoder calls, as a hand-written custom type may issue them: typed writers, RepeatedEnum, UnrecognizedFields
// and nested Message / AlwaysMessage / PresentMessage / AlwaysAnyBytes whose callbacks write arbitrary content and then
// report presence or absence (generated code never writes something and then reports absence; custom code may).
type ecall struct {
	op     string // s en m am pm ab u
	kind   Kind
	always bool
	rep    bool
	field  int32
	vals   []*Val
	enums  []int32
	ok     bool
	body   []*ecall
	raw    []byte
}

func (c *ecall) String() string {
	switch c.op {
	case "s":
		return fmt.Sprintf("(s %s %d %d %d %s)", c.kind, b2i(c.always), b2i(c.rep), c.field, valsString(c.vals))
	case "en":
		parts := []string{"en", strconv.Itoa(int(c.field))}
		for _, e := range c.enums {
			parts = append(parts, strconv.Itoa(int(e)))
		}
		return "(" + strings.Join(parts, " ") + ")"
	case "u":
		return "(u x" + hex.EncodeToString(c.raw) + ")"
	}
	parts := []string{c.op, strconv.Itoa(int(c.field))}
	if c.op != "ab" {
		parts = append(parts, strconv.Itoa(b2i(c.ok)))
	}
	for _, b := range c.body {
		parts = append(parts, b.String())
	}
	return "(" + strings.Join(parts, " ") + ")"
}

func genCalls(r *rng, depth int, n int) []*ecall {
	fields := fieldAlphabet()
	var out []*ecall
	for i := 0; i < n; i++ {
		c := &ecall{field: fields[r.intn(len(fields))]}
		pick := r.intn(10)
		if depth <= 0 && pick >= 5 && pick <= 8 {
			pick = r.intn(5)
		}
		switch {
		case pick <= 3:
			c.op = "s"
			c.kind = Kind(r.intn(int(KBytes) + 1))
			c.always, c.rep = r.bool(), r.intn(3) == 0
			alpha := scalarAlphabet(c.kind)
			m := 1
			if c.rep {
				m = []int{0, 1, 2, 3, 17, 130}[r.intn(6)]
				if c.kind == KBytes || c.kind == KString {
					m = r.intn(4)
				}
			}
			for j := 0; j < m; j++ {
				c.vals = append(c.vals, alpha[r.intn(len(alpha))])
			}
		case pick == 4:
			c.op = "en"
			for j := r.intn(4); j > 0; j-- {
				c.enums = append(c.enums, []int32{0, 1, -1, 127, 128, -2147483648, 2147483647}[r.intn(7)])
			}
		case pick <= 8:
			c.op = []string{"m", "am", "pm", "ab"}[pick-5]
			c.ok = r.intn(3) != 0
			// bodies around the length-prefix size classes: empty, small, 127/128 and 16383/16384 bytes of content
			switch r.intn(6) {
			case 0:
			case 1:
				c.body = []*ecall{{op: "u", raw: make([]byte, []int{127, 128, 129, 16383, 16384, 16385}[r.intn(6)])}}
			default:
				c.body = genCalls(r, depth-1, 1+r.intn(3))
			}
		default:
			c.op = "u"
			// raw bytes appended verbatim (what UnrecognizedFields stores): complete records
			c.raw = protowire.AppendVarint(protowire.AppendTag(nil, protowire.Number(60+r.intn(3)), protowire.VarintType), r.u64()>>uint(r.intn(64)))
			if r.intn(4) == 0 {
				c.raw = nil
			}
		}
		out = append(out, c)
	}
	return out
}

func runCalls(enc *picobuf.Encoder, cs []*ecall) {
	for _, c := range cs {
		c := c
		f := picobuf.FieldNumber(c.field)
		switch c.op {
		case "s":
			vals := c.vals
			if !c.rep && len(vals) == 0 {
				vals = []*Val{vInt(0)}
			}
			callWriter(enc, c.kind, c.always, c.rep, c.field, vals)
		case "en":
			es := c.enums
			enc.RepeatedEnum(f, len(es), func(i uint) int32 { return es[i] })
		case "m":
			enc.Message(f, func(e *picobuf.Encoder) bool { runCalls(e, c.body); return c.ok })
		case "am":
			enc.AlwaysMessage(f, func(e *picobuf.Encoder) bool { runCalls(e, c.body); return c.ok })
		case "pm":
			enc.PresentMessage(f, func(e *picobuf.Encoder) bool { runCalls(e, c.body); return c.ok })
		case "ab":
			enc.AlwaysAnyBytes(f, func() { runCalls(enc, c.body) })
		case "u":
			enc.UnrecognizedFields(c.raw)
		}
	}
}

// refCalls: the expected bytes, written with protobuf-go's protowire only
func refCalls(cs []*ecall) []byte {
	var out []byte
	for _, c := range cs {
		num := protowire.Number(c.field)
		switch c.op {
		case "s":
			vals := c.vals
			if !c.rep && len(vals) == 0 {
				vals = []*Val{vInt(0)}
			}
			out = append(out, refWriter(c.kind, c.always, c.rep, c.field, vals)...)
		case "en":
			if len(c.enums) > 0 {
				var p []byte
				for _, e := range c.enums {
					p = protowire.AppendVarint(p, uint64(int64(e)))
				}
				out = protowire.AppendBytes(protowire.AppendTag(out, num, protowire.BytesType), p)
			}
		case "m":
			if c.ok {
				out = protowire.AppendBytes(protowire.AppendTag(out, num, protowire.BytesType), refCalls(c.body))
			}
		case "am", "ab":
			out = protowire.AppendBytes(protowire.AppendTag(out, num, protowire.BytesType), refCalls(c.body))
		case "pm":
			if p := refCalls(c.body); len(p) > 0 {
				out = protowire.AppendBytes(protowire.AppendTag(out, num, protowire.BytesType), p)
			}
		case "u":
			out = append(out, c.raw...)
		}
	}
	return out
}

func init() {
	// eprogs <seed> <n>
	register("eprogs", func(args []string, out *bufio.Writer) error {
		seed, _ := strconv.ParseUint(args[0], 10, 64)
		n, _ := strconv.Atoi(args[1])
		r := newRng(seed)
		stale := []byte(strings.Repeat("\xa5", 64))
		for i := 0; i < n; i++ {
			cr := r.fork()
			cs := genCalls(cr, 3, 1+cr.intn(4))
			parts := make([]string, len(cs))
			for j, c := range cs {
				parts[j] = c.String()
			}
			res := ""
			func() {
				defer func() {
					if rr := recover(); rr != nil {
						res = "PANIC"
					}
				}()
				var enc *picobuf.Encoder
				switch i % 3 {
				case 0:
					enc = picobuf.NewEncoder()
				case 1:
					enc = picobuf.NewEncoderBuffer(append([]byte{}, stale...)) // reused buffer with stale content
				default:
					enc = picobuf.NewEncoderBuffer(make([]byte, 0, 1)) // tight capacity: growth inside nested frames
				}
				runCalls(enc, cs)
				res = "x" + hex.EncodeToString(enc.Buffer())
			}()
			fmt.Fprintf(out, "eprog\t(prog %s)\t%s\tx%s\n", strings.Join(parts, " "), res, hex.EncodeToString(refCalls(cs)))
		}
		return nil
	})
}
