//go:build verif

package main

import (
	"bufio"
	"bytes"
	"fmt"
	"math/big"
	"os"
	"strings"
)

func cloneVal(v *Val) *Val {
	c := *v
	if v.I != nil {
		c.I = new(big.Int).Set(v.I)
	}
	if v.I2 != nil {
		c.I2 = new(big.Int).Set(v.I2)
	}
	c.B = append([]byte(nil), v.B...)
	c.U = append([]byte(nil), v.U...)
	c.L = make([]*Val, len(v.L))
	for i, e := range v.L {
		c.L[i] = cloneVal(e)
	}
	return &c
}

// shrinkCands yields smaller variants of v (shape sh).
func shrinkCands(v *Val, sh *Shape, emit func(*Val)) {
	z := zeroVal(sh)
	if v.String() != z.String() {
		emit(z)
	}
	switch sh.T {
	case 'i':
		for _, c := range []int64{1, -1, 2} {
			if v.I.Cmp(big.NewInt(c)) != 0 && (c >= 0 || v.I.Sign() < 0) {
				emit(vInt(c))
			}
		}
	case 'b':
		if len(v.B) > 1 {
			cut := func(n int) []byte {
				if sh.K == KString { // keep valid UTF-8: cut at a rune boundary
					for n > 0 && n < len(v.B) && v.B[n]&0xc0 == 0x80 {
						n--
					}
				}
				return v.B[:n]
			}
			emit(vBytes(cut(len(v.B) / 2)))
			emit(vBytes(cut(1)))
			if sh.K == KString {
				emit(vBytes([]byte("a")))
			}
		}
	case 'o':
		if v.Some {
			shrinkCands(v.L[0], sh.Elem, func(c *Val) { emit(vSome(c)) })
		}
	case 'l':
		for i := range v.L {
			c := cloneVal(v)
			c.L = append(c.L[:i], c.L[i+1:]...)
			emit(c)
		}
		for i := range v.L {
			i := i
			shrinkCands(v.L[i], sh.Elem, func(e *Val) {
				c := cloneVal(v)
				c.L[i] = e
				emit(c)
			})
		}
	case 'p':
		for i := 0; i+1 < len(v.L); i += 2 {
			c := cloneVal(v)
			c.L = append(c.L[:i], c.L[i+2:]...)
			emit(c)
		}
		for i := 0; i+1 < len(v.L); i += 2 {
			i := i
			shrinkCands(v.L[i+1], sh.Elem, func(e *Val) {
				c := cloneVal(v)
				c.L[i+1] = e
				emit(c)
			})
		}
	case 'm', 'e':
		if sh.T == 'm' && !v.Some {
			return
		}
		shrinkMsgCands(v, sh.TI, emit)
	}
}

func shrinkMsgCands(v *Val, ti *TypeInfo, emit func(*Val)) {
	if len(v.U) > 0 {
		c := cloneVal(v)
		c.U = nil
		emit(c)
	}
	for i := range v.L {
		i := i
		shrinkCands(v.L[i], ti.Shapes[i], func(e *Val) {
			c := cloneVal(v)
			c.L[i] = e
			emit(c)
		})
	}
}

func smaller(a, b string) bool { return len(a) < len(b) || (len(a) == len(b) && a < b) }

func shrinkMsg(v *Val, ti *TypeInfo, fails func(*Val) bool) *Val {
	cur := v
	for round := 0; round < 200; round++ {
		var next *Val
		shrinkMsgCands(cur, ti, func(c *Val) {
			if os.Getenv("SHRINK_DEBUG") != "" {
				fmt.Fprintln(os.Stderr, "cand", c.String(), fails(c))
			}
			if next == nil && smaller(c.String(), cur.String()) && fails(c) {
				next = c
			}
		})
		if next == nil {
			break
		}
		cur = next
	}
	return cur
}

func init() {
	// msg-shrink <typekey> <val> <flag e.g. c01=bad>
	register("msg-shrink", func(args []string, out *bufio.Writer) error {
		u, err := loadUniverse()
		if err != nil {
			return err
		}
		ti := u.Types[args[0]]
		if ti == nil {
			return fmt.Errorf("unknown type %s", args[0])
		}
		v, err := parseVal(args[1])
		if err != nil {
			return err
		}
		fails := func(c *Val) bool {
			var buf bytes.Buffer
			w := bufio.NewWriter(&buf)
			u.msgCase(w, ti, c, buildOpts{})
			w.Flush()
			cols := strings.Split(buf.String(), "\t")
			if len(cols) <= 5 {
				return false
			}
			if cols[4] == "PANIC" {
				return true
			}
			if strings.Contains(args[2], "=") || args[2] == "bad" {
				return strings.Contains(cols[5], args[2])
			}
			// a flag family (e.g. c08 -> c08o, c08r): any member that is bad
			for _, fl := range strings.Split(cols[5], ",") {
				if strings.HasPrefix(fl, args[2]) && strings.HasSuffix(fl, "=bad") {
					return true
				}
			}
			return false
		}
		if !fails(v) {
			return fmt.Errorf("value does not fail %s", args[2])
		}
		m := shrinkMsg(v, ti, fails)
		emitSchemas(u, out)
		u.msgCase(out, ti, m, buildOpts{})
		return nil
	})
}
