//go:build verif

package main

import (
	"bufio"
	"encoding/hex"
	"fmt"
	"strings"
)

// decCase: Unmarshal `data` into a fresh message (or into `into` when given),
// compare with the reference implementation's parse of the same bytes.
// Columns: dec, typeref, goType, hexdata, status(ok|err:..|PANIC:..), picoval, oracle status, oracleval, flags
func (u *Universe) decCase(out *bufio.Writer, ti *TypeInfo, data []byte, tag string) {
	orig := append([]byte{}, data...)
	fresh := ti.New()
	st := safeUnmarshal(data, fresh)
	pv := "-"
	if !strings.HasPrefix(st, "PANIC") {
		if v, err := u.read(ti, fresh); err == nil {
			pv = v.String()
		} else {
			pv = "read-error:" + err.Error()
		}
	}
	ov, ost := u.oracleParse(ti, orig)
	os := "-"
	if ov != nil {
		os = ov.String()
	}
	flags := []string{}
	if hex.EncodeToString(orig) != hex.EncodeToString(data) {
		flags = append(flags, "input-modified")
	}
	fmt.Fprintf(out, "dec\t%s\t%s\tx%s\t%s\t%s\t%s\t%s\t%s\t%s\n", typeRef(ti), ti.Key, hex.EncodeToString(orig), st, pv, ost, os, strings.Join(flags, ","), tag)
}

func init() {
	// dec-one <typekey> <hex>
	register("dec-one", func(args []string, out *bufio.Writer) error {
		u, err := loadUniverse()
		if err != nil {
			return err
		}
		ti := u.Types[args[0]]
		if ti == nil {
			return fmt.Errorf("unknown type %s", args[0])
		}
		data, err := hex.DecodeString(strings.TrimPrefix(args[1], "x"))
		if err != nil {
			return err
		}
		emitSchemas(u, out)
		u.decCase(out, ti, data, "one")
		return nil
	})
}
