//go:build verif

package main

import (
	"bufio"
	"bytes"
	"encoding/hex"
	"fmt"
	"os"
	"runtime/debug"
	"sort"
	"strconv"
	"strings"
	"time"

	"google.golang.org/protobuf/encoding/protowire"
	"google.golang.org/protobuf/proto"

	"storj.io/picobuf"
)

// decCase: Unmarshal `data` into a fresh message (or into `into` when given),
// compare with the reference implementation's parse of the same bytes.
// Columns: dec, typeref, goType, hexdata, status(ok|err:..|PANIC:..), picoval, oracle status, oracleval, flags
func (u *Universe) decCase(out *bufio.Writer, ti *TypeInfo, data []byte, tag string) {
	orig := append([]byte{}, data...)
	fresh := ti.New()
	st := safeUnmarshal(data, fresh)
	pv := "-"
	pvq := "-"
	if !strings.HasPrefix(st, "PANIC") {
		if v, err := u.read(ti, fresh); err == nil {
			pv = v.String()
			pvq = quietMsg(v, ti).String()
		} else {
			pv = "read-error:" + err.Error()
		}
	}
	ov, ost := u.oracleParse(ti, orig)
	os := "-"
	if ov != nil {
		os = ov.String()
	}
	flags := []string{}
	if hex.EncodeToString(orig) != hex.EncodeToString(data) {
		flags = append(flags, "input-modified")
	}
	// C02: same values as the reference implementation (float32 sNaN quieted: oracle API limit)
	if st == "ok" && ost == "ok" {
		if pvq == os {
			flags = append(flags, "c02=ok")
		} else {
			flags = append(flags, "c02=bad")
		}
	}
	if se := staleError(); se != "" {
		flags = append(flags, "stale-error")
		tag += " (an error returned by an earlier Unmarshal " + se + ")"
	}
	if u.wellFormed(ti, orig) {
		flags = append(flags, "wf=1")
	} else {
		flags = append(flags, "wf=0")
	}
	fmt.Fprintf(out, "dec\t%s\t%s\tx%s\t%s\t%s\t%s\t%s\t%s\t%s\n", typeRef(ti), ti.Key, hex.EncodeToString(orig), st, pv, ost, os, strings.Join(flags, ","), tag)
}

// validBytes: an encoding of a random message, rewritten by meaning-preserving rewrites
func (u *Universe) validBytes(r *rng, ti *TypeInfo, st rwStats) []byte {
	v := u.genMsg(r, ti, 'm', genOpts{depth: 3, unknownOK: true})
	m, err := u.build(ti, v, buildOpts{})
	if err != nil {
		return nil
	}
	data, pan := safeMarshal(m)
	if pan != "" {
		return nil
	}
	// start from the reference encoder's bytes when available (differs for maps: explicit defaults)
	if r.intn(2) == 0 {
		if dm, err := u.toDyn(ti, quietMsg(normMsg(v, ti), ti)); err == nil {
			if rb, err := (proto.MarshalOptions{Deterministic: true}).Marshal(dm); err == nil {
				data = rb
				st["from-reference-encoder"]++
			}
		}
	}
	recs, ok := u.parseRecs(ti, nil, data)
	if !ok {
		return data
	}
	n := r.intn(3)
	for i := 0; i < n; i++ {
		recs = u.rewrite(r, ti, nil, recs, st, 0)
	}
	return serialize(recs)
}

func init() {
	// decv <seed> <n> [typefilter]: valid encodings closed under rewrites
	register("decv", func(args []string, out *bufio.Writer) error {
		seed, _ := strconv.ParseUint(args[0], 10, 64)
		n, _ := strconv.Atoi(args[1])
		filter := ""
		if len(args) > 2 {
			filter = args[2]
		}
		u, err := loadUniverse()
		if err != nil {
			return err
		}
		emitSchemas(u, out)
		types := u.usableTypes(func(ti *TypeInfo) bool { return filter == "" || strings.Contains(ti.Key, filter) })
		r := newRng(seed)
		st := rwStats{}
		for i := 0; i < n; i++ {
			ti := types[i%len(types)]
			cr := r.fork()
			data := u.validBytes(cr, ti, st)
			u.decCase(out, ti, data, "valid")
		}
		keys := []string{}
		for k := range st {
			keys = append(keys, k)
		}
		sort.Strings(keys)
		for _, k := range keys {
			fmt.Fprintf(out, "stat\t%s\t%d\n", k, st[k])
		}
		return nil
	})
	// decb <seed> <n>: malformed stream - prefixes, single-token corruptions, short token strings, random bytes
	register("decb", func(args []string, out *bufio.Writer) error {
		seed, _ := strconv.ParseUint(args[0], 10, 64)
		n, _ := strconv.Atoi(args[1])
		u, err := loadUniverse()
		if err != nil {
			return err
		}
		emitSchemas(u, out)
		types := u.usableTypes(nil)
		r := newRng(seed)
		st := rwStats{}
		for i := 0; i < n; i++ {
			ti := types[i%len(types)]
			cr := r.fork()
			data := u.validBytes(cr, ti, st)
			switch cr.intn(9) {
			case 8: // a number that one message on the path does not know and another one does: sent, as an unknown field,
				// inside a sub-message, and once more - with a wire type its field does not accept - in the message that
				// knows it (before or after the sub-message); what was skipped at one level says nothing about another
				if recs, ok := u.parseRecs(ti, nil, data); ok {
					var nested []int
					for j, x := range recs {
						if x.hasKid && x.ti != nil {
							nested = append(nested, j)
						}
					}
					if len(nested) > 0 {
						j := nested[cr.intn(len(nested))]
						pr := recs[j]
						inner := map[int32]bool{}
						for _, f := range pr.ti.S.Msgs[pr.ti.MI].Fields {
							inner[f.Num] = true
						}
						var cands []*Field
						fs := ti.S.Msgs[ti.MI].Fields
						for k := range fs {
							if f := &fs[k]; !inner[f.Num] && !f.IsMap && f.Custom == CNone {
								cands = append(cands, f)
							}
						}
						if len(cands) > 0 {
							f := cands[cr.intn(len(cands))]
							raw := genUnknownValue(cr, nil, protowire.Number(f.Num), 2)
							if inj, ok := u.parseRecs(nil, nil, raw); ok && len(inj) == 1 {
								pos := cr.intn(len(pr.kids) + 1)
								pr.kids = append(pr.kids[:pos:pos], append([]*wrec{inj[0]}, pr.kids[pos:]...)...)
								wrong := &wrec{num: protowire.Number(f.Num), typ: protowire.Fixed32Type, u64: 7}
								if k := f.Kind; k == KFixed32 || k == KSfixed32 || k == KFloat {
									wrong.typ = protowire.VarintType
								}
								at := j + 1
								if cr.intn(3) == 0 {
									at = j
								}
								recs = append(recs[:at:at], append([]*wrec{wrong}, recs[at:]...)...)
								u.decCase(out, ti, serialize(recs), "number-known-at-another-level")
								continue
							}
						}
					}
				}
			case 7: // a length-delimited record INSIDE a known sub-message (a sub-sub-message when there is one) whose length
				// prefix is cut short or claims more than the enclosing payload holds; the outer frame stays intact
				if recs, ok := u.parseRecs(ti, nil, data); ok {
					var nested []*wrec
					for _, x := range recs {
						if x.hasKid && len(x.kids) > 0 {
							nested = append(nested, x)
						}
					}
					if len(nested) > 0 {
						p := nested[cr.intn(len(nested))]
						var cand, msgs []int
						for j, y := range p.kids {
							if y.typ == protowire.BytesType {
								cand = append(cand, j)
								if y.hasKid {
									msgs = append(msgs, j)
								}
							}
						}
						if len(msgs) > 0 && cr.intn(4) != 0 {
							cand = msgs
						}
						if len(cand) > 0 {
							j := cand[cr.intn(len(cand))]
							y := p.kids[j]
							body := y.bytes
							if y.hasKid {
								body = serialize(y.kids)
							}
							inner := serialize(p.kids[:j])
							inner = protowire.AppendTag(inner, y.num, protowire.BytesType)
							if cr.intn(3) == 0 {
								inner = append(inner, 0x80|byte(len(body))) // the length varint itself is cut short
							} else {
								inner = protowire.AppendVarint(inner, uint64(len(body)+1+cr.intn(3)))
								inner = append(inner, body...)
							}
							p.hasKid, p.kids, p.bytes = false, nil, inner
							u.decCase(out, ti, serialize(recs), "nested-length-beyond-parent")
							continue
						}
					}
				}
			case 6: // nested unknown groups with one end marker altered, dropped or duplicated (balanced-groups clause)
				d := append([]byte{}, data...)
				pos := 0
				if recs, ok := u.parseRecs(ti, nil, data); ok && len(recs) > 0 {
					pos = len(serialize(recs[:cr.intn(len(recs)+1)]))
				}
				g := nestedGroups(cr, 1+cr.intn(3))
				d = append(d[:pos:pos], append(g, data[pos:]...)...)
				u.decCase(out, ti, d, "group-structure")
				continue
			case 0, 1: // a prefix
				if len(data) > 0 {
					cut := cr.intn(len(data))
					u.decCase(out, ti, data[:cut], "prefix")
					continue
				}
			case 2: // flip/replace one byte
				if len(data) > 0 {
					d := append([]byte{}, data...)
					p := cr.intn(len(d))
					switch cr.intn(4) {
					case 0:
						d[p] ^= 0x80
					case 1:
						d[p] = byte(cr.u64())
					case 2:
						d[p] = (d[p] &^ 7) | byte(cr.intn(8)) // wire type bits, if this is a tag
					default:
						d[p]++
					}
					u.decCase(out, ti, d, "corrupt-byte")
					continue
				}
			case 3: // corrupt one token: tag number to 0 / 2^29 / 2^31-1, length +-1, unbalanced group
				recs, ok := u.parseRecs(ti, nil, data)
				if ok && len(recs) > 0 {
					// half of the time inside a known sub-message / map entry whose outer frame stays intact
					var nested []*wrec
					for _, x := range recs {
						if x.hasKid && len(x.kids) > 0 {
							nested = append(nested, x)
						}
					}
					if len(nested) > 0 && cr.intn(2) == 0 {
						p := nested[cr.intn(len(nested))]
						inner := corruptToken(cr, p.kids, p.kids[cr.intn(len(p.kids))])
						p.hasKid, p.kids, p.bytes = false, nil, inner
						u.decCase(out, ti, serialize(recs), "corrupt-nested")
						continue
					}
					x := recs[cr.intn(len(recs))]
					d := corruptToken(cr, recs, x)
					u.decCase(out, ti, d, "corrupt-token")
					continue
				}
			case 4: // random bytes
				k := cr.intn(12)
				d := make([]byte, k)
				for j := range d {
					d[j] = byte(cr.u64())
					if cr.intn(3) == 0 {
						d[j] &= 0x1f
					}
				}
				u.decCase(out, ti, d, "random")
				continue
			}
			// short token strings over a small alphabet
			d := shortTokens(cr, ti)
			u.decCase(out, ti, d, "tokens")
		}
		return nil
	})
	// hist <seed> <n>: 1-4 Unmarshal calls into one message vs one call on the concatenation
	register("hist", func(args []string, out *bufio.Writer) error {
		seed, _ := strconv.ParseUint(args[0], 10, 64)
		n, _ := strconv.Atoi(args[1])
		u, err := loadUniverse()
		if err != nil {
			return err
		}
		emitSchemas(u, out)
		filter := ""
		if len(args) > 2 {
			filter = args[2]
		}
		types := u.usableTypes(func(ti *TypeInfo) bool { return filter == "" || strings.Contains(ti.Key, filter) })
		r := newRng(seed)
		st := rwStats{}
		for i := 0; i < n; i++ {
			ti := types[i%len(types)]
			cr := r.fork()
			k := 1 + cr.intn(4)
			var chunks [][]byte
			for j := 0; j < k; j++ {
				chunks = append(chunks, u.validBytes(cr, ti, st))
			}
			u.histCase(out, ti, chunks)
		}
		return nil
	})
	register("hist-one", func(args []string, out *bufio.Writer) error {
		u, err := loadUniverse()
		if err != nil {
			return err
		}
		ti := u.Types[args[0]]
		if ti == nil {
			return fmt.Errorf("unknown type %s", args[0])
		}
		var chunks [][]byte
		for _, h := range strings.Split(args[1], ",") {
			d, err := hex.DecodeString(strings.TrimPrefix(h, "x"))
			if err != nil {
				return err
			}
			chunks = append(chunks, d)
		}
		emitSchemas(u, out)
		u.histCase(out, ti, chunks)
		return nil
	})
	// deep <seed>: nesting-depth and cost boundaries under a watchdog
	register("deep", func(args []string, out *bufio.Writer) error {
		u, err := loadUniverse()
		if err != nil {
			return err
		}
		emitSchemas(u, out)
		var targets []*TypeInfo
		for _, k := range []string{"test.proto:Person", "test.proto:UnknownMessage", "types.proto:Map"} {
			if ti := u.Types[k]; ti != nil {
				targets = append(targets, ti)
			}
		}
		// recursive message types (from fresh schemas), if any
		recursive := 0
		for _, k := range u.Order {
			ti := u.Types[k]
			if recursive >= 8 {
				break // the model costs about a minute and 8 GB per megabyte-sized row: eight recursive types are enough
			}
			for _, f := range ti.S.Msgs[ti.MI].Fields {
				if f.Msg == ti.MI && f.Label != LRepeated && !ti.S.hasOpaque(ti.MI) {
					recursive++
					targets = append(targets, ti)
					// 10 000-deep chain of sub-messages in field f
					for _, depth := range []int{100, 10000} {
						var b []byte
						for i := 0; i < depth; i++ {
							b = protowire.AppendBytes(protowire.AppendTag(nil, protowire.Number(f.Num), protowire.BytesType), b)
						}
						u.timedDec(out, ti, b, fmt.Sprintf("nested-%d", depth))
					}
					// deep AND branching: at every level a deep child is followed by shallow siblings of the same field (the cursor of
					// each enclosing message must be restored exactly after a child at any depth returns)
					for _, depth := range []int{6, 9, 12, 20, 40} {
						tag := protowire.AppendTag(nil, protowire.Number(f.Num), protowire.BytesType)
						leaf := protowire.AppendBytes(append([]byte{}, tag...), nil)
						b := append(append([]byte{}, leaf...), leaf...)
						for i := 0; i < depth; i++ {
							inner := protowire.AppendBytes(append([]byte{}, tag...), b)
							sib := protowire.AppendBytes(append([]byte{}, tag...), leaf)
							b = append(append(append([]byte{}, inner...), sib...), leaf...)
						}
						u.timedDec(out, ti, b, fmt.Sprintf("branching-%d", depth))
					}
					break
				}
			}
		}
		for _, ti := range targets {
			for _, depth := range []int{3, 9999, 10000, 10001, 10002, 10003} {
				var b []byte
				for i := 0; i < depth; i++ {
					b = protowire.AppendTag(b, 60, protowire.StartGroupType)
				}
				for i := 0; i < depth; i++ {
					b = protowire.AppendTag(b, 60, protowire.EndGroupType)
				}
				u.timedDec(out, ti, b, fmt.Sprintf("groups-%d", depth))
			}
			// many small unknown fields: the skip path of Loop runs once per field
			var b []byte
			for _, cnt := range []int{4000, 200000} {
				b = nil
				for i := 0; i < cnt; i++ {
					b = protowire.AppendVarint(protowire.AppendTag(b, 61, protowire.VarintType), uint64(i))
				}
				u.timedDec(out, ti, b, fmt.Sprintf("many-unknown-%d", cnt))
			}
			// unterminated group chain (truncation at every depth is the prefix stream's job)
			b = nil
			for i := 0; i < 5000; i++ {
				b = protowire.AppendTag(b, 62, protowire.StartGroupType)
			}
			u.timedDec(out, ti, b, "unterminated-groups-5000")
		}
		// far beyond every limit: three million nested start-group tags. The skipper must give up at its nesting limit; a
		// skipper that recurses without bound dies of a stack overflow, which recover() cannot catch - the marker on stderr lets
		// the check name the input when the driver dies. Only the call is made (no row: oracle and model are not consulted).
		if len(u.Order) > 0 {
			first := u.Types[u.Order[0]]
			tag := protowire.AppendTag(nil, unknownNumber(newRng(1), &first.S.Msgs[first.MI]), protowire.StartGroupType)
			b := bytes.Repeat(tag, 3000000)
			fmt.Fprintf(os.Stderr, "VERIF-RISKY\tUnmarshal\t%s\t3000000 nested start-group tags of an unknown field (the bytes %x repeated 3000000 times)\n", first.Key, tag)
			old := debug.SetMaxStack(64 << 20) // a bounded skipper needs a few hundred KiB; an unbounded one needs hundreds of MiB
			_ = safeUnmarshal(b, first.New())
			debug.SetMaxStack(old)
			fmt.Fprintf(os.Stderr, "VERIF-RISKY-DONE\n")
		}
		return nil
	})
	// dec-one <typekey> <hex>
	register("dec-one", func(args []string, out *bufio.Writer) error {
		u, err := loadUniverse()
		if err != nil {
			return err
		}
		ti := u.Types[args[0]]
		if ti == nil {
			return fmt.Errorf("unknown type %s", args[0])
		}
		data, err := hex.DecodeString(strings.TrimPrefix(args[1], "x"))
		if err != nil {
			return err
		}
		emitSchemas(u, out)
		u.decCase(out, ti, data, "one")
		return nil
	})
}

// histCase: hist, typeref, gotype, x<a>,x<b>..., seq status, seq val, oneshot status, oneshot val, oracle status, oracle val, flags
func (u *Universe) histCase(out *bufio.Writer, ti *TypeInfo, chunks [][]byte) {
	m := ti.New()
	seqSt := "ok"
	var all []byte
	hs := []string{}
	for _, c := range chunks {
		hs = append(hs, "x"+hex.EncodeToString(c))
		all = append(all, c...)
		if seqSt == "ok" {
			seqSt = safeUnmarshal(c, m)
		}
	}
	sv := "-"
	if v, err := u.read(ti, m); err == nil {
		sv = v.String()
	}
	one := ti.New()
	oneSt := safeUnmarshal(all, one)
	ov := "-"
	ovq := "-"
	if v, err := u.read(ti, one); err == nil {
		ov = v.String()
		ovq = quietMsg(v, ti).String()
	}
	rv, rst := u.oracleParse(ti, all)
	rs := "-"
	if rv != nil {
		rs = rv.String()
	}
	flags := []string{}
	if seqSt == "ok" && oneSt == "ok" && sv == ov {
		flags = append(flags, "seq=ok")
	} else {
		flags = append(flags, "seq=bad")
	}
	// Timestamp/Duration casts define their own merge: a later occurrence replaces the value, whereas the reference merges the
	// two (seconds, nanos) messages field by field. In a history the same cast field may well occur in several chunks, so when
	// the exact comparison fails the comparison is repeated with the time values masked (presence and list lengths still count);
	// the model and the reference specification are compared exactly in every case.
	if oneSt == "ok" && rst == "ok" && (ovq == rs || (rv != nil && maskTimes(quietMsg(mustRead(u, ti, one), ti)).String() == maskTimes(rv).String())) {
		flags = append(flags, "ref=ok")
	} else {
		flags = append(flags, "ref=bad")
	}
	fmt.Fprintf(out, "hist\t%s\t%s\t%s\t%s\t%s\t%s\t%s\t%s\t%s\t%s\n", typeRef(ti), ti.Key, strings.Join(hs, ","), seqSt, sv, oneSt, ov, rst, rs, strings.Join(flags, ","))
}

// corruptToken serialises recs with record x corrupted in one way.
func corruptToken(r *rng, recs []*wrec, x *wrec) []byte {
	var b []byte
	for _, y := range recs {
		one := serialize([]*wrec{y})
		if y != x {
			b = append(b, one...)
			continue
		}
		switch r.intn(6) {
		case 0: // invalid field numbers
			num := []uint64{0, 1 << 29, 1<<31 - 1, 1 << 31, 1<<32 + 5}[r.intn(5)]
			_, _, n := protowire.ConsumeTag(one)
			if n < 0 {
				n = 1
			}
			b = protowire.AppendVarint(b, num<<3|uint64(y.typ))
			b = append(b, one[n:]...)
		case 1: // wrong wire type, same payload bytes
			_, _, n := protowire.ConsumeTag(one)
			if n < 0 {
				n = 1
			}
			b = protowire.AppendVarint(b, uint64(y.num)<<3|uint64(r.intn(8)))
			b = append(b, one[n:]...)
		case 2: // length +1 / -1 (bytes records)
			if y.typ == protowire.BytesType {
				p := y.bytes
				if y.hasKid {
					p = serialize(y.kids)
				}
				b = protowire.AppendTag(b, y.num, y.typ)
				d := uint64(len(p)) + 1
				if r.intn(2) == 0 && len(p) > 0 {
					d = uint64(len(p)) - 1
				}
				b = protowire.AppendVarint(b, d)
				b = append(b, p...)
			} else {
				b = append(b, one[:len(one)-1]...)
			}
		case 3: // unbalanced group
			b = protowire.AppendTag(b, y.num, protowire.StartGroupType)
			b = append(b, one...)
			if r.intn(2) == 0 {
				b = protowire.AppendTag(b, y.num+1, protowire.EndGroupType)
			}
		case 4: // stray end group
			b = append(b, one...)
			b = protowire.AppendTag(b, y.num, protowire.EndGroupType)
		default: // overlong varint (11 bytes) as tag
			for i := 0; i < 10; i++ {
				b = append(b, 0x80|one[0])
			}
			b = append(b, 0x01)
			b = append(b, one[1:]...)
		}
	}
	return b
}

// shortTokens: up to 3 tokens over an alphabet of field numbers (known, unknown, invalid) x wire types x tiny payloads
func shortTokens(r *rng, ti *TypeInfo) []byte {
	msg := &ti.S.Msgs[ti.MI]
	nums := []uint64{0, 1, 2, 3, 16, 1<<29 - 1, 1 << 29}
	for _, f := range msg.Fields {
		nums = append(nums, uint64(f.Num))
	}
	var b []byte
	k := 1 + r.intn(3)
	for i := 0; i < k; i++ {
		num := nums[r.intn(len(nums))]
		typ := uint64(r.intn(8))
		b = protowire.AppendVarint(b, num<<3|typ)
		switch r.intn(8) {
		case 0:
		case 1:
			b = append(b, 0)
		case 2:
			b = append(b, 1)
		case 3:
			b = append(b, 0x80)
		case 4:
			b = append(b, 2, 8, 1)
		case 5:
			b = append(b, 4, 0, 0, 0, 0)
		case 6:
			b = append(b, 0, 0, 0, 0, 0, 0, 0, 0)
		default:
			b = append(b, 0xff, 0xff, 0xff, 0xff, 0xff, 0xff, 0xff, 0xff, 0xff, byte(r.intn(3)))
		}
	}
	return b
}

// timedDec is decCase under a wall-clock watchdog (flag "slow" beyond 3 s).
func (u *Universe) timedDec(out *bufio.Writer, ti *TypeInfo, data []byte, tag string) {
	start := time.Now()
	var buf bytes.Buffer
	w := bufio.NewWriter(&buf)
	u.decCase(w, ti, data, tag)
	w.Flush()
	line := strings.TrimRight(buf.String(), "\n")
	if time.Since(start) > 3*time.Second {
		cols := strings.Split(line, "\t")
		if len(cols) > 8 {
			cols[8] += ",slow"
			line = strings.Join(cols, "\t")
		}
	}
	fmt.Fprintln(out, line)
}

// nestedGroups builds `depth` nested unknown groups (numbers 40..59, small fields inside) and then,
// with probability 3/4, damages the group structure at ONE marker: wrong number on an inner or
// outer end marker, a dropped end marker, an extra end marker, or swapped end markers.
func nestedGroups(r *rng, depth int) []byte {
	nums := make([]protowire.Number, depth)
	for i := range nums {
		nums[i] = protowire.Number(40 + r.intn(20))
	}
	damage := -1
	kind := r.intn(5)
	if r.intn(4) != 0 {
		damage = r.intn(depth)
	}
	var b []byte
	for i := 0; i < depth; i++ {
		b = protowire.AppendTag(b, nums[i], protowire.StartGroupType)
		if r.intn(2) == 0 {
			b = protowire.AppendVarint(protowire.AppendTag(b, protowire.Number(1+r.intn(30)), protowire.VarintType), uint64(r.intn(300)))
		}
	}
	for i := depth - 1; i >= 0; i-- {
		n := nums[i]
		if i == damage {
			switch kind {
			case 0:
				n = n + 1 // mismatching end marker
			case 1:
				continue // dropped end marker
			case 2:
				b = protowire.AppendTag(b, n, protowire.EndGroupType) // duplicated end marker
			case 3:
				if i > 0 {
					n = nums[i-1] // closes the parent's number instead
					if n == nums[i] {
						n++
					}
				} else {
					n = n + 7
				}
			default:
				n = protowire.Number(r.intn(3)) + 1
				if n == nums[i] {
					n += 3
				}
			}
		}
		b = protowire.AppendTag(b, n, protowire.EndGroupType)
	}
	return b
}

func mustRead(u *Universe, ti *TypeInfo, m picobuf.Message) *Val {
	v, err := u.read(ti, m)
	if err != nil {
		return &Val{T: 'm'}
	}
	return v
}

// maskTimes returns a copy of v in which every time.Time / time.Duration leaf is replaced by a constant.
func maskTimes(v *Val) *Val {
	if v == nil {
		return nil
	}
	switch v.T {
	case 't', 'd':
		return vInt(0)
	}
	c := *v
	c.L = make([]*Val, len(v.L))
	for i, e := range v.L {
		c.L[i] = maskTimes(e)
	}
	return &c
}
