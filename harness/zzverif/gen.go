//go:build verif

package main

import (
	"math"
	"math/big"
	"os"
	"strconv"

	"google.golang.org/protobuf/encoding/protowire"
)

// Boundary-biased random values. Every choice comes from the one rng.

var i32Bounds = []int64{0, 1, -1, 2, -2, 63, 64, 127, 128, -128, -129, 255, 256, 16383, 16384, -16384, -16385,
	1<<21 - 1, 1 << 21, 1<<28 - 1, 1 << 28, 1<<30 - 1, 1 << 30, -(1 << 30), math.MaxInt32, math.MaxInt32 - 1, math.MinInt32, math.MinInt32 + 1}
var i64Bounds = []int64{1 << 31, -(1 << 31) - 1, 1<<32 - 1, 1 << 32, 1<<35 - 1, 1 << 35, 1 << 42, 1<<49 - 1, 1 << 49, 1 << 56, 1<<56 - 1,
	1 << 62, -(1 << 62), math.MaxInt64, math.MaxInt64 - 1, math.MinInt64, math.MinInt64 + 1}
var f32Bounds = []uint32{0, 0x80000000, 0x3f800000, 0xbf800000, 0x7f800000, 0xff800000, 0x7fc00000, 0xffc00000, 0x7fc00001, 0x7f800001, 0xffffffff,
	1, 0x007fffff, 0x00800000, 0x7f7fffff, 0x80000001}
var f64Bounds = []uint64{0, 1 << 63, 0x3ff0000000000000, 0xbff0000000000000, 0x7ff0000000000000, 0xfff0000000000000, 0x7ff8000000000000,
	0xfff8000000000000, 0x7ff8000000000001, 0x7ff0000000000001, math.MaxUint64, 1, 0x000fffffffffffff, 0x0010000000000000, 0x7fefffffffffffff}

func genScalar(r *rng, k Kind) *Val {
	mode := r.intn(10)
	switch k {
	case KBool:
		return vInt(int64(r.intn(2)))
	case KInt32, KSint32, KSfixed32, KEnum:
		switch {
		case mode < 5:
			return vInt(i32Bounds[r.intn(len(i32Bounds))])
		case mode < 7:
			return vInt(int64(int32(r.u64() >> uint(r.intn(32)+32))))
		case mode < 8:
			return vInt(-int64(r.u64()>>uint(33+r.intn(31))) - 1)
		default:
			return vInt(int64(int32(r.u64())))
		}
	case KInt64, KSint64, KSfixed64:
		switch {
		case mode < 3:
			return vInt(i32Bounds[r.intn(len(i32Bounds))])
		case mode < 6:
			return vInt(i64Bounds[r.intn(len(i64Bounds))])
		case mode < 8:
			return vInt(int64(r.u64() >> uint(r.intn(64))))
		case mode < 9:
			return vInt(-int64(r.u64()>>uint(1+r.intn(63))) - 1)
		default:
			return vInt(int64(r.u64()))
		}
	case KUint32, KFixed32:
		switch {
		case mode < 5:
			return vUint(uint64(uint32(i32Bounds[r.intn(len(i32Bounds))])))
		case mode < 8:
			return vUint(uint64(uint32(r.u64()) >> uint(r.intn(32))))
		default:
			return vUint(uint64(uint32(r.u64())))
		}
	case KUint64, KFixed64:
		switch {
		case mode < 3:
			return vUint(uint64(i32Bounds[r.intn(len(i32Bounds))]))
		case mode < 6:
			return vUint(uint64(i64Bounds[r.intn(len(i64Bounds))]))
		case mode < 9:
			return vUint(r.u64() >> uint(r.intn(64)))
		default:
			return vUint(r.u64())
		}
	case KFloat:
		if mode < 6 {
			return vUint(uint64(f32Bounds[r.intn(len(f32Bounds))]))
		}
		return vUint(uint64(uint32(r.u64())))
	case KDouble:
		if mode < 6 {
			return vUint(f64Bounds[r.intn(len(f64Bounds))])
		}
		return vUint(r.u64())
	case KString:
		return vBytes(genUTF8(r, genLen(r)))
	case KBytes:
		n := genLen(r)
		b := make([]byte, n)
		for i := range b {
			b[i] = byte(r.u64())
		}
		if n > 0 && r.intn(4) == 0 {
			for i := range b {
				b[i] = 0
			}
		}
		return vBytes(b)
	}
	return vInt(0)
}

// genLen: payload lengths straddle the varint length classes.
func genLen(r *rng) int {
	switch r.intn(40) {
	case 0, 1, 2, 3, 4, 5:
		return 0
	case 6, 7, 8:
		return 1
	case 9:
		return 126
	case 10:
		return 127
	case 11:
		return 128
	case 12:
		return 129
	case 13:
		return 300 + r.intn(200)
	case 15, 16:
		return 116 + r.intn(16) // with a tag, a short key and the length prefixes: frames of 126..130 bytes
	case 14:
		if r.intn(6) == 0 {
			return []int{16382, 16383, 16384, 16385}[r.intn(4)]
		}
		return 200
	default:
		return 2 + r.intn(20)
	}
}

var utf8Pieces = []string{"a", "b", "z", "0", " ", "\x00", "\x7f", "é", "ß", "Ж", "中", "€", "𝄞", "😀", "\u0080", "߿", "ࠀ", "￿"}

func genUTF8(r *rng, n int) []byte {
	out := make([]byte, 0, n+4)
	for len(out) < n {
		p := utf8Pieces[r.intn(len(utf8Pieces))]
		if len(out)+len(p) > n {
			p = "x"
		}
		out = append(out, p...)
	}
	return out
}

func genTime(r *rng) *Val {
	nsecs := []int64{0, 0, 1, 999999999, 500000000, 123456789}
	switch r.intn(8) {
	case 0:
		return vTime(-62135596800, 0) // zero time
	case 1:
		return vTime(0, nsecs[r.intn(len(nsecs))])
	case 2:
		return vTime(-1, nsecs[r.intn(len(nsecs))])
	case 3:
		return vTime(-62135596800, 1+int64(r.intn(999999999)))
	case 4:
		return vTime(253402300799, 999999999)
	case 5:
		return vTime(-62135596800+int64(r.intn(1000)), int64(r.intn(1000000000)))
	default:
		return vTime(int64(r.u64()%(253402300799+62135596800))-62135596800, int64(r.intn(1000000000)))
	}
}

func genDur(r *rng) *Val {
	v := genScalar(r, KInt64)
	switch r.intn(6) {
	case 0:
		return vDur(0)
	case 1:
		return vDur([]int64{1, -1, 999999999, 1000000000, 1000000001, -999999999, -1000000000, -1000000001}[r.intn(8)])
	case 2:
		// many whole seconds (beyond float32/float64 exactness) with a sub-second part next to the boundary
		sec := []int64{1 << 24, 1<<24 + 1, 1 << 31, 1 << 33, 9007200, 1 << 40 / 1000, 9223372035}[r.intn(7)]
		ns := []int64{999999999, 999999998, 999999050, 1, 500000000}[r.intn(5)]
		d := sec*1000000000 + ns
		if r.bool() {
			d = -d
		}
		return vDur(d)
	}
	return vDur(v.I.Int64())
}

type genOpts struct {
	depth     int
	noMaps    bool
	unknownOK bool // may put unrecognized bytes into capturing messages
	// narrow: deep values (nesting far beyond 3) with little content per level: scalars mostly default, short lists, and a
	// budget of messages for the whole value, so that depth 10-30 with branching stays small
	narrow bool
	budget *int
}

func (g genOpts) down() genOpts {
	g.depth--
	return g
}

func (g genOpts) spend() bool {
	if g.budget == nil {
		return true
	}
	if *g.budget <= 0 {
		return false
	}
	*g.budget--
	return true
}

func (u *Universe) genVal(r *rng, sh *Shape, g genOpts) *Val {
	switch sh.T {
	case 'i', 'b':
		if r.intn(5) == 0 || (g.narrow && r.intn(6) != 0) {
			return zeroVal(sh)
		}
		return genScalar(r, sh.K)
	case 't':
		return genTime(r)
	case 'd':
		return genDur(r)
	case 'o':
		switch r.intn(4) {
		case 0:
			return vNone()
		case 1:
			return vSome(zeroVal(sh.Elem)) // present with default content
		default:
			return vSome(u.genVal(r, sh.Elem, g))
		}
	case 'l':
		var n int
		switch r.intn(12) {
		case 0, 1, 2:
			n = 0
		case 3, 4, 5:
			n = 1
		case 6:
			n = 100 + r.intn(80)
			if sh.Elem.T == 'm' || sh.Elem.T == 'e' || sh.Elem.T == 'b' {
				n = 3 + r.intn(5)
			}
		case 7:
			// element counts between the small and the large class: with 5- or 10-byte elements the packed
			// payload crosses the 127/128 length boundary at 13..26 elements
			n = 6 + r.intn(25)
			if sh.Elem.T == 'm' || sh.Elem.T == 'e' {
				n = 6 + r.intn(6)
			}
		case 8:
			n = 31 + r.intn(69)
			if sh.Elem.T == 'm' || sh.Elem.T == 'e' || sh.Elem.T == 'b' {
				n = 2 + r.intn(4)
			}
		default:
			n = 2 + r.intn(4)
		}
		if g.narrow && n > 2 {
			n = r.intn(3)
		}
		out := &Val{T: 'l'}
		for i := 0; i < n; i++ {
			var e *Val
			if r.intn(6) == 0 {
				e = zeroVal(sh.Elem)
				if sh.Elem.T == 'm' && r.bool() {
					e = zeroMsg(sh.Elem.TI, 'm')
				}
			} else {
				e = u.genVal(r, sh.Elem, g)
			}
			out.L = append(out.L, e)
		}
		return out
	case 'p':
		out := &Val{T: 'p'}
		if g.noMaps {
			return out
		}
		n := []int{0, 1, 1, 2, 3, 4, 6}[r.intn(7)]
		seen := map[string]bool{}
		for i := 0; i < n; i++ {
			var k *Val
			if r.intn(4) == 0 {
				k = zeroVal(sh.Key)
			} else {
				k = genScalar(r, sh.Key.K)
			}
			if seen[k.String()] {
				continue
			}
			seen[k.String()] = true
			var v *Val
			if r.intn(3) == 0 {
				v = zeroVal(sh.Elem)
			} else {
				v = genScalar(r, sh.Elem.K)
			}
			if r.intn(3) == 0 {
				k, v = entryAtBoundary(r, sh.Key.K, sh.Elem.K, k, v)
				if seen[k.String()] {
					continue
				}
				seen[k.String()] = true
			}
			out.L = append(out.L, k, v)
		}
		out.sortMaps()
		return out
	case 'm':
		if g.depth <= 0 || (!g.narrow && r.intn(4) == 0) || !g.spend() {
			if r.bool() && g.depth > -3 {
				return zeroMsg(sh.TI, 'm') // present but empty
			}
			return vNilMsg()
		}
		return u.genMsg(r, sh.TI, 'm', g.down())
	case 'e':
		if g.depth <= 0 || (!g.narrow && r.intn(4) == 0) || !g.spend() {
			return zeroMsg(sh.TI, 'e')
		}
		return u.genMsg(r, sh.TI, 'e', g.down())
	}
	return nil
}

func (u *Universe) genMsg(r *rng, ti *TypeInfo, t byte, g genOpts) *Val {
	msg := &ti.S.Msgs[ti.MI]
	out := &Val{T: t, Some: true}
	// choose at most one member per oneof
	chosen := map[int]int32{}
	for oi := range msg.Oneofs {
		var members []int32
		for _, f := range msg.Fields {
			if f.Oneof == oi {
				members = append(members, f.Num)
			}
		}
		if r.intn(5) != 0 && len(members) > 0 {
			chosen[oi] = members[r.intn(len(members))]
		} else {
			chosen[oi] = -1
		}
	}
	sparse := r.intn(3) == 0 // many fields default
	for i := range msg.Fields {
		f := &msg.Fields[i]
		sh := ti.Shapes[i]
		if f.Oneof >= 0 {
			if chosen[f.Oneof] != f.Num {
				out.L = append(out.L, zeroVal(sh))
				continue
			}
			if sh.T == 'm' {
				// wrapper must hold a non-nil message (C01 domain)
				if g.depth <= 0 || (!g.narrow && r.intn(3) == 0) || !g.spend() {
					out.L = append(out.L, zeroMsg(sh.TI, 'm'))
				} else {
					out.L = append(out.L, u.genMsg(r, sh.TI, 'm', g.down()))
				}
				continue
			}
			if r.intn(3) == 0 {
				out.L = append(out.L, vSome(zeroVal(sh.Elem))) // selected member holding the zero value
			} else {
				out.L = append(out.L, vSome(u.genVal(r, sh.Elem, g)))
			}
			continue
		}
		if sparse && r.intn(4) != 0 {
			out.L = append(out.L, zeroVal(sh))
			continue
		}
		if len(msg.Fields) > 40 && r.intn(len(msg.Fields)) >= 10 {
			// very wide messages (all 180 map codecs in one type): about ten populated fields per value
			out.L = append(out.L, zeroVal(sh))
			continue
		}
		out.L = append(out.L, u.genVal(r, sh, g))
	}
	if msg.Capture && g.unknownOK && r.intn(2) == 0 {
		out.U = genUnknownFields(r, msg, 1+r.intn(3))
	}
	return out
}

// ensure big import is used (Val.I)
var _ = big.NewInt

// scalarFieldSize: bytes of a map-entry component (tag < 16) in the canonical encoding; 0 for the zero value.
func scalarFieldSize(k Kind, v *Val) int {
	if v.T == 'b' {
		if len(v.B) == 0 {
			return 0
		}
		return 1 + protowire.SizeVarint(uint64(len(v.B))) + len(v.B)
	}
	if v.I.Sign() == 0 {
		return 0
	}
	x := v.I.Int64()
	if !v.I.IsInt64() {
		x = int64(v.I.Uint64())
	}
	switch k {
	case KBool:
		return 2
	case KInt32, KInt64, KEnum, KUint32, KUint64:
		return 1 + protowire.SizeVarint(uint64(x))
	case KSint32, KSint64:
		return 1 + protowire.SizeVarint(protowire.EncodeZigZag(x))
	case KFixed32, KSfixed32, KFloat:
		return 5
	default:
		return 9
	}
}

// entryAtBoundary resizes a string/bytes component so that the whole entry payload has a
// length at a varint length-class boundary (127/128/129, seldom 16383/16384/16385).
func entryAtBoundary(r *rng, kk, vk Kind, k, v *Val) (*Val, *Val) {
	target := []int{127, 128, 128, 129}[r.intn(4)]
	if r.intn(12) == 0 {
		target = []int{16383, 16384, 16385}[r.intn(3)]
	}
	resize := func(kind Kind, other int) *Val {
		rest := target - other
		var l int
		switch {
		case rest >= 3 && rest <= 129:
			l = rest - 2
		case rest >= 131 && rest <= 16386:
			l = rest - 3
		default:
			return nil
		}
		if kind == KString {
			return vBytes(genUTF8(r, l))
		}
		b := make([]byte, l)
		for i := range b {
			b[i] = byte(r.u64())
		}
		return vBytes(b)
	}
	if (vk == KString || vk == KBytes) && (kk != KString || r.bool()) {
		if nv := resize(vk, scalarFieldSize(kk, k)); nv != nil {
			return k, nv
		}
	}
	if kk == KString {
		if nk := resize(kk, scalarFieldSize(vk, v)); nk != nil {
			return nk, v
		}
	}
	return k, v
}

// genMsgCapped draws a message value like genMsg and, when its text form exceeds the cap (VERIF_MAX_VAL characters,
// default 90000, about 45 KB of encoding), draws again with a smaller nesting budget. The extracted model's encoder
// appends to an immutable list, so its cost grows with (size x number of nested frames); values of 100 KB and more
// cost tens of seconds each there and are left to the thorough tier. All length classes a test can reach (1, 2 and
// 3 byte prefixes) stay below the cap.
func (u *Universe) genMsgCapped(r *rng, ti *TypeInfo, g genOpts) *Val {
	limit := 90000
	if s := os.Getenv("VERIF_MAX_VAL"); s != "" {
		if n, err := strconv.Atoi(s); err == nil && n > 0 {
			limit = n
		}
	}
	// one value in twelve of a type that can nest (recursive types, chains of message types) is deep and narrow: nesting depth
	// 9 to 24 - one in three of them 30 to 74 - with at most 60 (150) messages in all (a decoder or encoder that treats the
	// first few, or the first few dozen, levels specially must still be right)
	if u.nests(ti) && r.intn(12) == 0 {
		budget, depth := 60, 9+r.intn(16)
		if r.intn(3) == 0 {
			budget, depth = 150, 30+r.intn(45)
		}
		return u.genMsg(r, ti, 'm', genOpts{depth: depth, unknownOK: g.unknownOK, narrow: true, budget: &budget})
	}
	for {
		v := u.genMsg(r, ti, 'm', g)
		if g.depth <= 0 || len(v.String()) <= limit {
			return v
		}
		g.depth--
	}
}

// nests: the type has a message-typed field (so values can be nested deeper than the default budget of 3 shows)
func (u *Universe) nests(ti *TypeInfo) bool {
	for _, f := range ti.S.Msgs[ti.MI].Fields {
		if f.Kind == KMsg && !f.IsMap && f.Custom == CNone && f.Msg >= 0 {
			return true
		}
	}
	return false
}

// hugeValue: the zero message of ti with its first plain string/bytes field set to n bytes; when ti has a pointer sub-message
// with such a field, that one is filled instead (the length prefix of the sub-message then needs four bytes as well). nil if
// the type has no such field.
func (u *Universe) hugeValue(ti *TypeInfo, n int, nested bool) *Val {
	fill := func(t *TypeInfo) *Val {
		v := zeroMsg(t, 'm')
		for i, sh := range t.Shapes {
			f := &t.S.Msgs[t.MI].Fields[i]
			if sh != nil && sh.T == 'b' && f.Oneof < 0 && f.Label == LSingular {
				b := make([]byte, n)
				for j := range b {
					b[j] = byte('a' + j%26)
				}
				v.L[i] = vBytes(b)
				return v
			}
		}
		return nil
	}
	if !nested {
		return fill(ti)
	}
	for i, sh := range ti.Shapes {
		f := &ti.S.Msgs[ti.MI].Fields[i]
		if sh != nil && sh.T == 'm' && f.Oneof < 0 && sh.TI != nil && sh.TI != ti {
			if sub := fill(sh.TI); sub != nil {
				v := zeroMsg(ti, 'm')
				v.L[i] = sub
				return v
			}
		}
	}
	return nil
}
