//go:build verif

package main

import (
	"fmt"
	"math"
	"math/big"

	"google.golang.org/protobuf/reflect/protoreflect"
	"google.golang.org/protobuf/types/dynamicpb"
	"google.golang.org/protobuf/types/known/durationpb"
	"google.golang.org/protobuf/types/known/timestamppb"
)

// Val <-> dynamicpb (the reference implementation's view of a message).
// The *shape* of a slot (optional/list/pointer message/embedded/...) is taken
// from a template Val of the same type (obtained from the Go struct), so the
// oracle result is directly comparable with the picobuf result.

func scalarToPR(k Kind, v *Val) protoreflect.Value {
	switch k {
	case KBool:
		return protoreflect.ValueOfBool(v.I.Sign() != 0)
	case KInt32, KSint32, KSfixed32:
		return protoreflect.ValueOfInt32(int32(v.I.Int64()))
	case KEnum:
		return protoreflect.ValueOfEnum(protoreflect.EnumNumber(int32(v.I.Int64())))
	case KInt64, KSint64, KSfixed64:
		return protoreflect.ValueOfInt64(v.I.Int64())
	case KUint32, KFixed32:
		return protoreflect.ValueOfUint32(uint32(v.I.Uint64()))
	case KUint64, KFixed64:
		return protoreflect.ValueOfUint64(v.I.Uint64())
	case KFloat:
		return protoreflect.ValueOfFloat32(math.Float32frombits(uint32(v.I.Uint64())))
	case KDouble:
		return protoreflect.ValueOfFloat64(math.Float64frombits(v.I.Uint64()))
	case KString:
		return protoreflect.ValueOfString(string(v.B))
	case KBytes:
		return protoreflect.ValueOfBytes(append([]byte{}, v.B...))
	}
	panic("scalarToPR: kind")
}

func scalarFromPR(k Kind, pv protoreflect.Value) *Val {
	switch k {
	case KBool:
		if pv.Bool() {
			return vInt(1)
		}
		return vInt(0)
	case KInt32, KSint32, KSfixed32, KInt64, KSint64, KSfixed64:
		return vInt(pv.Int())
	case KEnum:
		return vInt(int64(pv.Enum()))
	case KUint32, KFixed32, KUint64, KFixed64:
		return vUint(pv.Uint())
	case KFloat:
		return vUint(uint64(math.Float32bits(float32(pv.Float()))))
	case KDouble:
		return vUint(math.Float64bits(pv.Float()))
	case KString:
		return vBytes([]byte(pv.String()))
	case KBytes:
		return vBytes(pv.Bytes())
	}
	panic("scalarFromPR: kind")
}

// isEmptyMsgVal: message value with no content at all (all slots default/absent).
func isDefaultVal(v *Val) bool {
	switch v.T {
	case 'i', 'd':
		return v.I.Sign() == 0
	case 't':
		return v.I.Cmp(big.NewInt(-62135596800)) == 0 && v.I2.Sign() == 0
	case 'b':
		return len(v.B) == 0
	case 'o', 'm':
		return !v.Some
	case 'l', 'p':
		return len(v.L) == 0
	case 'e':
		for _, e := range v.L {
			if !isDefaultVal(e) {
				return false
			}
		}
		return len(v.U) == 0
	}
	return false
}

func tsToVal(m protoreflect.Message) (sec, nanos int64) {
	fs := m.Descriptor().Fields()
	return m.Get(fs.ByNumber(1)).Int(), m.Get(fs.ByNumber(2)).Int()
}

// toDyn fills a dynamicpb message from a message Val.
func (u *Universe) toDyn(ti *TypeInfo, v *Val) (*dynamicpb.Message, error) {
	md := u.oracleDesc(ti)
	if md == nil {
		return nil, fmt.Errorf("no oracle descriptor for %s", ti.Key)
	}
	dm := dynamicpb.NewMessage(md)
	msg := &ti.S.Msgs[ti.MI]
	for i := range msg.Fields {
		f := &msg.Fields[i]
		fd := md.Fields().ByNumber(protoreflect.FieldNumber(f.Num))
		if err := u.setDyn(ti.S, f, fd, dm, v.L[i]); err != nil {
			return nil, err
		}
	}
	if len(v.U) > 0 {
		dm.SetUnknown(append([]byte{}, v.U...))
	}
	return dm, nil
}

func (u *Universe) elemToPR(s *Schema, f *Field, fd protoreflect.FieldDescriptor, dm protoreflect.Message, v *Val, mapVal bool) (protoreflect.Value, bool, error) {
	// returns (value, present)
	switch v.T {
	case 'i', 'b':
		k := f.Kind
		if f.IsMap {
			if mapVal {
				k = f.MapVal
			} else {
				k = f.MapKey
			}
		}
		return scalarToPR(k, v), true, nil
	case 't':
		sub := dynamicpb.NewMessage(fd.Message())
		sub.Set(fd.Message().Fields().ByNumber(1), protoreflect.ValueOfInt64(v.I.Int64()))
		sub.Set(fd.Message().Fields().ByNumber(2), protoreflect.ValueOfInt32(int32(v.I2.Int64())))
		return protoreflect.ValueOfMessage(sub), !isDefaultVal(v), nil
	case 'd':
		ns := v.I.Int64()
		sub := dynamicpb.NewMessage(fd.Message())
		sub.Set(fd.Message().Fields().ByNumber(1), protoreflect.ValueOfInt64(ns/1e9))
		sub.Set(fd.Message().Fields().ByNumber(2), protoreflect.ValueOfInt32(int32(ns%1e9)))
		return protoreflect.ValueOfMessage(sub), true, nil
	case 'o':
		if !v.Some {
			return protoreflect.Value{}, false, nil
		}
		pv, present, err := u.elemToPR(s, f, fd, dm, v.L[0], mapVal)
		if v.L[0].T == 'e' {
			present = true // a selected oneof member holding its message by value is present even when it is empty
		}
		return pv, present, err
	case 'm', 'e':
		if v.T == 'm' && !v.Some {
			return protoreflect.Value{}, false, nil
		}
		sub, err := u.toDyn(u.typeFor(s, f.Msg), v)
		if err != nil {
			return protoreflect.Value{}, false, err
		}
		// by design an always-present message with no content is encoded as absent
		return protoreflect.ValueOfMessage(sub), !(v.T == 'e' && isDefaultVal(v)), nil
	}
	return protoreflect.Value{}, false, fmt.Errorf("elemToPR: unexpected %s", v)
}

func (u *Universe) setDyn(s *Schema, f *Field, fd protoreflect.FieldDescriptor, dm protoreflect.Message, v *Val) error {
	switch {
	case f.IsMap:
		if v.T != 'p' {
			return fmt.Errorf("map field %s: %s", f.Name, v)
		}
		mp := dm.Mutable(fd).Map()
		for i := 0; i+1 < len(v.L); i += 2 {
			k := scalarToPR(f.MapKey, v.L[i])
			e := scalarToPR(f.MapVal, v.L[i+1])
			mp.Set(k.MapKey(), e)
		}
		return nil
	case v.T == 'l':
		if len(v.L) == 0 {
			return nil
		}
		l := dm.Mutable(fd).List()
		for _, e := range v.L {
			pv, present, err := u.elemToPR(s, f, fd, dm, e, false)
			if err != nil {
				return err
			}
			if !present {
				// nil element of a repeated pointer field / zero time in a repeated cast:
				// picobuf emits an empty message resp. nothing; see norm in DESIGN 3.1
				if e.T == 'm' {
					l.Append(protoreflect.ValueOfMessage(dynamicpb.NewMessage(fd.Message())))
				}
				if e.T == 'e' {
					l.Append(pv) // an element is an element, even with no content
				}
				continue
			}
			l.Append(pv)
		}
		return nil
	default:
		pv, present, err := u.elemToPR(s, f, fd, dm, v, false)
		if err != nil {
			return err
		}
		if !present {
			return nil
		}
		if f.Label == LOptional && (v.T == 'i' || v.T == 'b') && isDefaultVal(v) {
			// `optional` made presence-less by always_present: the default is not on the wire
			return nil
		}
		// proto3 singular scalar without presence: Set of the default is a no-op for Has(), fine
		dm.Set(fd, pv)
		return nil
	}
}

// fromDyn reads a dynamicpb message into a Val of the message's shape.
func (u *Universe) fromDyn(ti *TypeInfo, dm protoreflect.Message, t byte) (*Val, error) {
	md := dm.Descriptor()
	msg := &ti.S.Msgs[ti.MI]
	out := &Val{T: t, Some: true}
	for i := range msg.Fields {
		f := &msg.Fields[i]
		fd := md.Fields().ByNumber(protoreflect.FieldNumber(f.Num))
		if ti.Shapes[i] == nil {
			return nil, fmt.Errorf("%s: opaque custom field %s", ti.Key, f.Name)
		}
		v, err := u.getDyn(ti.S, f, fd, dm, ti.Shapes[i])
		if err != nil {
			return nil, err
		}
		out.L = append(out.L, v)
	}
	if msg.Capture {
		out.U = canonUnknown(dm.GetUnknown())
	}
	return out, nil
}

func refTime(sec int64, nanos int32) *Val {
	t := (&timestamppb.Timestamp{Seconds: sec, Nanos: nanos}).AsTime()
	return vTime(t.Unix(), int64(t.Nanosecond()))
}

func refDuration(sec int64, nanos int32) int64 {
	return int64((&durationpb.Duration{Seconds: sec, Nanos: nanos}).AsDuration())
}

func (u *Universe) elemFromPR(s *Schema, f *Field, fd protoreflect.FieldDescriptor, pv protoreflect.Value, sh *Shape) (*Val, error) {
	switch sh.T {
	case 'i', 'b':
		return scalarFromPR(sh.K, pv), nil
	case 't':
		sec, ns := tsToVal(pv.Message())
		return refTime(sec, int32(ns)), nil
	case 'd':
		sec, ns := tsToVal(pv.Message())
		return vDur(refDuration(sec, int32(ns))), nil
	case 'o':
		e, err := u.elemFromPR(s, f, fd, pv, sh.Elem)
		if err != nil {
			return nil, err
		}
		return vSome(e), nil
	case 'm', 'e':
		return u.fromDyn(sh.TI, pv.Message(), sh.T)
	}
	return nil, fmt.Errorf("elemFromPR: shape %s", sh)
}

func (u *Universe) getDyn(s *Schema, f *Field, fd protoreflect.FieldDescriptor, dm protoreflect.Message, sh *Shape) (*Val, error) {
	switch sh.T {
	case 'p':
		out := &Val{T: 'p'}
		if dm.Has(fd) {
			dm.Get(fd).Map().Range(func(k protoreflect.MapKey, v protoreflect.Value) bool {
				out.L = append(out.L, scalarFromPR(f.MapKey, k.Value()), scalarFromPR(f.MapVal, v))
				return true
			})
		}
		out.sortMaps()
		return out, nil
	case 'l':
		out := &Val{T: 'l'}
		if !dm.Has(fd) {
			return out, nil
		}
		l := dm.Get(fd).List()
		for i := 0; i < l.Len(); i++ {
			e, err := u.elemFromPR(s, f, fd, l.Get(i), sh.Elem)
			if err != nil {
				return nil, err
			}
			out.L = append(out.L, e)
		}
		return out, nil
	case 'o', 'm', 'e', 't', 'd':
		if !dm.Has(fd) {
			return zeroVal(sh), nil
		}
		return u.elemFromPR(s, f, fd, dm.Get(fd), sh)
	default:
		return scalarFromPR(sh.K, dm.Get(fd)), nil
	}
}
