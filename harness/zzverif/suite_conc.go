//go:build verif

package main

import (
	"bufio"
	"bytes"
	"encoding/hex"
	"fmt"
	"go/ast"
	"go/parser"
	"go/token"
	"path/filepath"
	"reflect"
	"sort"
	"strconv"
	"strings"
	"sync"
	"time"

	"google.golang.org/protobuf/encoding/protowire"

	"storj.io/picobuf"
	"storj.io/picobuf/picoconv"
)

// ---- C16: concurrent Marshal/Unmarshal vs the sequential baseline (run under -race) -------

func init() {
	// race <seed> <n> <goroutines>
	register("race", func(args []string, out *bufio.Writer) error {
		seed, _ := strconv.ParseUint(args[0], 10, 64)
		n, _ := strconv.Atoi(args[1])
		g, _ := strconv.Atoi(args[2])
		u, err := loadUniverse()
		if err != nil {
			return err
		}
		types := u.usableTypes(nil)
		r := newRng(seed)
		for i := 0; i < n; i++ {
			ti := types[i%len(types)]
			cr := r.fork()
			v := u.genMsgCapped(cr, ti, genOpts{depth: 3, unknownOK: true})
			m, err := u.build(ti, v, buildOpts{})
			if err != nil {
				continue
			}
			// time.Time values in a non-UTC location (what time.Now()/time.Unix() give callers).
			// m is marshalled for the first time by the concurrent goroutines; the sequential baseline
			// comes from a twin (a warm-up Marshal of m itself could hide a write-back); a second twin
			// stays untouched for the "message unmodified" comparison.
			fixedZone := cr.intn(2) == 0
			localizeTimes(reflect.ValueOf(m).Elem(), fixedZone)
			m0, err0 := u.build(ti, v, buildOpts{})
			m1, err1 := u.build(ti, v, buildOpts{})
			if err0 != nil || err1 != nil {
				continue
			}
			localizeTimes(reflect.ValueOf(m0).Elem(), fixedZone)
			localizeTimes(reflect.ValueOf(m1).Elem(), fixedZone)
			before, _ := u.read(ti, m)
			base, pan := safeMarshal(m0)
			if pan != "" {
				continue
			}
			seq := ti.New()
			seqSt := safeUnmarshal(base, seq)
			seqVal, _ := u.read(ti, seq)
			baseSt, baseVal := seqSt, seqVal // what the Marshal output denotes
			var wg sync.WaitGroup
			results := make([]string, g)
			shared := append([]byte{}, base...) // the same input bytes for every decoder
			if cr.intn(2) == 0 {
				// a wire-equivalent rewriting with injected unknown fields and (nested) groups
				if recs, ok := u.parseRecs(ti, nil, base); ok {
					st := rwStats{}
					shared = serialize(u.rewrite(cr, ti, nil, recs, st, 0))
					shared = append(shared, nestedSiblingGroups(cr, &ti.S.Msgs[ti.MI])...)
					seq = ti.New()
					seqSt = safeUnmarshal(shared, seq)
					seqVal, _ = u.read(ti, seq)
				}
			}
			sharedCopy := append([]byte{}, shared...)
			// one rejected input per goroutine, each failing at another field or in another way (a known field with a wire
			// type it does not accept, a cut inside the input); what each call reports is taken sequentially first
			fields := ti.S.Msgs[ti.MI].Fields
			malformed := make([][]byte, g)
			malSt := make([]string, g)
			for j := 0; j < g; j++ {
				mal := append([]byte{}, shared...)
				if len(fields) > 0 && j%3 != 2 {
					f := fields[(i+j)%len(fields)]
					wt := protowire.Fixed32Type
					if k := f.Kind; k == KFixed32 || k == KSfixed32 || k == KFloat {
						wt = protowire.VarintType
					}
					mal = append(protowire.AppendTag(mal, protowire.Number(f.Num), wt), 1, 2, 3, 4, byte(j))
				} else if len(mal) > 1 {
					mal = mal[:1+(j*7)%(len(mal)-1)]
				}
				malformed[j] = mal
				malSt[j] = safeUnmarshal(mal, ti.New())
			}
			for j := 0; j < g; j++ {
				wg.Add(1)
				go func(j int) {
					defer wg.Done()
					defer func() {
						if rr := recover(); rr != nil {
							results[j] = "PANIC"
						}
					}()
					// concurrent Marshal of the same (unmodified) message
					b, _ := picobuf.Marshal(m)
					if !ti.S.hasMap(ti.MI) {
						if !bytes.Equal(b, base) {
							results[j] = "marshal-differs:" + hex.EncodeToString(b)
							return
						}
					} else {
						// map iteration order may differ between calls: compare what the bytes denote
						y := ti.New()
						st := safeUnmarshal(b, y)
						yv, _ := u.read(ti, y)
						if st != baseSt || (yv != nil && baseVal != nil && yv.String() != baseVal.String()) {
							results[j] = "marshal-differs(map):" + st + "|" + baseSt + "|" + firstDiff(yv, baseVal)
							return
						}
					}
					// concurrent Unmarshal of the same input bytes into distinct messages
					x := ti.New()
					st := safeUnmarshal(shared, x)
					xv, _ := u.read(ti, x)
					if st != seqSt || (xv != nil && seqVal != nil && xv.String() != seqVal.String()) {
						results[j] = "unmarshal-differs:" + st
						return
					}
					// concurrent Unmarshal of rejected inputs, a different one in every goroutine
					if st := safeUnmarshal(malformed[j], ti.New()); st != malSt[j] {
						results[j] = "unmarshal-of-rejected-input-differs: " + st + " / sequentially " + malSt[j]
						return
					}
					// time conversions
					d := picoconv.Duration(time.Duration(int64(j) * 1500000001))
					enc := picobuf.NewEncoder()
					d.PicoEncode(enc, 1)
					var back picoconv.Duration
					dec := picobuf.NewDecoder(enc.Buffer())
					dec.VerifInit()
					back.PicoDecode(dec, 1)
					if back != d {
						results[j] = "duration-differs"
						return
					}
					results[j] = "ok"
				}(j)
			}
			wg.Wait()
			bad := []string{}
			for _, s := range results {
				if s != "ok" {
					bad = append(bad, s)
				}
			}
			if !bytes.Equal(shared, sharedCopy) {
				bad = append(bad, "shared-input-modified")
			}
			if after, _ := u.read(ti, m); before != nil && after != nil && before.String() != after.String() {
				bad = append(bad, "message-modified-by-Marshal")
			} else if !sameTimes(reflect.ValueOf(m), reflect.ValueOf(m1)) {
				bad = append(bad, "message-modified-by-Marshal(time.Time representation)")
			}
			status := "ok"
			if len(bad) > 0 {
				status = strings.Join(bad, ";")
				if len(status) > 400 {
					status = status[:400]
				}
			}
			fmt.Fprintf(out, "race\t%s\t%d\t%s\t%s\n", ti.Key, g, v, status)
		}
		return nil
	})

	// tglobals: package-level variables of the runtime packages, their writes, and goroutine/sync/unsafe uses
	register("tglobals", func(args []string, out *bufio.Writer) error {
		pkgs := map[string]string{"storj.io/picobuf": ".", "storj.io/picobuf/picowire": "picowire", "storj.io/picobuf/picoconv": "picoconv",
			"storj.io/picobuf/internal/protowire": "internal/protowire"}
		names := []string{}
		for n := range pkgs {
			names = append(names, n)
		}
		sort.Strings(names)
		for _, pn := range names {
			dir := filepath.Join(repoRoot(), pkgs[pn])
			fset := token.NewFileSet()
			ps, err := parser.ParseDir(fset, dir, func(fi fsFileInfo) bool { return !strings.HasSuffix(fi.Name(), "_test.go") }, 0)
			if err != nil {
				fmt.Fprintf(out, "globalerror\t%s\t%s\n", pn, oneLine(err.Error()))
				continue
			}
			for _, p := range ps {
				if strings.HasSuffix(p.Name, "_test") {
					continue
				}
				globals := map[string]string{}
				for _, f := range p.Files {
					for _, imp := range f.Imports {
						path := strings.Trim(imp.Path.Value, `"`)
						if path == "unsafe" || path == "sync" || path == "sync/atomic" {
							fmt.Fprintf(out, "import\t%s\t%s\n", pn, path)
						}
					}
					for _, d := range f.Decls {
						gd, ok := d.(*ast.GenDecl)
						if !ok || gd.Tok != token.VAR {
							continue
						}
						for _, sp := range gd.Specs {
							vs := sp.(*ast.ValueSpec)
							for i, nm := range vs.Names {
								if nm.Name == "_" {
									continue
								}
								init := ""
								if i < len(vs.Values) {
									init = exprText(fset, vs.Values[i])
								}
								globals[nm.Name] = init
							}
						}
					}
				}
				writes := map[string]int{}
				for _, f := range p.Files {
					ast.Inspect(f, func(n ast.Node) bool {
						switch x := n.(type) {
						case *ast.GoStmt:
							fmt.Fprintf(out, "gostmt\t%s\t%s\n", pn, fset.Position(x.Pos()))
						case *ast.AssignStmt:
							for _, l := range x.Lhs {
								if id, ok := l.(*ast.Ident); ok && x.Tok != token.DEFINE {
									if _, g := globals[id.Name]; g && id.Obj != nil && id.Obj.Kind == ast.Var && isPkgLevel(p, id) {
										writes[id.Name]++
									}
								}
							}
						case *ast.IncDecStmt:
							if id, ok := x.X.(*ast.Ident); ok {
								if _, g := globals[id.Name]; g && isPkgLevel(p, id) {
									writes[id.Name]++
								}
							}
						case *ast.UnaryExpr:
							if x.Op == token.AND {
								if id, ok := x.X.(*ast.Ident); ok {
									if _, g := globals[id.Name]; g && isPkgLevel(p, id) {
										writes[id.Name]++
									}
								}
							}
						}
						return true
					})
				}
				gn := []string{}
				for g := range globals {
					gn = append(gn, g)
				}
				sort.Strings(gn)
				for _, g := range gn {
					fmt.Fprintf(out, "global\t%s\t%s\t%s\t%d\n", pn, g, oneLine(globals[g]), writes[g])
				}
			}
		}
		return nil
	})
}

func exprText(fset *token.FileSet, e ast.Expr) string {
	var b bytes.Buffer
	ast.Fprint(&b, fset, e, nil)
	if c, ok := e.(*ast.CallExpr); ok {
		if s, ok := c.Fun.(*ast.SelectorExpr); ok {
			if x, ok := s.X.(*ast.Ident); ok {
				return x.Name + "." + s.Sel.Name + "(...)"
			}
		}
	}
	return fmt.Sprintf("%T", e)
}

// isPkgLevel: the identifier resolves to the package-level declaration (not a shadowing local)
func isPkgLevel(p *ast.Package, id *ast.Ident) bool {
	if id.Obj == nil {
		return true // unresolved within the file: refers to another file's package-level decl
	}
	if vs, ok := id.Obj.Decl.(*ast.ValueSpec); ok {
		for _, f := range p.Files {
			for _, d := range f.Decls {
				if gd, ok := d.(*ast.GenDecl); ok {
					for _, sp := range gd.Specs {
						if sp == vs {
							return true
						}
					}
				}
			}
		}
	}
	return false
}

// localizeTimes moves every time.Time (the zero instant included: it stays IsZero) reachable from v into a fixed non-UTC zone
// (same instant): Marshal must not care, and must not write the value back.
var verifZone = time.FixedZone("verif", 3600)

func localizeTimes(v reflect.Value, fixed bool) {
	loc := verifZone
	if !fixed {
		loc = time.Local
	}
	switch v.Kind() {
	case reflect.Struct:
		if v.Type() == timeType {
			t := v.Interface().(time.Time)
			if v.CanSet() {
				v.Set(reflect.ValueOf(t.In(loc)))
			}
			return
		}
		for i := 0; i < v.NumField(); i++ {
			if v.Field(i).CanSet() || v.Field(i).Kind() == reflect.Ptr || v.Field(i).Kind() == reflect.Slice {
				localizeTimes(v.Field(i), fixed)
			}
		}
	case reflect.Ptr, reflect.Interface:
		if !v.IsNil() {
			localizeTimes(v.Elem(), fixed)
		}
	case reflect.Slice:
		for i := 0; i < v.Len(); i++ {
			localizeTimes(v.Index(i), fixed)
		}
	}
}

// nestedSiblingGroups: an unknown group containing sibling groups with different numbers
func nestedSiblingGroups(r *rng, msg *Msg) []byte {
	var b []byte
	outer := unknownNumber(r, msg)
	b = protowire.AppendTag(b, outer, protowire.StartGroupType)
	for i := 0; i < 2+r.intn(4); i++ {
		n := protowire.Number(50 + i)
		b = protowire.AppendTag(b, n, protowire.StartGroupType)
		b = protowire.AppendVarint(protowire.AppendTag(b, 1, protowire.VarintType), uint64(i))
		b = protowire.AppendTag(b, n, protowire.EndGroupType)
	}
	b = protowire.AppendTag(b, outer, protowire.EndGroupType)
	return b
}

func firstDiff(a, b *Val) string {
	if a == nil || b == nil {
		return "nil"
	}
	x, y := a.String(), b.String()
	i := 0
	for i < len(x) && i < len(y) && x[i] == y[i] {
		i++
	}
	lo := i - 60
	if lo < 0 {
		lo = 0
	}
	hx, hy := i+80, i+80
	if hx > len(x) {
		hx = len(x)
	}
	if hy > len(y) {
		hy = len(y)
	}
	return x[lo:hx] + " <> " + y[lo:hy]
}

// sameTimes: every time.Time reachable from a equals (==: wall, ext and location pointer) its
// counterpart in b; a and b are twins built from the same value.
func sameTimes(a, b reflect.Value) bool {
	if a.Kind() != b.Kind() {
		return false
	}
	switch a.Kind() {
	case reflect.Struct:
		if a.Type() == timeType {
			return a.Interface().(time.Time) == b.Interface().(time.Time)
		}
		for i := 0; i < a.NumField(); i++ {
			if !sameTimes(a.Field(i), b.Field(i)) {
				return false
			}
		}
	case reflect.Ptr, reflect.Interface:
		if a.IsNil() || b.IsNil() {
			return a.IsNil() == b.IsNil()
		}
		return sameTimes(a.Elem(), b.Elem())
	case reflect.Slice:
		if a.Len() != b.Len() {
			return false
		}
		for i := 0; i < a.Len(); i++ {
			if !sameTimes(a.Index(i), b.Index(i)) {
				return false
			}
		}
	}
	return true
}
