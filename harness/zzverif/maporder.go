//go:build verif

package main

import (
	"google.golang.org/protobuf/encoding/protowire"
)

// reorderMaps rewrites the map slots of v (in place) so that their entry order
// is the order in which Marshal actually emitted the entries in data. The model's
// VMap order is universally quantified in the theorems; the harness instantiates
// it with the iteration order Go happened to use, so bytes can be compared exactly.
func (u *Universe) reorderMaps(ti *TypeInfo, v *Val, data []byte) {
	if v == nil || !v.Some && v.T == 'm' {
		return
	}
	msg := &ti.S.Msgs[ti.MI]
	byNum := map[int32]int{}
	for i := range msg.Fields {
		byNum[msg.Fields[i].Num] = i
	}
	order := map[int][]string{} // slot -> key strings in wire order
	occ := map[int]int{}        // slot -> occurrence counter for repeated messages
	rest := data
	for len(rest) > 0 {
		num, typ, n := protowire.ConsumeTag(rest)
		if n < 0 {
			return
		}
		m := protowire.ConsumeFieldValue(num, typ, rest[n:])
		if m < 0 {
			return
		}
		val := rest[n : n+m]
		rest = rest[n+m:]
		slot, ok := byNum[int32(num)]
		if !ok || typ != protowire.BytesType || slot >= len(v.L) {
			continue
		}
		f := &msg.Fields[slot]
		payload, k := protowire.ConsumeBytes(val)
		if k < 0 {
			continue
		}
		sh := ti.Shapes[slot]
		if sh == nil {
			continue
		}
		switch {
		case f.IsMap:
			// key = field 1 of the entry (absent = zero key)
			key := zeroVal(sh.Key)
			p := payload
			for len(p) > 0 {
				n2, t2, l2 := protowire.ConsumeTag(p)
				if l2 < 0 {
					break
				}
				m2 := protowire.ConsumeFieldValue(n2, t2, p[l2:])
				if m2 < 0 {
					break
				}
				if n2 == 1 {
					fresh := ti.New()
					_ = fresh
					key = decodeScalarForOrder(f.MapKey, t2, p[l2:l2+m2])
				}
				p = p[l2+m2:]
			}
			order[slot] = append(order[slot], key.String())
		case sh.T == 'm' || sh.T == 'e':
			sub := v.L[slot]
			if sub.Some || sub.T == 'e' {
				u.reorderMaps(sh.TI, sub, payload)
			}
		case sh.T == 'o' && sh.Elem != nil && sh.Elem.T == 'e':
			// by-value member of a oneof
			if sub := v.L[slot]; sub.Some && len(sub.L) == 1 {
				u.reorderMaps(sh.Elem.TI, sub.L[0], payload)
			}
		case sh.T == 'l' && (sh.Elem.T == 'm' || sh.Elem.T == 'e'):
			i := occ[slot]
			occ[slot]++
			if i < len(v.L[slot].L) {
				u.reorderMaps(sh.Elem.TI, v.L[slot].L[i], payload)
			}
		}
	}
	for slot, keys := range order {
		mv := v.L[slot]
		pos := map[string]int{}
		for i, k := range keys {
			if _, dup := pos[k]; !dup {
				pos[k] = i
			}
		}
		n := len(mv.L) / 2
		out := make([]*Val, 0, len(mv.L))
		used := make([]bool, n)
		for _, k := range keys {
			for i := 0; i < n; i++ {
				if !used[i] && mv.L[2*i].String() == k {
					used[i] = true
					out = append(out, mv.L[2*i], mv.L[2*i+1])
					break
				}
			}
		}
		for i := 0; i < n; i++ {
			if !used[i] {
				out = append(out, mv.L[2*i], mv.L[2*i+1])
			}
		}
		mv.L = out
	}
}

// decodeScalarForOrder decodes a map key the way the protobuf spec says (used only
// to recognise which entry is which; kinds valid as map keys only).
func decodeScalarForOrder(k Kind, typ protowire.Type, b []byte) *Val {
	switch typ {
	case protowire.VarintType:
		x, _ := protowire.ConsumeVarint(b)
		switch k {
		case KBool:
			if x != 0 {
				return vInt(1)
			}
			return vInt(0)
		case KInt32:
			return vInt(int64(int32(x)))
		case KInt64:
			return vInt(int64(x))
		case KUint32:
			return vUint(uint64(uint32(x)))
		case KUint64:
			return vUint(x)
		case KSint32:
			return vInt(int64(int32(protowire.DecodeZigZag(uint64(uint32(x))))))
		case KSint64:
			return vInt(protowire.DecodeZigZag(x))
		}
	case protowire.Fixed32Type:
		x, _ := protowire.ConsumeFixed32(b)
		if k == KSfixed32 {
			return vInt(int64(int32(x)))
		}
		return vUint(uint64(x))
	case protowire.Fixed64Type:
		x, _ := protowire.ConsumeFixed64(b)
		if k == KSfixed64 {
			return vInt(int64(x))
		}
		return vUint(x)
	case protowire.BytesType:
		x, _ := protowire.ConsumeBytes(b)
		return vBytes(x)
	}
	return vInt(0)
}
