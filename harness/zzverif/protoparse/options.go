//go:build verif

package protoparse

import (
	"fmt"
	"strings"

	"google.golang.org/protobuf/encoding/protowire"
	"google.golang.org/protobuf/proto"
	"google.golang.org/protobuf/reflect/protoreflect"
	"google.golang.org/protobuf/types/descriptorpb"
)

// PicoFieldOpts is the decoded (pico.field) option of a field.
type PicoFieldOpts struct {
	AlwaysPresent   bool
	CustomType      string
	CustomSerialize string
}

type picoSub struct {
	num  protowire.Number
	kind byte // 'b' bool, 's' string
}

var picoFieldSubs = map[string]picoSub{
	"always_present":   {1, 'b'},
	"custom_type":      {2, 's'},
	"custom_serialize": {3, 's'},
}

var picoMessageSubs = map[string]picoSub{
	"always_present":              {1, 'b'},
	"capture_unrecognized_fields": {2, 'b'},
}

func optName(parts []optPart) string {
	var b strings.Builder
	for i, pt := range parts {
		if i > 0 {
			b.WriteByte('.')
		}
		if pt.ext {
			b.WriteString("(" + pt.name + ")")
		} else {
			b.WriteString(pt.name)
		}
	}
	return b.String()
}

func (p *parser) constBool(st optStmt) bool {
	c := st.val
	if c.kind == cIdent && !c.neg {
		switch c.id {
		case "true":
			return true
		case "false":
			return false
		}
	}
	p.failAt(c.tok, "value must be \"true\" or \"false\" for boolean option %q", optName(st.parts))
	return false
}

func (p *parser) constString(st optStmt) string {
	if st.val.kind != cString {
		p.failAt(st.val.tok, "value must be quoted string for string option %q", optName(st.parts))
	}
	return st.val.str
}

// picoRaw encodes one `(pico.x).sub = value` statement as an unknown field of
// the options message: field 28980, length-delimited, holding a single field.
// protoc keeps one such entry per option statement (it does not merge them).
func (p *parser) picoRaw(st optStmt, subs map[string]picoSub) []byte {
	if len(st.parts) == 1 {
		p.failAt(st.tok, "option %q must be set through its sub-fields (e.g. %s.always_present = true); message literals are not part of the supported subset", optName(st.parts), optName(st.parts))
	}
	if len(st.parts) != 2 || st.parts[1].ext {
		p.failAt(st.tok, "unsupported option path %q", optName(st.parts))
	}
	sub, ok := subs[st.parts[1].name]
	if !ok {
		p.failAt(st.tok, "option %q unknown: %q has no field %q", optName(st.parts), st.parts[0].name, st.parts[1].name)
	}
	var inner []byte
	switch sub.kind {
	case 'b':
		v := uint64(0)
		if p.constBool(st) {
			v = 1
		}
		inner = protowire.AppendTag(inner, sub.num, protowire.VarintType)
		inner = protowire.AppendVarint(inner, v)
	case 's':
		s := p.constString(st)
		inner = protowire.AppendTag(inner, sub.num, protowire.BytesType)
		inner = protowire.AppendString(inner, s)
	}
	raw := protowire.AppendTag(nil, picoExtensionNumber, protowire.BytesType)
	return protowire.AppendBytes(raw, inner)
}

func appendUnknown(m proto.Message, raw []byte) {
	r := m.ProtoReflect()
	r.SetUnknown(append(append(protoreflect.RawFields(nil), r.GetUnknown()...), raw...))
}

// interpretOptions turns the recorded option statements into option messages.
func (p *parser) interpretOptions(st *symtab) {
	for _, tg := range p.opts {
		seen := map[string]bool{}
		for _, s := range tg.stmts {
			name := optName(s.parts)
			ext := ""
			if s.parts[0].ext {
				full, sym, err := st.lookup(tg.scope, s.parts[0].name, false)
				if err != nil {
					p.failAt(s.tok, "option %q unknown: %v (is pico.proto imported?)", name, err)
				}
				if sym.kind != symExtension {
					p.failAt(s.tok, "option %q: %q is not an extension", name, s.parts[0].name)
				}
				ext = "." + full
				name = "(" + full + ")"
				for _, pt := range s.parts[1:] {
					name += "." + pt.name
				}
			}
			if seen[name] {
				p.failAt(s.tok, "option %q was already set", optName(s.parts))
			}
			seen[name] = true
			switch {
			case tg.file != nil:
				p.fileOption(tg, s, ext)
			case tg.msg != nil:
				p.messageOption(tg, s, ext)
			case tg.field != nil:
				p.fieldOption(tg, s, ext)
			case tg.enum != nil:
				p.enumOption(tg, s, ext)
			case tg.eval != nil:
				p.enumValueOption(tg, s, ext)
			default:
				p.failAt(s.tok, "options are not supported here")
			}
		}
	}
}

func (p *parser) unsupportedOption(s optStmt, where string) {
	p.failAt(s.tok, "%s option %q is not part of the supported subset", where, optName(s.parts))
}

func simpleName(s optStmt) string {
	if len(s.parts) == 1 && !s.parts[0].ext {
		return s.parts[0].name
	}
	return ""
}

func (p *parser) fileOption(tg *optTarget, s optStmt, ext string) {
	if ext != "" {
		p.unsupportedOption(s, "custom file")
	}
	if tg.file.Options == nil {
		tg.file.Options = &descriptorpb.FileOptions{}
	}
	o := tg.file.Options
	switch simpleName(s) {
	case "go_package":
		o.GoPackage = proto.String(p.constString(s))
	case "java_package":
		o.JavaPackage = proto.String(p.constString(s))
	case "java_outer_classname":
		o.JavaOuterClassname = proto.String(p.constString(s))
	case "java_multiple_files":
		o.JavaMultipleFiles = proto.Bool(p.constBool(s))
	case "objc_class_prefix":
		o.ObjcClassPrefix = proto.String(p.constString(s))
	case "csharp_namespace":
		o.CsharpNamespace = proto.String(p.constString(s))
	case "deprecated":
		o.Deprecated = proto.Bool(p.constBool(s))
	default:
		p.unsupportedOption(s, "file")
	}
}

func (p *parser) messageOption(tg *optTarget, s optStmt, ext string) {
	if tg.msg.Options == nil {
		tg.msg.Options = &descriptorpb.MessageOptions{}
	}
	o := tg.msg.Options
	if ext != "" {
		if ext != picoMessageExtenson {
			p.failAt(s.tok, "custom option %q is not part of the supported subset (only (pico.message) may be set on messages)", optName(s.parts))
		}
		appendUnknown(o, p.picoRaw(s, picoMessageSubs))
		return
	}
	switch simpleName(s) {
	case "deprecated":
		o.Deprecated = proto.Bool(p.constBool(s))
	case "map_entry":
		p.failAt(s.tok, "map_entry should not be set explicitly. Use map<KeyType, ValueType> instead")
	default:
		p.unsupportedOption(s, "message")
	}
}

func (p *parser) fieldOption(tg *optTarget, s optStmt, ext string) {
	f := tg.field
	if ext == "" && simpleName(s) == "json_name" {
		// json_name is not a real option: it sets FieldDescriptorProto.json_name
		f.JsonName = proto.String(p.constString(s))
		return
	}
	if ext == "" && simpleName(s) == "default" {
		p.failAt(s.tok, "explicit default values are not allowed in proto3")
	}
	if f.Options == nil {
		f.Options = &descriptorpb.FieldOptions{}
	}
	o := f.Options
	if ext != "" {
		if ext != picoFieldExtension {
			p.failAt(s.tok, "custom option %q is not part of the supported subset (only (pico.field) may be set on fields)", optName(s.parts))
		}
		appendUnknown(o, p.picoRaw(s, picoFieldSubs))
		return
	}
	switch simpleName(s) {
	case "deprecated":
		o.Deprecated = proto.Bool(p.constBool(s))
	case "packed":
		o.Packed = proto.Bool(p.constBool(s))
	default:
		p.unsupportedOption(s, "field")
	}
}

func (p *parser) enumOption(tg *optTarget, s optStmt, ext string) {
	if ext != "" {
		p.unsupportedOption(s, "custom enum")
	}
	if tg.enum.Options == nil {
		tg.enum.Options = &descriptorpb.EnumOptions{}
	}
	switch simpleName(s) {
	case "allow_alias":
		tg.enum.Options.AllowAlias = proto.Bool(p.constBool(s))
	case "deprecated":
		tg.enum.Options.Deprecated = proto.Bool(p.constBool(s))
	default:
		p.unsupportedOption(s, "enum")
	}
}

func (p *parser) enumValueOption(tg *optTarget, s optStmt, ext string) {
	if ext != "" {
		p.unsupportedOption(s, "custom enum value")
	}
	if tg.eval.Options == nil {
		tg.eval.Options = &descriptorpb.EnumValueOptions{}
	}
	switch simpleName(s) {
	case "deprecated":
		tg.eval.Options.Deprecated = proto.Bool(p.constBool(s))
	default:
		p.unsupportedOption(s, "enum value")
	}
}

// ---------------------------------------------------------------------------
// decoding the pico options back out of the unknown fields

// picoPayloads returns the merged contents of all occurrences of field 28980
// (later occurrences are appended, which is how proto merging of an embedded
// message behaves on the wire) and the unknown bytes without them.
func picoPayloads(raw []byte) (payload, rest []byte, found bool, err error) {
	for len(raw) > 0 {
		num, typ, n := protowire.ConsumeTag(raw)
		if n < 0 {
			return nil, nil, false, protowire.ParseError(n)
		}
		m := protowire.ConsumeFieldValue(num, typ, raw[n:])
		if m < 0 {
			return nil, nil, false, protowire.ParseError(m)
		}
		if num == picoExtensionNumber && typ == protowire.BytesType {
			b, _ := protowire.ConsumeBytes(raw[n:])
			payload = append(payload, b...)
			found = true
		} else {
			rest = append(rest, raw[:n+m]...)
		}
		raw = raw[n+m:]
	}
	return payload, rest, found, nil
}

type picoValue struct {
	varint uint64
	bytes  []byte
}

func decodePico(raw []byte) map[protowire.Number]picoValue {
	payload, _, found, err := picoPayloads(raw)
	if err != nil || !found {
		return nil
	}
	out := map[protowire.Number]picoValue{}
	for len(payload) > 0 {
		num, typ, n := protowire.ConsumeTag(payload)
		if n < 0 {
			return out
		}
		payload = payload[n:]
		switch typ {
		case protowire.VarintType:
			v, m := protowire.ConsumeVarint(payload)
			if m < 0 {
				return out
			}
			out[num] = picoValue{varint: v}
			payload = payload[m:]
		case protowire.BytesType:
			b, m := protowire.ConsumeBytes(payload)
			if m < 0 {
				return out
			}
			out[num] = picoValue{bytes: b}
			payload = payload[m:]
		default:
			m := protowire.ConsumeFieldValue(num, typ, payload)
			if m < 0 {
				return out
			}
			payload = payload[m:]
		}
	}
	return out
}

// FieldOpts decodes the (pico.field) option of f (zero value if absent).
func FieldOpts(f *descriptorpb.FieldDescriptorProto) PicoFieldOpts {
	var o PicoFieldOpts
	if f == nil || f.Options == nil {
		return o
	}
	vals := decodePico(f.Options.ProtoReflect().GetUnknown())
	o.AlwaysPresent = vals[1].varint != 0
	o.CustomType = string(vals[2].bytes)
	o.CustomSerialize = string(vals[3].bytes)
	return o
}

// MessageOpts decodes the (pico.message) option of m.
func MessageOpts(m *descriptorpb.DescriptorProto) (alwaysPresent, capture bool) {
	if m == nil || m.Options == nil {
		return false, false
	}
	vals := decodePico(m.Options.ProtoReflect().GetUnknown())
	return vals[1].varint != 0, vals[2].varint != 0
}

// StripPico returns a deep copy of fd without the pico options and without the
// "pico.proto" import, so that protodesc.NewFile accepts it on its own.
func StripPico(fd *descriptorpb.FileDescriptorProto) *descriptorpb.FileDescriptorProto {
	if fd == nil {
		return nil
	}
	out := proto.Clone(fd).(*descriptorpb.FileDescriptorProto)
	// drop the import and renumber the public/weak dependency indices
	remap := map[int32]int32{}
	var deps []string
	for i, d := range out.Dependency {
		if d == picoFileName {
			continue
		}
		remap[int32(i)] = int32(len(deps))
		deps = append(deps, d)
	}
	out.Dependency = deps
	fixIdx := func(in []int32) []int32 {
		var r []int32
		for _, i := range in {
			if j, ok := remap[i]; ok {
				r = append(r, j)
			}
		}
		return r
	}
	out.PublicDependency = fixIdx(out.PublicDependency)
	out.WeakDependency = fixIdx(out.WeakDependency)

	strip := func(m proto.Message) (empty bool) {
		r := m.ProtoReflect()
		if _, rest, found, err := picoPayloads(r.GetUnknown()); err == nil && found {
			r.SetUnknown(rest)
		}
		return proto.Size(m) == 0
	}
	stripField := func(f *descriptorpb.FieldDescriptorProto) {
		if f.Options != nil && strip(f.Options) {
			f.Options = nil
		}
	}
	var stripMsg func(m *descriptorpb.DescriptorProto)
	stripMsg = func(m *descriptorpb.DescriptorProto) {
		if m.Options != nil && strip(m.Options) {
			m.Options = nil
		}
		for _, f := range m.Field {
			stripField(f)
		}
		for _, f := range m.Extension {
			stripField(f)
		}
		for _, n := range m.NestedType {
			stripMsg(n)
		}
	}
	for _, m := range out.MessageType {
		stripMsg(m)
	}
	for _, f := range out.Extension {
		stripField(f)
	}
	return out
}

var _ = fmt.Sprintf
