//go:build verif

package protoparse

import (
	"fmt"
	"strings"

	"google.golang.org/protobuf/proto"
	"google.golang.org/protobuf/types/descriptorpb"
)

type symKind int

const (
	symPackage symKind = iota + 1
	symMessage
	symEnum
	symEnumValue
	symField
	symOneof
	symExtension
)

func (k symKind) String() string {
	return [...]string{"?", "package", "message", "enum", "enum value", "field", "oneof", "extension"}[k]
}

// aggregate symbols are those that can contain further symbols.
func (k symKind) aggregate() bool { return k == symPackage || k == symMessage || k == symEnum }
func (k symKind) isType() bool    { return k == symMessage || k == symEnum }

type symbol struct {
	kind symKind
	file string
	ext  *descriptorpb.FieldDescriptorProto // for symExtension
}

type symtab struct{ m map[string]symbol }

func newSymtab() *symtab { return &symtab{m: map[string]symbol{}} }

func (st *symtab) add(full string, s symbol) error {
	if old, ok := st.m[full]; ok {
		if old.kind == symPackage && s.kind == symPackage {
			return nil
		}
		if old.file == s.file {
			return fmt.Errorf("%q is already defined in file %q", full, old.file)
		}
		return fmt.Errorf("%q is already defined in file %q (as %v)", full, old.file, old.kind)
	}
	st.m[full] = s
	return nil
}

func (st *symtab) addFile(fd *descriptorpb.FileDescriptorProto, file string) error {
	pkg := fd.GetPackage()
	if pkg != "" {
		parts := strings.Split(pkg, ".")
		for i := range parts {
			if err := st.add(strings.Join(parts[:i+1], "."), symbol{kind: symPackage, file: file}); err != nil {
				return err
			}
		}
	}
	for _, m := range fd.MessageType {
		if err := st.addMessage(pkg, m, file); err != nil {
			return err
		}
	}
	for _, e := range fd.EnumType {
		if err := st.addEnum(pkg, e, file); err != nil {
			return err
		}
	}
	for _, x := range fd.Extension {
		if err := st.add(join(pkg, x.GetName()), symbol{kind: symExtension, file: file, ext: x}); err != nil {
			return err
		}
	}
	return nil
}

func (st *symtab) addMessage(scope string, m *descriptorpb.DescriptorProto, file string) error {
	full := join(scope, m.GetName())
	if err := st.add(full, symbol{kind: symMessage, file: file}); err != nil {
		return err
	}
	for _, f := range m.Field {
		if err := st.add(join(full, f.GetName()), symbol{kind: symField, file: file}); err != nil {
			return err
		}
	}
	for _, o := range m.OneofDecl {
		if err := st.add(join(full, o.GetName()), symbol{kind: symOneof, file: file}); err != nil {
			return err
		}
	}
	for _, n := range m.NestedType {
		if err := st.addMessage(full, n, file); err != nil {
			return err
		}
	}
	for _, e := range m.EnumType {
		if err := st.addEnum(full, e, file); err != nil {
			return err
		}
	}
	for _, x := range m.Extension {
		if err := st.add(join(full, x.GetName()), symbol{kind: symExtension, file: file, ext: x}); err != nil {
			return err
		}
	}
	return nil
}

func (st *symtab) addEnum(scope string, e *descriptorpb.EnumDescriptorProto, file string) error {
	if err := st.add(join(scope, e.GetName()), symbol{kind: symEnum, file: file}); err != nil {
		return err
	}
	for _, v := range e.Value {
		// enum values are siblings of their enum
		if err := st.add(join(scope, v.GetName()), symbol{kind: symEnumValue, file: file}); err != nil {
			return err
		}
	}
	return nil
}

func parentScope(s string) string {
	if i := strings.LastIndexByte(s, '.'); i >= 0 {
		return s[:i]
	}
	return ""
}

// lookup implements protobuf's scoping rules (DescriptorBuilder::
// LookupSymbolNoPlaceholder): a leading '.' means fully qualified; otherwise the
// first component is searched from the innermost scope outwards, and once it
// names an aggregate the rest must resolve inside it.
func (st *symtab) lookup(scope, name string, typesOnly bool) (string, symbol, error) {
	if strings.HasPrefix(name, ".") {
		s, ok := st.m[name[1:]]
		if !ok {
			return "", symbol{}, fmt.Errorf("%q is not defined", name)
		}
		return name[1:], s, nil
	}
	first, rest := name, ""
	if i := strings.IndexByte(name, '.'); i >= 0 {
		first, rest = name[:i], name[i+1:]
	}
	for sc := scope; ; sc = parentScope(sc) {
		cand := join(sc, first)
		if s, ok := st.m[cand]; ok {
			if rest == "" {
				if !typesOnly || s.kind.isType() {
					return cand, s, nil
				}
				// not a type: keep looking outwards
			} else if s.kind.aggregate() {
				full := cand + "." + rest
				if s2, ok := st.m[full]; ok {
					return full, s2, nil
				}
				return "", symbol{}, fmt.Errorf("%q is resolved to %q, which is not defined. The innermost scope is searched first in name resolution. Consider using a leading '.'(i.e., %q) to start from the outermost scope", name, full, "."+name)
			}
		}
		if sc == "" {
			break
		}
	}
	return "", symbol{}, fmt.Errorf("%q is not defined", name)
}

// resolve fills in type names, types and extendees.
func (p *parser) resolve(st *symtab) {
	for _, r := range p.refs {
		full, s, err := st.lookup(r.scope, r.name, !r.extendee)
		if err != nil {
			p.failAt(r.tok, "%v", err)
		}
		if r.extendee {
			if s.kind != symMessage {
				p.failAt(r.tok, "%q is not a message type", r.name)
			}
			r.field.Extendee = proto.String("." + full)
			if !strings.HasPrefix(full, "google.protobuf.") || !strings.HasSuffix(full, "Options") {
				p.failAt(r.tok, "extensions in proto3 are only allowed for defining options")
			}
			continue
		}
		switch s.kind {
		case symMessage:
			r.field.Type = descriptorpb.FieldDescriptorProto_TYPE_MESSAGE.Enum()
		case symEnum:
			r.field.Type = descriptorpb.FieldDescriptorProto_TYPE_ENUM.Enum()
		default:
			p.failAt(r.tok, "%q is not a type", r.name)
		}
		r.field.TypeName = proto.String("." + full)
	}
}
