//go:build verif

package protoparse

import (
	"bytes"
	"fmt"
	"os/exec"
	"strings"
	"sync"

	"google.golang.org/protobuf/proto"
	"google.golang.org/protobuf/reflect/protodesc"
	"google.golang.org/protobuf/reflect/protoregistry"
	"google.golang.org/protobuf/types/descriptorpb"
	"google.golang.org/protobuf/types/pluginpb"
)

// DescriptorProtoFile returns google/protobuf/descriptor.proto as linked into
// this binary.
func DescriptorProtoFile() *descriptorpb.FileDescriptorProto {
	return protodesc.ToFileDescriptorProto(descriptorpb.File_google_protobuf_descriptor_proto)
}

// builtinPicoSource is the fallback copy of picobuf's pico.proto that
// ParseFile/ParseString import when no explicit dependency set is given.  It
// only supplies symbols for name resolution; callers that build plugin
// requests should parse the repository's own pico.proto.
const builtinPicoSource = `syntax = "proto3";
option go_package = "storj.io/picobuf;main";

package pico;

import "google/protobuf/descriptor.proto";

message MessageOptions {
  bool always_present = 1;
  bool capture_unrecognized_fields = 2;
}

extend google.protobuf.MessageOptions {
  MessageOptions message = 28980;
}

message FieldOptions {
  bool   always_present = 1;
  string custom_type = 2;
  string custom_serialize = 3;
}

extend google.protobuf.FieldOptions {
  FieldOptions field = 28980;
}
`

var (
	picoOnce sync.Once
	picoFD   *descriptorpb.FileDescriptorProto
	picoErr  error
)

func builtinPico() (*descriptorpb.FileDescriptorProto, error) {
	picoOnce.Do(func() {
		picoFD, picoErr = ParseStringWithDeps(builtinPicoSource, picoFileName)
	})
	if picoErr != nil {
		return nil, picoErr
	}
	return proto.Clone(picoFD).(*descriptorpb.FileDescriptorProto), nil
}

// BuiltinPicoFile returns the descriptor of the built-in copy of pico.proto.
func BuiltinPicoFile() (*descriptorpb.FileDescriptorProto, error) { return builtinPico() }

// validate links fd against its imports with protodesc, which applies the
// descriptor well-formedness rules (duplicate numbers/names, proto3 rules,
// oneof and map entry shape, ...).
func validate(fd *descriptorpb.FileDescriptorProto, avail map[string]*descriptorpb.FileDescriptorProto) error {
	files := &protoregistry.Files{}
	state := map[string]int{}
	var reg func(name string) error
	reg = func(name string) error {
		switch state[name] {
		case 1:
			return fmt.Errorf("import cycle through %q", name)
		case 2:
			return nil
		}
		state[name] = 1
		if name == descriptorFileName {
			state[name] = 2
			return files.RegisterFile(descriptorpb.File_google_protobuf_descriptor_proto)
		}
		d, ok := avail[name]
		if !ok {
			return fmt.Errorf("import %q was not found", name)
		}
		for _, dep := range d.GetDependency() {
			if err := reg(dep); err != nil {
				return err
			}
		}
		f, err := protodesc.NewFile(d, files)
		if err != nil {
			return fmt.Errorf("dependency %q: %v", name, err)
		}
		state[name] = 2
		return files.RegisterFile(f)
	}
	for _, dep := range fd.GetDependency() {
		if err := reg(dep); err != nil {
			return err
		}
	}
	if _, err := protodesc.NewFile(fd, files); err != nil {
		return err
	}
	return nil
}

// NewRequest builds the CodeGeneratorRequest protoc 5.27.3 would send: the
// files to generate, the parameter string, and in proto_file every file to
// generate preceded by its transitive imports (dependencies first, in import
// order, as protoc's GetTransitiveDependencies does).  Files that are not
// reachable from a generated file are appended last, in the order given.
func NewRequest(files []*descriptorpb.FileDescriptorProto, generate []string, param string) *pluginpb.CodeGeneratorRequest {
	byName := map[string]*descriptorpb.FileDescriptorProto{}
	for _, f := range files {
		if f != nil {
			if _, dup := byName[f.GetName()]; !dup {
				byName[f.GetName()] = f
			}
		}
	}
	var ordered []*descriptorpb.FileDescriptorProto
	state := map[string]bool{}
	var visit func(name string)
	visit = func(name string) {
		if state[name] {
			return
		}
		state[name] = true
		f, ok := byName[name]
		if !ok {
			return
		}
		for _, d := range f.GetDependency() {
			visit(d)
		}
		ordered = append(ordered, f)
	}
	for _, g := range generate {
		visit(g)
	}
	for _, f := range files {
		if f != nil {
			visit(f.GetName())
		}
	}
	req := &pluginpb.CodeGeneratorRequest{
		FileToGenerate: append([]string(nil), generate...),
		ProtoFile:      ordered,
		CompilerVersion: &pluginpb.Version{
			Major:  proto.Int32(5),
			Minor:  proto.Int32(27),
			Patch:  proto.Int32(3),
			Suffix: proto.String(""),
		},
	}
	if param != "" {
		req.Parameter = proto.String(param)
	}
	return req
}

// RunPlugin runs a protoc plugin binary on req (request on stdin, response on
// stdout), like protoc does.
func RunPlugin(bin string, req *pluginpb.CodeGeneratorRequest) (*pluginpb.CodeGeneratorResponse, error) {
	in, err := proto.Marshal(req)
	if err != nil {
		return nil, fmt.Errorf("marshal request: %v", err)
	}
	cmd := exec.Command(bin)
	cmd.Stdin = bytes.NewReader(in)
	var stdout, stderr bytes.Buffer
	cmd.Stdout = &stdout
	cmd.Stderr = &stderr
	if err := cmd.Run(); err != nil {
		msg := strings.TrimSpace(stderr.String())
		if len(msg) > 2000 {
			msg = msg[:2000] + "..."
		}
		return nil, fmt.Errorf("plugin %s failed: %v: %s", bin, err, msg)
	}
	resp := &pluginpb.CodeGeneratorResponse{}
	if err := proto.Unmarshal(stdout.Bytes(), resp); err != nil {
		return nil, fmt.Errorf("plugin %s: cannot parse response: %v", bin, err)
	}
	return resp, nil
}
