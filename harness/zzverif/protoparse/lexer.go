//go:build verif

package protoparse

import (
	"fmt"
	"strconv"
	"strings"
)

type tokKind int

const (
	tEOF tokKind = iota
	tIdent
	tInt
	tFloat
	tString
	tSym
)

type token struct {
	kind tokKind
	text string // identifier text, symbol, raw number text
	str  string // decoded string literal
	num  uint64 // decoded integer literal
	line int
	col  int
}

func (t token) String() string {
	switch t.kind {
	case tEOF:
		return "end of file"
	case tString:
		return strconv.Quote(t.str)
	default:
		return "\"" + t.text + "\""
	}
}

// Error is a parse error with a position in protoc's "file:line:col" style.
type Error struct {
	File string
	Line int
	Col  int
	Msg  string
}

func (e *Error) Error() string {
	if e.Line == 0 {
		return fmt.Sprintf("%s: %s", e.File, e.Msg)
	}
	return fmt.Sprintf("%s:%d:%d: %s", e.File, e.Line, e.Col, e.Msg)
}

func isLetter(c byte) bool {
	return c == '_' || (c >= 'a' && c <= 'z') || (c >= 'A' && c <= 'Z')
}
func isDigit(c byte) bool { return c >= '0' && c <= '9' }
func isHex(c byte) bool {
	return isDigit(c) || (c >= 'a' && c <= 'f') || (c >= 'A' && c <= 'F')
}

// lex splits src into tokens; comments and white space are dropped.
func lex(src, file string) ([]token, error) {
	var toks []token
	line, col := 1, 1
	i := 0
	n := len(src)
	errAt := func(l, c int, f string, a ...interface{}) error {
		return &Error{File: file, Line: l, Col: c, Msg: fmt.Sprintf(f, a...)}
	}
	adv := func(k int) {
		for ; k > 0 && i < n; k-- {
			if src[i] == '\n' {
				line++
				col = 1
			} else {
				col++
			}
			i++
		}
	}
	// a UTF-8 byte order mark is tolerated by protoc
	if strings.HasPrefix(src, "\xef\xbb\xbf") {
		i = 3
	}
	for i < n {
		c := src[i]
		switch {
		case c == ' ' || c == '\t' || c == '\r' || c == '\n' || c == '\v' || c == '\f':
			adv(1)
		case c == '/' && i+1 < n && src[i+1] == '/':
			for i < n && src[i] != '\n' {
				adv(1)
			}
		case c == '/' && i+1 < n && src[i+1] == '*':
			l0, c0 := line, col
			adv(2)
			closed := false
			for i < n {
				if src[i] == '*' && i+1 < n && src[i+1] == '/' {
					adv(2)
					closed = true
					break
				}
				adv(1)
			}
			if !closed {
				return nil, errAt(l0, c0, "unterminated block comment")
			}
		case c == '#':
			return nil, errAt(line, col, "'#' comments are not part of the supported subset")
		case isLetter(c):
			j := i
			for j < n && (isLetter(src[j]) || isDigit(src[j])) {
				j++
			}
			toks = append(toks, token{kind: tIdent, text: src[i:j], line: line, col: col})
			adv(j - i)
		case isDigit(c) || (c == '.' && i+1 < n && isDigit(src[i+1])):
			j := i
			isFloat := false
			if c == '0' && j+1 < n && (src[j+1] == 'x' || src[j+1] == 'X') {
				j += 2
				if j >= n || !isHex(src[j]) {
					return nil, errAt(line, col, "\"0x\" must be followed by hex digits")
				}
				for j < n && isHex(src[j]) {
					j++
				}
			} else {
				for j < n && isDigit(src[j]) {
					j++
				}
				if j < n && src[j] == '.' {
					isFloat = true
					j++
					for j < n && isDigit(src[j]) {
						j++
					}
				}
				if j < n && (src[j] == 'e' || src[j] == 'E') {
					isFloat = true
					j++
					if j < n && (src[j] == '+' || src[j] == '-') {
						j++
					}
					if j >= n || !isDigit(src[j]) {
						return nil, errAt(line, col, "\"e\" must be followed by exponent")
					}
					for j < n && isDigit(src[j]) {
						j++
					}
				}
				if j < n && (src[j] == 'f' || src[j] == 'F') {
					isFloat = true
					j++
				}
			}
			if j < n && isLetter(src[j]) {
				return nil, errAt(line, col, "need space between number and identifier")
			}
			text := src[i:j]
			tk := token{text: text, line: line, col: col}
			if isFloat {
				tk.kind = tFloat
			} else {
				tk.kind = tInt
				var v uint64
				var err error
				switch {
				case len(text) > 1 && (text[1] == 'x' || text[1] == 'X'):
					v, err = strconv.ParseUint(text[2:], 16, 64)
				case len(text) > 1 && text[0] == '0':
					v, err = strconv.ParseUint(text[1:], 8, 64)
					if err != nil {
						return nil, errAt(line, col, "numbers starting with leading zero must be in octal")
					}
				default:
					v, err = strconv.ParseUint(text, 10, 64)
				}
				if err != nil {
					return nil, errAt(line, col, "integer out of range")
				}
				tk.num = v
			}
			toks = append(toks, tk)
			adv(j - i)
		case c == '"' || c == '\'':
			l0, c0 := line, col
			s, k, err := unquote(src[i:])
			if err != nil {
				return nil, errAt(l0, c0, "%v", err)
			}
			toks = append(toks, token{kind: tString, text: src[i : i+k], str: s, line: l0, col: c0})
			adv(k)
		case c < 0x20 || c >= 0x7f:
			return nil, errAt(line, col, "invalid character %q", c)
		default:
			toks = append(toks, token{kind: tSym, text: string(c), line: line, col: col})
			adv(1)
		}
	}
	toks = append(toks, token{kind: tEOF, line: line, col: col})
	return toks, nil
}

// unquote decodes the string literal at the start of s and returns the
// decoded bytes and the number of source bytes consumed.
func unquote(s string) (string, int, error) {
	q := s[0]
	var b strings.Builder
	i := 1
	for {
		if i >= len(s) {
			return "", 0, fmt.Errorf("unexpected end of string")
		}
		c := s[i]
		switch {
		case c == q:
			return b.String(), i + 1, nil
		case c == '\n':
			return "", 0, fmt.Errorf("string literals cannot cross line boundaries")
		case c == 0:
			return "", 0, fmt.Errorf("invalid NUL in string literal")
		case c != '\\':
			b.WriteByte(c)
			i++
		default:
			i++
			if i >= len(s) {
				return "", 0, fmt.Errorf("unexpected end of string")
			}
			e := s[i]
			i++
			switch e {
			case 'a':
				b.WriteByte(7)
			case 'b':
				b.WriteByte(8)
			case 'f':
				b.WriteByte(12)
			case 'n':
				b.WriteByte(10)
			case 'r':
				b.WriteByte(13)
			case 't':
				b.WriteByte(9)
			case 'v':
				b.WriteByte(11)
			case '\\', '\'', '"', '?':
				b.WriteByte(e)
			case 'x', 'X':
				j := i
				for j < len(s) && j < i+2 && isHex(s[j]) {
					j++
				}
				if j == i {
					return "", 0, fmt.Errorf("expected hex digits for escape sequence")
				}
				v, _ := strconv.ParseUint(s[i:j], 16, 8)
				b.WriteByte(byte(v))
				i = j
			case '0', '1', '2', '3', '4', '5', '6', '7':
				j := i
				for j < len(s) && j < i+2 && s[j] >= '0' && s[j] <= '7' {
					j++
				}
				v, _ := strconv.ParseUint(s[i-1:j], 8, 16)
				b.WriteByte(byte(v))
				i = j
			case 'u', 'U':
				w := 4
				if e == 'U' {
					w = 8
				}
				if i+w > len(s) {
					return "", 0, fmt.Errorf("expected %d hex digits for \\%c escape sequence", w, e)
				}
				v, err := strconv.ParseUint(s[i:i+w], 16, 32)
				if err != nil || v > 0x10ffff || (v >= 0xd800 && v < 0xe000) {
					return "", 0, fmt.Errorf("invalid \\%c escape sequence", e)
				}
				b.WriteRune(rune(v))
				i += w
			default:
				return "", 0, fmt.Errorf("invalid escape sequence in string literal")
			}
		}
	}
}
