//go:build verif

// Package protoparse is a small parser for the proto3 subset used by the
// .proto files of storj.io/picobuf.  It produces FileDescriptorProto values
// shaped the way protoc 5.27.3 hands them to plugins (declaration order,
// synthetic oneofs, map entry messages, json_name, fully qualified type names)
// so that protoc-gen-pico can be driven without a protoc binary.
//
// Not produced: source_code_info (comments/locations).
package protoparse

import (
	"fmt"
	"math"
	"os"
	"strings"

	"google.golang.org/protobuf/proto"
	"google.golang.org/protobuf/types/descriptorpb"
)

const (
	maxFieldNumber      = 536870911
	firstReservedNumber = 19000
	lastReservedNumber  = 19999
	picoExtensionNumber = 28980
	picoFileName        = "pico.proto"
	descriptorFileName  = "google/protobuf/descriptor.proto"
	picoFieldExtension  = ".pico.field"
	picoMessageExtenson = ".pico.message"
)

var scalarTypes = map[string]descriptorpb.FieldDescriptorProto_Type{
	"double":   descriptorpb.FieldDescriptorProto_TYPE_DOUBLE,
	"float":    descriptorpb.FieldDescriptorProto_TYPE_FLOAT,
	"int32":    descriptorpb.FieldDescriptorProto_TYPE_INT32,
	"int64":    descriptorpb.FieldDescriptorProto_TYPE_INT64,
	"uint32":   descriptorpb.FieldDescriptorProto_TYPE_UINT32,
	"uint64":   descriptorpb.FieldDescriptorProto_TYPE_UINT64,
	"sint32":   descriptorpb.FieldDescriptorProto_TYPE_SINT32,
	"sint64":   descriptorpb.FieldDescriptorProto_TYPE_SINT64,
	"fixed32":  descriptorpb.FieldDescriptorProto_TYPE_FIXED32,
	"fixed64":  descriptorpb.FieldDescriptorProto_TYPE_FIXED64,
	"sfixed32": descriptorpb.FieldDescriptorProto_TYPE_SFIXED32,
	"sfixed64": descriptorpb.FieldDescriptorProto_TYPE_SFIXED64,
	"bool":     descriptorpb.FieldDescriptorProto_TYPE_BOOL,
	"string":   descriptorpb.FieldDescriptorProto_TYPE_STRING,
	"bytes":    descriptorpb.FieldDescriptorProto_TYPE_BYTES,
}

// ParseFile parses the .proto file at path.  name is the file name protoc
// would record in the descriptor (the path relative to its -I directory).
// Imports are resolved against the built-in descriptor.proto and a built-in
// copy of picobuf's pico.proto; use ParseFileWithDeps to supply others.
func ParseFile(path, name string) (*descriptorpb.FileDescriptorProto, error) {
	src, err := os.ReadFile(path)
	if err != nil {
		return nil, err
	}
	return ParseString(string(src), name)
}

// ParseString is ParseFile for in-memory source text.
func ParseString(src, name string) (*descriptorpb.FileDescriptorProto, error) {
	if name == picoFileName {
		return ParseStringWithDeps(src, name)
	}
	pico, err := builtinPico()
	if err != nil {
		return nil, err
	}
	return ParseStringWithDeps(src, name, pico)
}

// ParseFileWithDeps is ParseFile with an explicit set of importable files
// (descriptor.proto is always available).
func ParseFileWithDeps(path, name string, deps ...*descriptorpb.FileDescriptorProto) (*descriptorpb.FileDescriptorProto, error) {
	src, err := os.ReadFile(path)
	if err != nil {
		return nil, err
	}
	return ParseStringWithDeps(string(src), name, deps...)
}

// ParseStringWithDeps is ParseString with an explicit set of importable files
// (descriptor.proto is always available).
func ParseStringWithDeps(src, name string, deps ...*descriptorpb.FileDescriptorProto) (fd *descriptorpb.FileDescriptorProto, err error) {
	defer func() {
		// The parser signals errors by panicking with *Error internally; nothing
		// may escape as a panic.
		if r := recover(); r != nil {
			fd = nil
			if pe, ok := r.(*Error); ok {
				err = pe
				return
			}
			err = &Error{File: name, Msg: fmt.Sprintf("internal error: %v", r)}
		}
	}()
	toks, lerr := lex(src, name)
	if lerr != nil {
		return nil, lerr
	}
	p := &parser{toks: toks, file: name}
	p.fd = &descriptorpb.FileDescriptorProto{Name: proto.String(name)}
	p.parseFile()

	avail := map[string]*descriptorpb.FileDescriptorProto{descriptorFileName: DescriptorProtoFile()}
	for _, d := range deps {
		if d != nil {
			avail[d.GetName()] = d
		}
	}
	st := newSymtab()
	if err := st.addFile(p.fd, name); err != nil {
		return nil, &Error{File: name, Msg: err.Error()}
	}
	seen := map[string]bool{name: true}
	var addDep func(depName string, tk token)
	addDep = func(depName string, tk token) {
		if seen[depName] {
			return
		}
		seen[depName] = true
		d, ok := avail[depName]
		if !ok {
			p.failAt(tk, "import %q was not found (known: descriptor.proto, pico.proto and files passed as deps)", depName)
		}
		if err := st.addFile(d, depName); err != nil {
			p.failAt(tk, "%v", err)
		}
		for _, pi := range d.GetPublicDependency() {
			if int(pi) < len(d.GetDependency()) {
				if _, ok := avail[d.GetDependency()[pi]]; ok {
					addDep(d.GetDependency()[pi], tk)
				}
			}
		}
	}
	for i, depName := range p.fd.GetDependency() {
		if depName == name {
			p.failAt(p.importToks[i], "file recursively imports itself")
		}
		addDep(depName, p.importToks[i])
	}
	p.resolve(st)
	p.interpretOptions(st)
	if verr := validate(p.fd, avail); verr != nil {
		return nil, &Error{File: name, Msg: verr.Error()}
	}
	return p.fd, nil
}

// ---------------------------------------------------------------------------

type typeRef struct {
	field    *descriptorpb.FieldDescriptorProto
	scope    string // full name (no leading dot) of the enclosing scope
	name     string
	tok      token
	extendee bool
}

type optPart struct {
	name string
	ext  bool
}

type optStmt struct {
	parts []optPart
	val   constant
	tok   token
}

type constKind int

const (
	cIdent constKind = iota
	cInt
	cFloat
	cString
)

type constant struct {
	kind constKind
	id   string
	neg  bool
	num  uint64
	flt  string
	str  string
	tok  token
}

type optTarget struct {
	scope string
	stmts []optStmt
	file  *descriptorpb.FileDescriptorProto
	msg   *descriptorpb.DescriptorProto
	field *descriptorpb.FieldDescriptorProto
	enum  *descriptorpb.EnumDescriptorProto
	eval  *descriptorpb.EnumValueDescriptorProto
	oneof *descriptorpb.OneofDescriptorProto
}

type parser struct {
	toks       []token
	pos        int
	file       string
	fd         *descriptorpb.FileDescriptorProto
	importToks []token
	refs       []typeRef
	opts       []*optTarget
}

func (p *parser) failAt(t token, f string, a ...interface{}) {
	panic(&Error{File: p.file, Line: t.line, Col: t.col, Msg: fmt.Sprintf(f, a...)})
}

func (p *parser) peek() token { return p.toks[p.pos] }
func (p *parser) peekN(n int) token {
	if p.pos+n >= len(p.toks) {
		return p.toks[len(p.toks)-1]
	}
	return p.toks[p.pos+n]
}
func (p *parser) next() token {
	t := p.toks[p.pos]
	if t.kind != tEOF {
		p.pos++
	}
	return t
}
func (p *parser) isSym(s string) bool {
	t := p.peek()
	return t.kind == tSym && t.text == s
}
func (p *parser) isIdent(s string) bool {
	t := p.peek()
	return t.kind == tIdent && t.text == s
}
func (p *parser) trySym(s string) bool {
	if p.isSym(s) {
		p.pos++
		return true
	}
	return false
}
func (p *parser) expectSym(s string) token {
	t := p.peek()
	if !p.isSym(s) {
		p.failAt(t, "expected %q, found %v", s, t)
	}
	return p.next()
}
func (p *parser) expectIdent(what string) token {
	t := p.peek()
	if t.kind != tIdent {
		p.failAt(t, "expected %s, found %v", what, t)
	}
	return p.next()
}
func (p *parser) expectString(what string) (string, token) {
	t := p.peek()
	if t.kind != tString {
		p.failAt(t, "expected %s (string literal), found %v", what, t)
	}
	p.next()
	s := t.str
	for p.peek().kind == tString { // adjacent literals concatenate
		s += p.next().str
	}
	return s, t
}

func (p *parser) expectInt(what string) (uint64, token) {
	t := p.peek()
	if t.kind != tInt {
		p.failAt(t, "expected %s (integer), found %v", what, t)
	}
	p.next()
	return t.num, t
}

// dotted identifier, optionally starting with '.'
func (p *parser) parseTypeName() (string, token) {
	first := p.peek()
	var b strings.Builder
	if p.trySym(".") {
		b.WriteByte('.')
	}
	t := p.expectIdent("type name")
	b.WriteString(t.text)
	for p.isSym(".") {
		p.next()
		t = p.expectIdent("identifier")
		b.WriteByte('.')
		b.WriteString(t.text)
	}
	return b.String(), first
}

func join(scope, name string) string {
	if scope == "" {
		return name
	}
	return scope + "." + name
}

// ---------------------------------------------------------------------------
// file level

func (p *parser) parseFile() {
	if p.isIdent("syntax") && p.peekN(1).kind == tSym && p.peekN(1).text == "=" {
		p.next()
		p.expectSym("=")
		s, t := p.expectString("syntax identifier")
		if s != "proto3" {
			p.failAt(t, "unsupported syntax %q: only proto3 is in the supported subset", s)
		}
		p.expectSym(";")
		p.fd.Syntax = proto.String("proto3")
	} else if p.isIdent("edition") {
		p.failAt(p.peek(), "editions are not part of the supported subset")
	} else {
		p.failAt(p.peek(), "file must start with syntax = \"proto3\"; (proto2 is not part of the supported subset)")
	}
	fileOpts := &optTarget{file: p.fd}
	havePackage := false
	for {
		t := p.peek()
		if t.kind == tEOF {
			break
		}
		if t.kind == tSym && t.text == ";" {
			p.next()
			continue
		}
		if t.kind != tIdent {
			p.failAt(t, "expected top-level statement (e.g. \"message\"), found %v", t)
		}
		switch t.text {
		case "syntax", "edition":
			p.failAt(t, "%s must be the first statement of the file", t.text)
		case "package":
			if havePackage {
				p.failAt(t, "multiple package definitions")
			}
			havePackage = true
			p.next()
			name, nt := p.parseTypeName()
			if strings.HasPrefix(name, ".") {
				p.failAt(nt, "package name must not start with '.'")
			}
			p.expectSym(";")
			p.fd.Package = proto.String(name)
		case "import":
			p.next()
			kind := ""
			if p.isIdent("public") || p.isIdent("weak") {
				kind = p.next().text
			}
			name, nt := p.expectString("import path")
			p.expectSym(";")
			for _, d := range p.fd.Dependency {
				if d == name {
					p.failAt(nt, "import %q was listed twice", name)
				}
			}
			idx := int32(len(p.fd.Dependency))
			p.fd.Dependency = append(p.fd.Dependency, name)
			p.importToks = append(p.importToks, nt)
			switch kind {
			case "public":
				p.fd.PublicDependency = append(p.fd.PublicDependency, idx)
			case "weak":
				p.fd.WeakDependency = append(p.fd.WeakDependency, idx)
			}
		case "option":
			p.next()
			fileOpts.stmts = append(fileOpts.stmts, p.parseOptionStmt())
			p.expectSym(";")
		case "message":
			p.next()
			// scope is patched below once the package is known: protoc allows the
			// package statement after definitions, so scopes are computed lazily.
			p.fd.MessageType = append(p.fd.MessageType, p.parseMessage(scopeRoot))
		case "enum":
			p.next()
			p.fd.EnumType = append(p.fd.EnumType, p.parseEnum(scopeRoot))
		case "extend":
			p.next()
			p.parseExtend(scopeRoot, &p.fd.Extension, nil)
		case "service":
			p.failAt(t, "services are not part of the supported subset")
		default:
			p.failAt(t, "expected top-level statement (e.g. \"message\"), found %v", t)
		}
	}
	if len(fileOpts.stmts) > 0 {
		p.opts = append(p.opts, fileOpts)
	}
	// Scopes were recorded relative to a placeholder root because the package
	// statement may follow definitions; substitute the real package now.
	pkg := p.fd.GetPackage()
	fix := func(s string) string {
		s = strings.TrimPrefix(s, scopeRoot)
		s = strings.TrimPrefix(s, ".")
		if s == "" {
			return pkg
		}
		return join(pkg, s)
	}
	for i := range p.refs {
		p.refs[i].scope = fix(p.refs[i].scope)
	}
	for _, o := range p.opts {
		o.scope = fix(o.scope)
	}
	var fixMsg func(m *descriptorpb.DescriptorProto)
	fixMsg = func(m *descriptorpb.DescriptorProto) {
		for _, f := range m.Field {
			if f.TypeName != nil && strings.HasPrefix(f.GetTypeName(), "."+scopeRoot) {
				f.TypeName = proto.String("." + fix(f.GetTypeName()[1:]))
			}
		}
		for _, n := range m.NestedType {
			fixMsg(n)
		}
	}
	for _, m := range p.fd.MessageType {
		fixMsg(m)
	}
}

// scopeRoot stands for the (possibly not yet known) package during parsing.
const scopeRoot = "\x00pkg"

// ---------------------------------------------------------------------------
// options (syntax only; interpretation happens after name resolution)

// parseOptionStmt parses `name = constant` where name is
// ident | "(" typename ")" followed by ("." ident | "." "(" typename ")")*.
func (p *parser) parseOptionStmt() optStmt {
	st := optStmt{tok: p.peek()}
	for {
		if p.trySym("(") {
			n, _ := p.parseTypeName()
			p.expectSym(")")
			st.parts = append(st.parts, optPart{name: n, ext: true})
		} else {
			t := p.expectIdent("option name")
			st.parts = append(st.parts, optPart{name: t.text})
		}
		if !p.trySym(".") {
			break
		}
	}
	p.expectSym("=")
	st.val = p.parseConstant()
	return st
}

func (p *parser) parseConstant() constant {
	t := p.peek()
	c := constant{tok: t}
	if p.isSym("{") || p.isSym("<") || p.isSym("[") {
		p.failAt(t, "aggregate (message literal) option values are not part of the supported subset")
	}
	if p.trySym("-") {
		c.neg = true
	} else {
		p.trySym("+")
	}
	t = p.peek()
	switch t.kind {
	case tInt:
		p.next()
		c.kind, c.num = cInt, t.num
	case tFloat:
		p.next()
		c.kind, c.flt = cFloat, t.text
	case tIdent:
		p.next()
		c.kind, c.id = cIdent, t.text
		if c.neg && t.text != "inf" && t.text != "nan" {
			p.failAt(t, "unexpected '-' before identifier")
		}
	case tString:
		if c.neg {
			p.failAt(t, "unexpected '-' before string")
		}
		c.kind = cString
		c.str, _ = p.expectString("string")
	default:
		p.failAt(t, "expected option value, found %v", t)
	}
	return c
}

// parseBracketOptions parses `[ opt, opt, ... ]` if present.
func (p *parser) parseBracketOptions() []optStmt {
	if !p.trySym("[") {
		return nil
	}
	var out []optStmt
	for {
		out = append(out, p.parseOptionStmt())
		if p.trySym(",") {
			continue
		}
		p.expectSym("]")
		return out
	}
}

// ---------------------------------------------------------------------------
// messages

func (p *parser) checkName(t token, what string) string {
	if strings.Contains(t.text, ".") {
		p.failAt(t, "%s name must not contain '.'", what)
	}
	return t.text
}

func (p *parser) parseMessage(parentScope string) *descriptorpb.DescriptorProto {
	nt := p.expectIdent("message name")
	m := &descriptorpb.DescriptorProto{Name: proto.String(p.checkName(nt, "message"))}
	scope := join(parentScope, m.GetName())
	p.expectSym("{")
	mo := &optTarget{msg: m, scope: scope}
	for !p.isSym("}") {
		t := p.peek()
		if t.kind == tEOF {
			p.failAt(t, "reached end of input in message definition (missing '}')")
		}
		if p.trySym(";") {
			continue
		}
		if t.kind == tIdent {
			switch t.text {
			case "message":
				p.next()
				m.NestedType = append(m.NestedType, p.parseMessage(scope))
				continue
			case "enum":
				p.next()
				m.EnumType = append(m.EnumType, p.parseEnum(scope))
				continue
			case "extend":
				p.next()
				p.parseExtend(scope, &m.Extension, m)
				continue
			case "option":
				p.next()
				mo.stmts = append(mo.stmts, p.parseOptionStmt())
				p.expectSym(";")
				continue
			case "oneof":
				p.next()
				p.parseOneof(m, scope)
				continue
			case "reserved":
				p.next()
				p.parseMessageReserved(m)
				continue
			case "extensions":
				p.failAt(t, "extension ranges are not allowed in proto3")
			case "group":
				p.failAt(t, "groups are not part of the supported subset")
			}
		}
		p.parseField(m, scope, nil, false)
	}
	p.expectSym("}")
	if len(mo.stmts) > 0 {
		p.opts = append(p.opts, mo)
	}
	synthesizeOneofs(m)
	return m
}

// synthesizeOneofs mirrors protoc's Parser::GenerateSyntheticOneofs.
func synthesizeOneofs(m *descriptorpb.DescriptorProto) {
	names := map[string]bool{}
	for _, f := range m.Field {
		names[f.GetName()] = true
	}
	for _, o := range m.OneofDecl {
		names[o.GetName()] = true
	}
	for _, f := range m.Field {
		if !f.GetProto3Optional() {
			continue
		}
		n := f.GetName()
		if n == "" || n[0] != '_' {
			n = "_" + n
		}
		for names[n] {
			n = "X" + n
		}
		names[n] = true
		f.OneofIndex = proto.Int32(int32(len(m.OneofDecl)))
		m.OneofDecl = append(m.OneofDecl, &descriptorpb.OneofDescriptorProto{Name: proto.String(n)})
	}
}

// jsonName mirrors protoc's ToJsonName.
func jsonName(s string) string {
	var b strings.Builder
	up := false
	for i := 0; i < len(s); i++ {
		c := s[i]
		switch {
		case c == '_':
			up = true
		case up:
			if c >= 'a' && c <= 'z' {
				c -= 'a' - 'A'
			}
			b.WriteByte(c)
			up = false
		default:
			b.WriteByte(c)
		}
	}
	return b.String()
}

// mapEntryName mirrors protoc's MapEntryName.
func mapEntryName(field string) string {
	var b strings.Builder
	up := true
	for i := 0; i < len(field); i++ {
		c := field[i]
		switch {
		case c == '_':
			up = true
		case up:
			if c >= 'a' && c <= 'z' {
				c -= 'a' - 'A'
			}
			b.WriteByte(c)
			up = false
		default:
			b.WriteByte(c)
		}
	}
	return b.String() + "Entry"
}

func (p *parser) parseFieldNumber() int32 {
	neg := p.isSym("-")
	n, t := p.expectInt("field number")
	if neg || n < 1 || n > maxFieldNumber {
		p.failAt(t, "field numbers must be in the range 1 to %d", maxFieldNumber)
	}
	if n >= firstReservedNumber && n <= lastReservedNumber {
		p.failAt(t, "field numbers %d through %d are reserved for the protocol buffer library implementation", firstReservedNumber, lastReservedNumber)
	}
	return int32(n)
}

// setType fills Type for scalars or records a pending reference.
func (p *parser) setType(f *descriptorpb.FieldDescriptorProto, name string, tok token, scope string) {
	if ty, ok := scalarTypes[name]; ok {
		f.Type = ty.Enum()
		return
	}
	if name == "group" {
		p.failAt(tok, "groups are not part of the supported subset")
	}
	p.refs = append(p.refs, typeRef{field: f, scope: scope, name: name, tok: tok})
}

// parseField parses one field (or map field) statement.  oneofIndex is non-nil
// inside a oneof block; inExtend marks fields of an extend block (msg is then
// only the lexical parent, possibly nil, and the field is returned, not added).
func (p *parser) parseField(m *descriptorpb.DescriptorProto, scope string, oneofIndex *int32, inExtend bool) *descriptorpb.FieldDescriptorProto {
	f := &descriptorpb.FieldDescriptorProto{}
	start := p.peek()
	label := ""
	// A label keyword is only a label when it is followed by something that can
	// start a type; `optional = 1` style ambiguities do not exist in proto3
	// because every field needs a type.
	if start.kind == tIdent && (start.text == "optional" || start.text == "repeated" || start.text == "required") {
		label = start.text
		p.next()
	}
	switch label {
	case "required":
		p.failAt(start, "required fields are not allowed in proto3")
	case "repeated":
		f.Label = descriptorpb.FieldDescriptorProto_LABEL_REPEATED.Enum()
	case "optional":
		f.Label = descriptorpb.FieldDescriptorProto_LABEL_OPTIONAL.Enum()
		f.Proto3Optional = proto.Bool(true)
	default:
		f.Label = descriptorpb.FieldDescriptorProto_LABEL_OPTIONAL.Enum()
	}
	if oneofIndex != nil && label != "" {
		p.failAt(start, "fields in oneofs must not have labels (required / optional / repeated)")
	}

	// map<K, V>
	if p.isIdent("map") && p.peekN(1).kind == tSym && p.peekN(1).text == "<" {
		mapTok := p.next()
		if oneofIndex != nil {
			p.failAt(mapTok, "map fields are not allowed in oneofs")
		}
		if inExtend {
			p.failAt(mapTok, "map fields are not allowed to be extensions")
		}
		if label != "" {
			p.failAt(start, "field labels (required/optional/repeated) are not allowed on map fields")
		}
		p.expectSym("<")
		kt := p.expectIdent("map key type")
		keyType, ok := scalarTypes[kt.text]
		if !ok || kt.text == "float" || kt.text == "double" || kt.text == "bytes" {
			p.failAt(kt, "key in map fields cannot be float/double, bytes or message types")
		}
		p.expectSym(",")
		if p.isIdent("map") && p.peekN(1).kind == tSym && p.peekN(1).text == "<" {
			p.failAt(p.peek(), "map values cannot be maps")
		}
		valName, valTok := p.parseTypeName()
		p.expectSym(">")
		nt := p.expectIdent("field name")
		f.Name = proto.String(nt.text)
		p.expectSym("=")
		f.Number = proto.Int32(p.parseFieldNumber())
		stmts := p.parseBracketOptions()
		p.expectSym(";")

		entryName := mapEntryName(nt.text)
		entryScope := join(scope, entryName)
		key := &descriptorpb.FieldDescriptorProto{
			Name:     proto.String("key"),
			Number:   proto.Int32(1),
			Label:    descriptorpb.FieldDescriptorProto_LABEL_OPTIONAL.Enum(),
			Type:     keyType.Enum(),
			JsonName: proto.String("key"),
		}
		val := &descriptorpb.FieldDescriptorProto{
			Name:     proto.String("value"),
			Number:   proto.Int32(2),
			Label:    descriptorpb.FieldDescriptorProto_LABEL_OPTIONAL.Enum(),
			JsonName: proto.String("value"),
		}
		p.setType(val, valName, valTok, entryScope)
		entry := &descriptorpb.DescriptorProto{
			Name:    proto.String(entryName),
			Field:   []*descriptorpb.FieldDescriptorProto{key, val},
			Options: &descriptorpb.MessageOptions{MapEntry: proto.Bool(true)},
		}
		m.NestedType = append(m.NestedType, entry)
		f.Label = descriptorpb.FieldDescriptorProto_LABEL_REPEATED.Enum()
		f.Type = descriptorpb.FieldDescriptorProto_TYPE_MESSAGE.Enum()
		f.TypeName = proto.String("." + entryScope)
		f.JsonName = proto.String(jsonName(nt.text))
		m.Field = append(m.Field, f)
		if len(stmts) > 0 {
			p.opts = append(p.opts, &optTarget{field: f, scope: scope, stmts: stmts})
		}
		return f
	}

	typeName, typeTok := p.parseTypeName()
	nt := p.peek()
	if nt.kind != tIdent {
		p.failAt(nt, "expected field name, found %v", nt)
	}
	p.next()
	f.Name = proto.String(nt.text)
	p.expectSym("=")
	f.Number = proto.Int32(p.parseFieldNumber())
	stmts := p.parseBracketOptions()
	if p.isSym("{") {
		p.failAt(p.peek(), "groups are not part of the supported subset")
	}
	p.expectSym(";")
	p.setType(f, typeName, typeTok, scope)
	f.JsonName = proto.String(jsonName(nt.text))
	if oneofIndex != nil {
		f.OneofIndex = proto.Int32(*oneofIndex)
	}
	if len(stmts) > 0 {
		p.opts = append(p.opts, &optTarget{field: f, scope: scope, stmts: stmts})
	}
	if !inExtend {
		m.Field = append(m.Field, f)
	}
	return f
}

func (p *parser) parseOneof(m *descriptorpb.DescriptorProto, scope string) {
	nt := p.expectIdent("oneof name")
	idx := int32(len(m.OneofDecl))
	od := &descriptorpb.OneofDescriptorProto{Name: proto.String(nt.text)}
	m.OneofDecl = append(m.OneofDecl, od)
	p.expectSym("{")
	count := 0
	for !p.isSym("}") {
		t := p.peek()
		if t.kind == tEOF {
			p.failAt(t, "reached end of input in oneof definition (missing '}')")
		}
		if p.trySym(";") {
			continue
		}
		if t.kind == tIdent && t.text == "option" {
			p.failAt(t, "oneof options are not part of the supported subset")
		}
		if t.kind == tIdent && t.text == "group" {
			p.failAt(t, "groups are not part of the supported subset")
		}
		p.parseField(m, scope, &idx, false)
		count++
	}
	p.expectSym("}")
	if count == 0 {
		p.failAt(nt, "oneof must have at least one field")
	}
}

func (p *parser) parseExtend(scope string, dst *[]*descriptorpb.FieldDescriptorProto, m *descriptorpb.DescriptorProto) {
	extendee, et := p.parseTypeName()
	p.expectSym("{")
	count := 0
	for !p.isSym("}") {
		t := p.peek()
		if t.kind == tEOF {
			p.failAt(t, "reached end of input in extend definition (missing '}')")
		}
		if p.trySym(";") {
			continue
		}
		if t.kind == tIdent && t.text == "group" {
			p.failAt(t, "groups are not part of the supported subset")
		}
		f := p.parseField(m, scope, nil, true)
		f.Extendee = proto.String(extendee)
		p.refs = append(p.refs, typeRef{field: f, scope: scope, name: extendee, tok: et, extendee: true})
		*dst = append(*dst, f)
		count++
	}
	p.expectSym("}")
	if count == 0 {
		p.failAt(et, "extend block must have at least one field")
	}
}

func (p *parser) parseMessageReserved(m *descriptorpb.DescriptorProto) {
	if p.peek().kind == tString {
		for {
			s, t := p.expectString("reserved field name")
			if !isIdentifier(s) {
				p.failAt(t, "reserved name %q is not a valid identifier", s)
			}
			m.ReservedName = append(m.ReservedName, s)
			if !p.trySym(",") {
				break
			}
		}
		p.expectSym(";")
		return
	}
	for {
		lo, lt := p.expectInt("field number range")
		if lo < 1 || lo > maxFieldNumber {
			p.failAt(lt, "reserved numbers must be in the range 1 to %d", maxFieldNumber)
		}
		hi := lo
		if p.isIdent("to") {
			p.next()
			if p.isIdent("max") {
				p.next()
				hi = maxFieldNumber
			} else {
				var ht token
				hi, ht = p.expectInt("field number range end")
				if hi < lo || hi > maxFieldNumber {
					p.failAt(ht, "reserved range end must be in the range %d to %d", lo, maxFieldNumber)
				}
			}
		}
		m.ReservedRange = append(m.ReservedRange, &descriptorpb.DescriptorProto_ReservedRange{
			Start: proto.Int32(int32(lo)),
			End:   proto.Int32(int32(hi) + 1), // exclusive
		})
		if !p.trySym(",") {
			break
		}
	}
	p.expectSym(";")
}

func isIdentifier(s string) bool {
	if s == "" || !isLetter(s[0]) {
		return false
	}
	for i := 1; i < len(s); i++ {
		if !isLetter(s[i]) && !isDigit(s[i]) {
			return false
		}
	}
	return true
}

// ---------------------------------------------------------------------------
// enums

func (p *parser) parseSignedInt32(what string) (int32, token) {
	neg := p.trySym("-")
	n, t := p.expectInt(what)
	if neg {
		if n > uint64(math.MaxInt32)+1 {
			p.failAt(t, "%s out of range", what)
		}
		return int32(-int64(n)), t
	}
	if n > math.MaxInt32 {
		p.failAt(t, "%s out of range", what)
	}
	return int32(n), t
}

func (p *parser) parseEnum(parentScope string) *descriptorpb.EnumDescriptorProto {
	nt := p.expectIdent("enum name")
	e := &descriptorpb.EnumDescriptorProto{Name: proto.String(nt.text)}
	// enum values live in the scope enclosing the enum
	eo := &optTarget{enum: e, scope: parentScope}
	p.expectSym("{")
	for !p.isSym("}") {
		t := p.peek()
		if t.kind == tEOF {
			p.failAt(t, "reached end of input in enum definition (missing '}')")
		}
		if p.trySym(";") {
			continue
		}
		if t.kind != tIdent {
			p.failAt(t, "expected enum value name, found %v", t)
		}
		// `option` and `reserved` are statements unless used as a value name (`option = 1;`)
		isAssign := p.peekN(1).kind == tSym && p.peekN(1).text == "="
		if t.text == "option" && !isAssign {
			p.next()
			eo.stmts = append(eo.stmts, p.parseOptionStmt())
			p.expectSym(";")
			continue
		}
		if t.text == "reserved" && !isAssign {
			p.next()
			p.parseEnumReserved(e)
			continue
		}
		p.next()
		p.expectSym("=")
		num, _ := p.parseSignedInt32("enum value number")
		v := &descriptorpb.EnumValueDescriptorProto{Name: proto.String(t.text), Number: proto.Int32(num)}
		stmts := p.parseBracketOptions()
		p.expectSym(";")
		if len(stmts) > 0 {
			p.opts = append(p.opts, &optTarget{eval: v, scope: parentScope, stmts: stmts})
		}
		e.Value = append(e.Value, v)
	}
	p.expectSym("}")
	if len(e.Value) == 0 {
		p.failAt(nt, "enums must contain at least one value")
	}
	if len(eo.stmts) > 0 {
		p.opts = append(p.opts, eo)
	}
	return e
}

func (p *parser) parseEnumReserved(e *descriptorpb.EnumDescriptorProto) {
	if p.peek().kind == tString {
		for {
			s, t := p.expectString("reserved value name")
			if !isIdentifier(s) {
				p.failAt(t, "reserved name %q is not a valid identifier", s)
			}
			e.ReservedName = append(e.ReservedName, s)
			if !p.trySym(",") {
				break
			}
		}
		p.expectSym(";")
		return
	}
	for {
		lo, _ := p.parseSignedInt32("enum number range")
		hi := lo
		if p.isIdent("to") {
			p.next()
			if p.isIdent("max") {
				p.next()
				hi = math.MaxInt32
			} else {
				var ht token
				hi, ht = p.parseSignedInt32("enum number range end")
				if hi < lo {
					p.failAt(ht, "reserved range end must not be smaller than its start")
				}
			}
		}
		e.ReservedRange = append(e.ReservedRange, &descriptorpb.EnumDescriptorProto_EnumReservedRange{
			Start: proto.Int32(lo),
			End:   proto.Int32(hi), // inclusive
		})
		if !p.trySym(",") {
			break
		}
	}
	p.expectSym(";")
}
