//go:build verif

// Command zzverif is the implementation-side driver of the /verif correspondence
// checks.  It is compiled inside the picobuf module through `go build -overlay`,
// so it sees the current working tree including internal packages; nothing is
// added to the repository itself.
package main

import (
	"bufio"
	"fmt"
	"os"
	"sort"
)

type command func(args []string, out *bufio.Writer) error

var commands = map[string]command{}

func register(name string, c command) { commands[name] = c }

func main() {
	if len(os.Args) < 2 {
		names := []string{}
		for n := range commands {
			names = append(names, n)
		}
		sort.Strings(names)
		fmt.Fprintln(os.Stderr, "usage: zzverif <command> [args]; commands:", names)
		os.Exit(2)
	}
	c, ok := commands[os.Args[1]]
	if !ok {
		fmt.Fprintln(os.Stderr, "unknown command", os.Args[1])
		os.Exit(2)
	}
	out := bufio.NewWriterSize(os.Stdout, 1<<20)
	err := c(os.Args[2:], out)
	out.Flush()
	if err != nil {
		fmt.Fprintln(os.Stderr, "error:", err)
		os.Exit(1)
	}
}
