//go:build verif

package main

import (
	"bufio"
	"encoding/hex"
	"fmt"
	"math"
	"strconv"
	"strings"
	"time"

	"google.golang.org/protobuf/encoding/protowire"
	"google.golang.org/protobuf/types/known/durationpb"
	"google.golang.org/protobuf/types/known/timestamppb"

	"storj.io/picobuf"
	"storj.io/picobuf/picoconv"
)

// ---- S-writers: the 60 typed writers called directly -----------------------------

func fieldAlphabet() []int32 {
	return []int32{1, 2, 15, 16, 2047, 2048, 1<<14 - 1, 1 << 14, 1<<21 - 1, 1 << 21, 1<<24 - 1, 1 << 24, 1<<25 - 1, 1 << 25, 1<<28 - 1, 1 << 28, 1<<29 - 1}
}

func scalarAlphabet(k Kind) []*Val {
	var out []*Val
	add := func(v *Val) { out = append(out, v) }
	switch k {
	case KBool:
		add(vInt(0))
		add(vInt(1))
	case KInt32, KSint32, KSfixed32:
		for _, x := range i32Bounds {
			add(vInt(x))
		}
		for s := uint(0); s < 31; s += 3 {
			add(vInt(int64(int32(1)<<s) - 1))
			add(vInt(-int64(int32(1) << s)))
		}
	case KInt64, KSint64, KSfixed64:
		for _, x := range i32Bounds {
			add(vInt(x))
		}
		for _, x := range i64Bounds {
			add(vInt(x))
		}
		for s := uint(0); s < 63; s += 7 {
			add(vInt(int64(1)<<s - 1))
			add(vInt(-(int64(1) << s)))
			add(vInt(-(int64(1) << s) - 1))
		}
	case KUint32, KFixed32:
		for _, x := range i32Bounds {
			add(vUint(uint64(uint32(x))))
		}
		for s := uint(0); s < 32; s += 3 {
			add(vUint(uint64(uint32(1)<<s - 1)))
		}
	case KUint64, KFixed64:
		for _, x := range i64Bounds {
			add(vUint(uint64(x)))
		}
		for s := uint(0); s < 64; s += 7 {
			add(vUint(uint64(1)<<s - 1))
			add(vUint(uint64(1) << s))
		}
		add(vUint(math.MaxUint64))
		add(vUint(0))
	case KFloat:
		for _, x := range f32Bounds {
			add(vUint(uint64(x)))
		}
	case KDouble:
		for _, x := range f64Bounds {
			add(vUint(x))
		}
	case KString:
		for _, n := range []int{0, 1, 2, 127, 128, 129, 300} {
			add(vBytes([]byte(strings.Repeat("a", n))))
		}
		add(vBytes([]byte("héllo €")))
	case KBytes:
		for _, n := range []int{0, 1, 127, 128, 129, 16383, 16384} {
			b := make([]byte, n)
			for i := range b {
				b[i] = byte(i * 7)
			}
			add(vBytes(b))
		}
	}
	return out
}

// callWriter invokes enc.[Always][Repeated]K(field, &v)
func callWriter(enc *picobuf.Encoder, k Kind, always, rep bool, field int32, vals []*Val) {
	f := picobuf.FieldNumber(field)
	i64 := func(v *Val) int64 { return v.I.Int64() }
	u64 := func(v *Val) uint64 { return v.I.Uint64() }
	switch k {
	case KBool:
		if rep {
			xs := make([]bool, len(vals))
			for i, v := range vals {
				xs[i] = v.I.Sign() != 0
			}
			if always {
				enc.AlwaysRepeatedBool(f, &xs)
			} else {
				enc.RepeatedBool(f, &xs)
			}
		} else {
			x := vals[0].I.Sign() != 0
			if always {
				enc.AlwaysBool(f, &x)
			} else {
				enc.Bool(f, &x)
			}
		}
	case KInt32, KSint32, KSfixed32:
		xs := make([]int32, len(vals))
		for i, v := range vals {
			xs[i] = int32(i64(v))
		}
		type w1 = func(picobuf.FieldNumber, *int32)
		type wr = func(picobuf.FieldNumber, *[]int32)
		var s, as w1
		var r, ar wr
		switch k {
		case KInt32:
			s, as, r, ar = enc.Int32, enc.AlwaysInt32, enc.RepeatedInt32, enc.AlwaysRepeatedInt32
		case KSint32:
			s, as, r, ar = enc.Sint32, enc.AlwaysSint32, enc.RepeatedSint32, enc.AlwaysRepeatedSint32
		default:
			s, as, r, ar = enc.Sfixed32, enc.AlwaysSfixed32, enc.RepeatedSfixed32, enc.AlwaysRepeatedSfixed32
		}
		switch {
		case rep && always:
			ar(f, &xs)
		case rep:
			r(f, &xs)
		case always:
			as(f, &xs[0])
		default:
			s(f, &xs[0])
		}
	case KInt64, KSint64, KSfixed64:
		xs := make([]int64, len(vals))
		for i, v := range vals {
			xs[i] = i64(v)
		}
		type w1 = func(picobuf.FieldNumber, *int64)
		type wr = func(picobuf.FieldNumber, *[]int64)
		var s, as w1
		var r, ar wr
		switch k {
		case KInt64:
			s, as, r, ar = enc.Int64, enc.AlwaysInt64, enc.RepeatedInt64, enc.AlwaysRepeatedInt64
		case KSint64:
			s, as, r, ar = enc.Sint64, enc.AlwaysSint64, enc.RepeatedSint64, enc.AlwaysRepeatedSint64
		default:
			s, as, r, ar = enc.Sfixed64, enc.AlwaysSfixed64, enc.RepeatedSfixed64, enc.AlwaysRepeatedSfixed64
		}
		switch {
		case rep && always:
			ar(f, &xs)
		case rep:
			r(f, &xs)
		case always:
			as(f, &xs[0])
		default:
			s(f, &xs[0])
		}
	case KUint32, KFixed32:
		xs := make([]uint32, len(vals))
		for i, v := range vals {
			xs[i] = uint32(u64(v))
		}
		type w1 = func(picobuf.FieldNumber, *uint32)
		type wr = func(picobuf.FieldNumber, *[]uint32)
		var s, as w1
		var r, ar wr
		if k == KUint32 {
			s, as, r, ar = enc.Uint32, enc.AlwaysUint32, enc.RepeatedUint32, enc.AlwaysRepeatedUint32
		} else {
			s, as, r, ar = enc.Fixed32, enc.AlwaysFixed32, enc.RepeatedFixed32, enc.AlwaysRepeatedFixed32
		}
		switch {
		case rep && always:
			ar(f, &xs)
		case rep:
			r(f, &xs)
		case always:
			as(f, &xs[0])
		default:
			s(f, &xs[0])
		}
	case KUint64, KFixed64:
		xs := make([]uint64, len(vals))
		for i, v := range vals {
			xs[i] = u64(v)
		}
		type w1 = func(picobuf.FieldNumber, *uint64)
		type wr = func(picobuf.FieldNumber, *[]uint64)
		var s, as w1
		var r, ar wr
		if k == KUint64 {
			s, as, r, ar = enc.Uint64, enc.AlwaysUint64, enc.RepeatedUint64, enc.AlwaysRepeatedUint64
		} else {
			s, as, r, ar = enc.Fixed64, enc.AlwaysFixed64, enc.RepeatedFixed64, enc.AlwaysRepeatedFixed64
		}
		switch {
		case rep && always:
			ar(f, &xs)
		case rep:
			r(f, &xs)
		case always:
			as(f, &xs[0])
		default:
			s(f, &xs[0])
		}
	case KFloat:
		xs := make([]float32, len(vals))
		for i, v := range vals {
			xs[i] = math.Float32frombits(uint32(u64(v)))
		}
		switch {
		case rep && always:
			enc.AlwaysRepeatedFloat(f, &xs)
		case rep:
			enc.RepeatedFloat(f, &xs)
		case always:
			enc.AlwaysFloat(f, &xs[0])
		default:
			enc.Float(f, &xs[0])
		}
	case KDouble:
		xs := make([]float64, len(vals))
		for i, v := range vals {
			xs[i] = math.Float64frombits(u64(v))
		}
		switch {
		case rep && always:
			enc.AlwaysRepeatedDouble(f, &xs)
		case rep:
			enc.RepeatedDouble(f, &xs)
		case always:
			enc.AlwaysDouble(f, &xs[0])
		default:
			enc.Double(f, &xs[0])
		}
	case KString:
		xs := make([]string, len(vals))
		for i, v := range vals {
			xs[i] = string(v.B)
		}
		switch {
		case rep && always:
			enc.AlwaysRepeatedString(f, &xs)
		case rep:
			enc.RepeatedString(f, &xs)
		case always:
			enc.AlwaysString(f, &xs[0])
		default:
			enc.String(f, &xs[0])
		}
	case KBytes:
		xs := make([][]byte, len(vals))
		for i, v := range vals {
			xs[i] = v.B
		}
		switch {
		case rep && always:
			enc.AlwaysRepeatedBytes(f, &xs)
		case rep:
			enc.RepeatedBytes(f, &xs)
		case always:
			enc.AlwaysBytes(f, &xs[0])
		default:
			enc.Bytes(f, &xs[0])
		}
	}
}

// refPayload: the value bytes built with protobuf-go's protowire (independent oracle)
func refPayload(k Kind, v *Val) []byte {
	switch k {
	case KBool:
		return protowire.AppendVarint(nil, protowire.EncodeBool(v.I.Sign() != 0))
	case KInt32, KInt64:
		return protowire.AppendVarint(nil, uint64(v.I.Int64()))
	case KUint32, KUint64:
		return protowire.AppendVarint(nil, v.I.Uint64())
	case KSint32, KSint64:
		return protowire.AppendVarint(nil, protowire.EncodeZigZag(v.I.Int64()))
	case KFixed32, KFloat:
		return protowire.AppendFixed32(nil, uint32(v.I.Uint64()))
	case KSfixed32:
		return protowire.AppendFixed32(nil, uint32(int32(v.I.Int64())))
	case KFixed64, KDouble:
		return protowire.AppendFixed64(nil, v.I.Uint64())
	case KSfixed64:
		return protowire.AppendFixed64(nil, uint64(v.I.Int64()))
	default:
		return protowire.AppendBytes(nil, v.B)
	}
}

func refWriter(k Kind, always, rep bool, field int32, vals []*Val) []byte {
	num := protowire.Number(field)
	w := wireOfKind(k)
	if !rep {
		if !always && isDefaultVal(vals[0]) {
			return nil
		}
		return append(protowire.AppendTag(nil, num, w), refPayload(k, vals[0])...)
	}
	if !always && len(vals) == 0 {
		return nil
	}
	if k == KString || k == KBytes {
		var b []byte
		for _, v := range vals {
			b = append(protowire.AppendTag(b, num, w), refPayload(k, v)...)
		}
		return b
	}
	var p []byte
	for _, v := range vals {
		p = append(p, refPayload(k, v)...)
	}
	return protowire.AppendBytes(protowire.AppendTag(nil, num, protowire.BytesType), p)
}

func valsString(vals []*Val) string {
	parts := make([]string, len(vals))
	for i, v := range vals {
		parts[i] = v.String()
	}
	if len(parts) == 0 {
		return "(l)"
	}
	return "(l " + strings.Join(parts, " ") + ")"
}

func writerCase(out *bufio.Writer, k Kind, always, rep bool, field int32, vals []*Val, prefix []byte) {
	res := ""
	func() {
		defer func() {
			if r := recover(); r != nil {
				res = "PANIC"
			}
		}()
		buf := make([]byte, len(prefix), len(prefix)+3) // tight capacity: forces growth
		if (len(prefix)+int(field)+len(vals))%2 == 1 {
			// a recycled buffer with room to spare, full of what an earlier use left behind: nothing of it may show
			buf = make([]byte, len(prefix), len(prefix)+4096)
			for i, full := 0, buf[:cap(buf)]; i < len(full); i++ {
				full[i] = 0xA5
			}
		}
		copy(buf, prefix)
		enc := picobuf.NewEncoderBuffer(buf[:cap(buf)])
		// NewEncoderBuffer truncates to length 0; write the prefix through the API
		enc.UnrecognizedFields(prefix)
		callWriter(enc, k, always, rep, field, vals)
		got := enc.Buffer()
		if len(got) < len(prefix) || hex.EncodeToString(got[:len(prefix)]) != hex.EncodeToString(prefix) {
			res = "PREFIX-CHANGED"
			return
		}
		res = "x" + hex.EncodeToString(got[len(prefix):])
	}()
	ref := "x" + hex.EncodeToString(refWriter(k, always, rep, field, vals))
	fmt.Fprintf(out, "writer\t%s\t%d\t%d\t%d\t%s\t%s\t%s\n", k, b2i(always), b2i(rep), field, valsString(vals), res, ref)
}

// ---- S-readers ----------------------------------------------------------------------

// dest holds the typed destination variables of one reader, as a generated message struct holds its fields: they
// persist from one call to the next (capacity and aliasing included)
type dest struct {
	k     Kind
	bools []bool
	i32   []int32
	i64   []int64
	u32   []uint32
	u64   []uint64
	f32   []float32
	f64   []float64
	strs  []string
	byts  [][]byte
}

func newDest(k Kind, init []*Val) *dest {
	d := &dest{k: k}
	for _, v := range init {
		switch k {
		case KBool:
			d.bools = append(d.bools, v.I.Sign() != 0)
		case KInt32, KSint32, KSfixed32:
			d.i32 = append(d.i32, int32(v.I.Int64()))
		case KInt64, KSint64, KSfixed64:
			d.i64 = append(d.i64, v.I.Int64())
		case KUint32, KFixed32:
			d.u32 = append(d.u32, uint32(v.I.Uint64()))
		case KUint64, KFixed64:
			d.u64 = append(d.u64, v.I.Uint64())
		case KFloat:
			d.f32 = append(d.f32, math.Float32frombits(uint32(v.I.Uint64())))
		case KDouble:
			d.f64 = append(d.f64, math.Float64frombits(v.I.Uint64()))
		case KString:
			d.strs = append(d.strs, string(v.B))
		case KBytes:
			d.byts = append(d.byts, v.B)
		}
	}
	return d
}

// read runs dec.[Repeated]K(field, &v) once
func (d *dest) read(dec *picobuf.Decoder, rep bool, field int32) {
	f := picobuf.FieldNumber(field)
	switch d.k {
	case KBool:
		if rep {
			dec.RepeatedBool(f, &d.bools)
		} else {
			dec.Bool(f, &d.bools[0])
		}
	case KInt32:
		if rep {
			dec.RepeatedInt32(f, &d.i32)
		} else {
			dec.Int32(f, &d.i32[0])
		}
	case KSint32:
		if rep {
			dec.RepeatedSint32(f, &d.i32)
		} else {
			dec.Sint32(f, &d.i32[0])
		}
	case KSfixed32:
		if rep {
			dec.RepeatedSfixed32(f, &d.i32)
		} else {
			dec.Sfixed32(f, &d.i32[0])
		}
	case KInt64:
		if rep {
			dec.RepeatedInt64(f, &d.i64)
		} else {
			dec.Int64(f, &d.i64[0])
		}
	case KSint64:
		if rep {
			dec.RepeatedSint64(f, &d.i64)
		} else {
			dec.Sint64(f, &d.i64[0])
		}
	case KSfixed64:
		if rep {
			dec.RepeatedSfixed64(f, &d.i64)
		} else {
			dec.Sfixed64(f, &d.i64[0])
		}
	case KUint32:
		if rep {
			dec.RepeatedUint32(f, &d.u32)
		} else {
			dec.Uint32(f, &d.u32[0])
		}
	case KFixed32:
		if rep {
			dec.RepeatedFixed32(f, &d.u32)
		} else {
			dec.Fixed32(f, &d.u32[0])
		}
	case KUint64:
		if rep {
			dec.RepeatedUint64(f, &d.u64)
		} else {
			dec.Uint64(f, &d.u64[0])
		}
	case KFixed64:
		if rep {
			dec.RepeatedFixed64(f, &d.u64)
		} else {
			dec.Fixed64(f, &d.u64[0])
		}
	case KFloat:
		if rep {
			dec.RepeatedFloat(f, &d.f32)
		} else {
			dec.Float(f, &d.f32[0])
		}
	case KDouble:
		if rep {
			dec.RepeatedDouble(f, &d.f64)
		} else {
			dec.Double(f, &d.f64[0])
		}
	case KString:
		if rep {
			dec.RepeatedString(f, &d.strs)
		} else {
			dec.String(f, &d.strs[0])
		}
	case KBytes:
		if rep {
			dec.RepeatedBytes(f, &d.byts)
		} else {
			dec.Bytes(f, &d.byts[0])
		}
	}
}

// vals copies the current contents out
func (d *dest) vals() []*Val {
	var out []*Val
	for _, x := range d.bools {
		out = append(out, vInt(int64(b2i(x))))
	}
	for _, x := range d.i32 {
		out = append(out, vInt(int64(x)))
	}
	for _, x := range d.i64 {
		out = append(out, vInt(x))
	}
	for _, x := range d.u32 {
		out = append(out, vUint(uint64(x)))
	}
	for _, x := range d.u64 {
		out = append(out, vUint(x))
	}
	for _, x := range d.f32 {
		out = append(out, vUint(uint64(math.Float32bits(x))))
	}
	for _, x := range d.f64 {
		out = append(out, vUint(math.Float64bits(x)))
	}
	for _, x := range d.strs {
		out = append(out, vBytes([]byte(x)))
	}
	for _, x := range d.byts {
		out = append(out, vBytes(x))
	}
	return out
}

// callReader runs dec.[Repeated]K(field, &v) once on a decoder positioned on data; returns value list
func callReader(dec *picobuf.Decoder, k Kind, rep bool, field int32, init []*Val) []*Val {
	d := newDest(k, init)
	d.read(dec, rep, field)
	return d.vals()
}

// readerSeqCase: one decoder over several records, read by a sequence of calls whose destination variables persist from
// call to call, as the fields of a message do while its Decode method runs (and while a message is decoded into twice).
// Every step is also a stand-alone reader row (remaining input, destination before, state after); at the end no value
// observed earlier may have changed behind the caller's back and the input must be what it was.
func readerSeqCase(out *bufio.Writer, r *rng) {
	type slot struct {
		k     Kind
		rep   bool
		field int32
		d     *dest
		seen  string
	}
	var slots []*slot
	ns := 1 + r.intn(3)
	for i := 0; i < ns; i++ {
		k := Kind(r.intn(int(KBytes) + 1))
		if r.intn(3) == 0 {
			k = []Kind{KBytes, KFixed32, KSfixed32, KFloat, KFixed64, KDouble, KString}[r.intn(7)]
		}
		sl := &slot{k: k, rep: r.intn(2) == 0, field: int32(i + 1)}
		var init []*Val
		if !sl.rep {
			init = []*Val{zeroValOf(k)}
		}
		sl.d = newDest(k, init)
		slots = append(slots, sl)
	}
	value := func(k Kind) *Val {
		alpha := scalarAlphabet(k)
		if k == KBytes || k == KString {
			// lengths below and above those already stored, so that a later value fits where an earlier one lies and reaches past it
			b := make([]byte, []int{0, 1, 2, 3, 5, 9, 17}[r.intn(7)])
			for i := range b {
				b[i] = byte('a' + r.intn(26))
			}
			return vBytes(b)
		}
		return alpha[r.intn(len(alpha))]
	}
	var input []byte
	nrec := 2 + r.intn(6)
	for i := 0; i < nrec; i++ {
		sl := slots[r.intn(len(slots))]
		packable := sl.k != KString && sl.k != KBytes
		switch {
		case sl.rep && packable && r.intn(2) == 0:
			var p []byte
			for j := []int{0, 1, 2, 3, 5, 9}[r.intn(6)]; j > 0; j-- {
				p = append(p, refPayload(sl.k, value(sl.k))...)
			}
			input = protowire.AppendBytes(protowire.AppendTag(input, protowire.Number(sl.field), protowire.BytesType), p)
		case r.intn(12) == 0:
			input = append(protowire.AppendTag(input, 7, protowire.VarintType), 1) // a field nobody reads: the sequence stops there
		default:
			input = append(protowire.AppendTag(input, protowire.Number(sl.field), wireOfKind(sl.k)), refPayload(sl.k, value(sl.k))...)
		}
	}
	work := append([]byte{}, input...)
	verdict := "stable"
	steps := 0
	func() {
		defer func() {
			if rr := recover(); rr != nil {
				verdict = "PANIC"
			}
		}()
		dec := picobuf.NewDecoder(work)
		dec.VerifInit()
		off := 0
		for steps < 64 {
			pf, pw, rem := dec.VerifState()
			if pf < 0 {
				break
			}
			var sl *slot
			for _, c := range slots {
				if c.field == pf {
					sl = c
				}
			}
			if sl == nil {
				break
			}
			_ = pw
			before := sl.d.vals()
			sl.d.read(dec, sl.rep, sl.field)
			pf2, pw2, rem2 := dec.VerifState()
			es := "-"
			if ef, em, ok := dec.VerifErrField(); ok {
				es = fmt.Sprintf("%d:%s", ef, errClassOf(em))
			}
			if pf2 < 0 {
				pw2 = 0
			}
			after := sl.d.vals()
			res := fmt.Sprintf("pf=%d pw=%d rem=%d err=%s val=%s", pf2, pw2, rem2, es, valsString(after))
			data := input[off:]
			fmt.Fprintf(out, "reader\t%s\t%d\t%d\tx%s\t%s\t%s\t%s\n", sl.k, b2i(sl.rep), sl.field, hex.EncodeToString(data), valsString(before), res, refReader(sl.k, sl.rep, sl.field, data, before))
			sl.seen = valsString(after)
			steps++
			// every other destination still holds what it held when it was last looked at
			for _, c := range slots {
				if c != sl && c.seen != "" && valsString(c.d.vals()) != c.seen && verdict == "stable" {
					verdict = fmt.Sprintf("call %d on field %d changed the destination of field %d from %s to %s", steps, sl.field, c.field, c.seen, valsString(c.d.vals()))
				}
			}
			if pf2 < 0 || (rem2 == rem && pf2 == pf) {
				break
			}
			off = len(input) - rem2 - len(protowire.AppendVarint(nil, uint64(pf2)<<3|uint64(pw2)))
		}
	}()
	if verdict == "stable" && hex.EncodeToString(work) != hex.EncodeToString(input) {
		verdict = "input modified: x" + hex.EncodeToString(work)
	}
	desc := make([]string, len(slots))
	for i, sl := range slots {
		desc[i] = fmt.Sprintf("%d:%s:%d", sl.field, sl.k, b2i(sl.rep))
	}
	fmt.Fprintf(out, "rseq\tseq\t%s\tx%s\t%d\t%s\n", strings.Join(desc, ","), hex.EncodeToString(input), steps, verdict)
}

func errClassOf(msg string) string {
	switch {
	case strings.HasPrefix(msg, "expected wire type"):
		return "wire"
	case strings.HasPrefix(msg, "unable to parse"):
		return "parse"
	case strings.HasPrefix(msg, "advance outside buffer"):
		return "advance"
	case strings.HasPrefix(msg, "failed to parse"):
		return "tag"
	case strings.HasPrefix(msg, "invalid field number"):
		return "fieldnum"
	}
	return "custom"
}

func readerCase(out *bufio.Writer, k Kind, rep bool, field int32, data []byte, init []*Val) {
	res := ""
	func() {
		defer func() {
			if r := recover(); r != nil {
				res = "PANIC"
			}
		}()
		dec := picobuf.NewDecoder(append([]byte{}, data...))
		dec.VerifInit()
		vals := callReader(dec, k, rep, field, init)
		pf, pw, rem := dec.VerifState()
		es := "-"
		if ef, em, ok := dec.VerifErrField(); ok {
			es = fmt.Sprintf("%d:%s", ef, errClassOf(em))
		}
		if pf < 0 {
			pw = 0 // pendingWire is meaningless once the cursor is done/errored
		}
		res = fmt.Sprintf("pf=%d pw=%d rem=%d err=%s val=%s", pf, pw, rem, es, valsString(vals))
	}()
	fmt.Fprintf(out, "reader\t%s\t%d\t%d\tx%s\t%s\t%s\t%s\n", k, b2i(rep), field, hex.EncodeToString(data), valsString(init), res, refReader(k, rep, field, data, init))
}

// nestedReaderCase: the same reader called inside the callback of Message / PresentMessage / RepeatedMessage on a
// payload that holds `data`; an error raised inside the callback must survive the return to the outer cursor.
func nestedReaderCase(out *bufio.Writer, k Kind, rep bool, field int32, data []byte, init []*Val, wrap int) {
	outer := protowire.AppendVarint(nil, 9<<3|2)
	outer = protowire.AppendVarint(outer, uint64(len(data)))
	outer = append(outer, data...)
	outer = append(outer, 0x38, 0x01, 0x40, 0x05)
	res := ""
	func() {
		defer func() {
			if r := recover(); r != nil {
				res = "PANIC"
			}
		}()
		dec := picobuf.NewDecoder(append([]byte{}, outer...))
		dec.VerifInit()
		cur := init
		cb := func(c *picobuf.Decoder) { cur = callReader(c, k, rep, field, cur) }
		switch wrap {
		case 0:
			dec.Message(9, cb)
		case 1:
			dec.PresentMessage(9, cb)
		default:
			dec.RepeatedMessage(9, cb)
		}
		pf, _, rem := dec.VerifState()
		es := "-"
		if ef, em, ok := dec.VerifErrField(); ok {
			es = fmt.Sprintf("%d:%s", ef, errClassOf(em))
		}
		// follow-up at the outer level: field 7 is a varint, a fixed32 reader must fail and stop the decoder,
		// whatever happened inside the callback (errors are sticky, later failures are not ignored)
		// (inputs of odd length: the public Fail() a custom type would call)
		if len(outer)%2 == 0 {
			var fx uint32
			dec.Fixed32(7, &fx)
		} else {
			dec.Fail(7, "custom failure")
		}
		pf2, _, rem2 := dec.VerifState()
		es2 := "-"
		if ef, em, ok := dec.VerifErrField(); ok {
			es2 = fmt.Sprintf("%d:%s", ef, errClassOf(em))
			// the public accessor reports the same error, with the field number in decimal
			if pe := dec.Err(); pe == nil || pe.Error() != fmt.Sprintf("failed while parsing %d: %s", ef, em) {
				es2 += ":Err()-differs"
			}
		} else if dec.Err() != nil {
			es2 = "-:Err()-set"
		}
		res = fmt.Sprintf("pf=%d rem=%d err=%s val=%s pf2=%d rem2=%d err2=%s", pf, rem, es, valsString(cur), pf2, rem2, es2)
	}()
	fmt.Fprintf(out, "nreader\t%s\t%d\t%d\tx%s\t%s\t%d\t%s\n", k, b2i(rep), field, hex.EncodeToString(outer), valsString(init), wrap, res)
	// the same reader 5, 9 and 17 messages deep (where a decoder's state stack would outgrow an inline array or be
	// reallocated): what comes back at the top is what comes back from one level - the depth-1 row above is the one
	// compared with the model
	if wrap == 0 && len(data)%3 == 0 && !strings.HasPrefix(res, "PANIC") {
		first := res
		if i := strings.Index(first, " pf2="); i >= 0 {
			first = first[:i]
		}
		for _, depth := range []int{5, 9, 17} {
			payload := append([]byte{}, data...)
			for l := 0; l < depth; l++ {
				w := protowire.AppendVarint(nil, 9<<3|2)
				w = protowire.AppendVarint(w, uint64(len(payload)))
				payload = append(w, payload...)
			}
			deepIn := append(payload, 0x38, 0x01, 0x40, 0x05)
			deep := ""
			func() {
				defer func() {
					if r := recover(); r != nil {
						deep = "PANIC"
					}
				}()
				dec := picobuf.NewDecoder(append([]byte{}, deepIn...))
				dec.VerifInit()
				cur := init
				var down func(level int) func(c *picobuf.Decoder)
				down = func(level int) func(c *picobuf.Decoder) {
					return func(c *picobuf.Decoder) {
						if level == 0 {
							cur = callReader(c, k, rep, field, cur)
							return
						}
						c.Message(9, down(level-1))
					}
				}
				dec.Message(9, down(depth-1))
				pf, _, rem := dec.VerifState()
				es := "-"
				if ef, em, ok := dec.VerifErrField(); ok {
					es = fmt.Sprintf("%d:%s", ef, errClassOf(em))
				}
				deep = fmt.Sprintf("pf=%d rem=%d err=%s val=%s", pf, rem, es, valsString(cur))
			}()
			fmt.Fprintf(out, "dreader\t%s\t%d\t%d\tx%s\t%s\t%d\t%s\t%s\n", k, b2i(rep), field, hex.EncodeToString(data), valsString(init), depth, deep, first)
		}
	}
}

func init() {
	register("writers", func(args []string, out *bufio.Writer) error {
		seed, _ := strconv.ParseUint(args[0], 10, 64)
		thorough := len(args) > 1 && args[1] == "thorough"
		r := newRng(seed)
		prefixes := [][]byte{nil, {0xAA}, []byte("0123456789abcdef0123456789abcdef0123456789abcdef0123456789abcdef01")}
		fields := fieldAlphabet()
		for k := KBool; k <= KBytes; k++ {
			alpha := scalarAlphabet(k)
			for _, always := range []bool{false, true} {
				// single: every value x a rotating field number (all numbers in thorough)
				for i, v := range alpha {
					fs := []int32{fields[i%len(fields)]}
					if thorough {
						fs = fields
					}
					for _, f := range fs {
						writerCase(out, k, always, false, f, []*Val{v}, prefixes[(i+int(f))%len(prefixes)])
					}
				}
				// repeated: empty, singletons, random lists, long lists (length classes of the packed payload)
				writerCase(out, k, always, true, fields[int(k)%len(fields)], nil, nil)
				for i, v := range alpha {
					writerCase(out, k, always, true, fields[(i+3)%len(fields)], []*Val{v}, prefixes[i%len(prefixes)])
				}
				// uniform lists whose packed payload straddles the one-byte / two-byte length boundary (127/128 bytes) for
				// every element size the kind has: counts that are neither powers of two nor round
				if k != KBytes && k != KString {
					seen := map[int]bool{}
					for i, v := range alpha {
						size := len(refPayload(k, v))
						if size == 0 || seen[size] && i%4 != 0 {
							continue
						}
						seen[size] = true
						for _, n := range []int{127 / size, 127/size + 1, 128/size + 1} {
							if n < 1 {
								continue
							}
							vs := make([]*Val, n)
							for j := range vs {
								vs[j] = v
							}
							writerCase(out, k, always, true, fields[(i+n)%len(fields)], vs, prefixes[(i+n)%len(prefixes)])
						}
					}
				}
				nl := 12
				if thorough {
					nl = 60
				}
				for j := 0; j < nl; j++ {
					n := []int{2, 3, 5, 16, 17, 127, 128, 129, 200}[r.intn(9)]
					if k == KBytes || k == KString {
						n = 1 + r.intn(4)
					}
					vs := make([]*Val, n)
					for i := range vs {
						vs[i] = alpha[r.intn(len(alpha))]
					}
					writerCase(out, k, always, true, fields[r.intn(len(fields))], vs, prefixes[r.intn(len(prefixes))])
				}
			}
		}
		// RepeatedEnum (hand-written writer): values are int32 enum numbers, negative ones included
		{
			alpha := scalarAlphabet(KInt32)
			for j := 0; j < 40; j++ {
				n := []int{0, 1, 1, 2, 3, 17, 127, 128, 129}[r.intn(9)]
				vs := make([]*Val, n)
				for i := range vs {
					vs[i] = alpha[r.intn(len(alpha))]
				}
				f := fields[r.intn(len(fields))]
				res := ""
				func() {
					defer func() {
						if rr := recover(); rr != nil {
							res = "PANIC"
						}
					}()
					enc := picobuf.NewEncoder()
					enc.RepeatedEnum(picobuf.FieldNumber(f), len(vs), func(i uint) int32 { return int32(vs[i].I.Int64()) })
					res = "x" + hex.EncodeToString(enc.Buffer())
				}()
				ref := []byte{}
				if n > 0 {
					var p []byte
					for _, v := range vs {
						p = protowire.AppendVarint(p, uint64(v.I.Int64()))
					}
					ref = protowire.AppendBytes(protowire.AppendTag(nil, protowire.Number(f), protowire.BytesType), p)
				}
				fmt.Fprintf(out, "writer\tenum\t0\t1\t%d\t%s\t%s\tx%s\n", f, valsString(vs), res, hex.EncodeToString(ref))
			}
		}
		return nil
	})
	register("readers", func(args []string, out *bufio.Writer) error {
		seed, _ := strconv.ParseUint(args[0], 10, 64)
		r := newRng(seed)
		payloads := func(k Kind) [][]byte {
			ps := [][]byte{nil, {0}, {1}, {2}, {0x7f}, {0x80}, {0x80, 0x01}, {0x81, 0x00}, {0xff, 0xff, 0xff, 0xff, 0x0f}, {0xff, 0xff, 0xff, 0xff, 0xff, 0xff, 0xff, 0xff, 0xff, 0x01},
				{0xff, 0xff, 0xff, 0xff, 0xff, 0xff, 0xff, 0xff, 0xff, 0x02}, {0x80, 0x80, 0x80, 0x80, 0x80, 0x80, 0x80, 0x80, 0x80, 0x80, 0x01},
				{1, 2, 3, 4}, {1, 2, 3}, {1, 2, 3, 4, 5, 6, 7, 8}, {1, 2, 3, 4, 5, 6, 7}, {0xff, 0xff, 0xff, 0xff}, {0, 0, 0, 0x80}, {0xff, 0xff, 0xff, 0xff, 0xff, 0xff, 0xff, 0xff},
				{3, 'a', 'b', 'c'}, {3, 'a', 'b'}, {4, 1, 0, 0, 0}, {8, 1, 2, 3, 4, 5, 6, 7, 8}, {2, 0x81, 0x00}, {3, 0x80, 0x80, 0x80}, {5, 1, 2, 3, 4, 5}, {0xff, 0xff, 0xff, 0xff, 0xff, 0xff, 0xff, 0xff, 0x7f}}
			alpha := scalarAlphabet(k)
			for i, v := range alpha {
				one := refPayload(k, v)
				ps = append(ps, one)
				if k != KString && k != KBytes {
					ps = append(ps, protowire.AppendBytes(nil, one)) // packed, one element
					two := append(append([]byte{}, one...), refPayload(k, alpha[(i*7+3)%len(alpha)])...)
					ps = append(ps, protowire.AppendBytes(nil, two)) // packed, two elements
				}
			}
			return ps
		}
		for k := KBool; k <= KBytes; k++ {
			ps := payloads(k)
			for _, rep := range []bool{false, true} {
				for wt := 0; wt < 8; wt++ {
					for pi, p := range ps {
						for _, same := range []bool{true, false} {
							if !same && (pi%5 != 0) {
								continue
							}
							field := int32(5)
							pending := field
							if !same {
								pending = 6
							}
							data := protowire.AppendVarint(nil, uint64(pending)<<3|uint64(wt))
							data = append(data, p...)
							// trailer: another occurrence of the same field, or a different field
							switch r.intn(4) {
							case 0:
								data = append(data, protowire.AppendVarint(nil, uint64(field)<<3|uint64(wireOfKind(k)))...)
								data = append(data, refPayload(k, scalarAlphabet(k)[r.intn(len(scalarAlphabet(k)))])...)
							case 1:
								data = append(data, 0x38, 0x01)
							}
							init := []*Val{zeroValOf(k)}
							if rep {
								init = nil
								if r.intn(3) == 0 {
									// earlier elements of the list: they stay, whatever the record holds
									for j := 1 + r.intn(3); j > 0; j-- {
										init = append(init, scalarAlphabet(k)[r.intn(len(scalarAlphabet(k)))])
									}
								}
							} else if r.intn(3) == 0 {
								init = []*Val{scalarAlphabet(k)[r.intn(len(scalarAlphabet(k)))]}
							}
							readerCase(out, k, rep, field, data, init)
							if pi%3 == 0 || wt == int(wireOfKind(k)) {
								nestedReaderCase(out, k, rep, field, data, init, (pi+wt)%3)
							}
						}
					}
				}
			}
		}
		// RepeatedEnum reader: same payload grid as repeated int32
		for wt := 0; wt < 8; wt++ {
			for _, p := range payloads(KInt32) {
				data := protowire.AppendVarint(nil, uint64(5)<<3|uint64(wt))
				data = append(data, p...)
				if r.intn(3) == 0 {
					data = append(data, 0x28, 0xff, 0xff, 0xff, 0xff, 0x0f)
				}
				res := ""
				func() {
					defer func() {
						if rr := recover(); rr != nil {
							res = "PANIC"
						}
					}()
					dec := picobuf.NewDecoder(append([]byte{}, data...))
					dec.VerifInit()
					var vals []*Val
					dec.RepeatedEnum(5, func(x int32) { vals = append(vals, vInt(int64(x))) })
					pf, pw, rem := dec.VerifState()
					es := "-"
					if ef, em, ok := dec.VerifErrField(); ok {
						es = fmt.Sprintf("%d:%s", ef, errClassOf(em))
					}
					if pf < 0 {
						pw = 0
					}
					res = fmt.Sprintf("pf=%d pw=%d rem=%d err=%s val=%s", pf, pw, rem, es, valsString(vals))
				}()
				fmt.Fprintf(out, "reader\tenum\t1\t5\tx%s\t(l)\t%s\t%s\n", hex.EncodeToString(data), res, refReader(KInt32, true, 5, data, nil))
			}
		}
		// sequences of calls with persistent destinations
		nseq := 1500
		if len(args) > 1 {
			nseq, _ = strconv.Atoi(args[1])
		}
		for i := 0; i < nseq; i++ {
			readerSeqCase(out, r.fork())
		}
		return nil
	})
	register("fnstr", func(args []string, out *bufio.Writer) error {
		seed, _ := strconv.ParseUint(args[0], 10, 64)
		n, _ := strconv.Atoi(args[1])
		r := newRng(seed)
		emit := func(f int32) {
			res := ""
			func() {
				defer func() {
					if rr := recover(); rr != nil {
						res = "PANIC"
					}
				}()
				res = "x" + hex.EncodeToString([]byte(picobuf.VerifFieldString(f)))
			}()
			fmt.Fprintf(out, "fnstr\t%d\t%s\tx%s\n", f, res, hex.EncodeToString([]byte(strconv.Itoa(int(f)))))
		}
		for _, f := range []int32{0, 1, -1, 9, 10, 11, 99, 100, 101, -9, -10, -99, -100, math.MaxInt32, math.MinInt32, math.MinInt32 + 1, math.MaxInt32 - 1, 1000000000, -1000000000, 999999999, -999999999, 1<<29 - 1, 1 << 29} {
			emit(f)
		}
		p := int64(1)
		for i := 0; i < 10; i++ {
			for _, d := range []int64{-1, 0, 1} {
				for _, s := range []int64{1, -1} {
					x := s * (p + d)
					if x >= math.MinInt32 && x <= math.MaxInt32 {
						emit(int32(x))
					}
				}
			}
			p *= 10
		}
		for i := 0; i < n; i++ {
			emit(int32(r.u64() >> uint(32+r.intn(32))))
			emit(-int32(r.u64() >> uint(33+r.intn(31))))
		}
		return nil
	})
	// conv <seed> <n>: picoconv Duration/Timestamp on (seconds, nanos) pairs and on Go values
	register("conv", func(args []string, out *bufio.Writer) error {
		seed, _ := strconv.ParseUint(args[0], 10, 64)
		n, _ := strconv.Atoi(args[1])
		r := newRng(seed)
		maxS := int64(math.MaxInt64 / 1000000000)
		secs := []int64{0, 1, -1, maxS, maxS + 1, maxS - 1, -maxS, -maxS - 1, -maxS + 1, math.MaxInt64, math.MinInt64, math.MaxInt64 - 1, math.MinInt64 + 1,
			1 << 31, -(1 << 31), 253402300799, -62135596800, -62135596801, 1 << 62, -(1 << 62), 9223372036, 9223372037, -9223372036, -9223372037}
		nanos := []int32{0, 1, -1, 999999999, -999999999, 1000000000, -1000000000, math.MaxInt32, math.MinInt32, 500000000, 854775807, 854775808, -854775808, -854775809}
		durDecode := func(s int64, ns int32) {
			var d picoconv.Duration
			data := protowire.AppendTag(nil, 1, protowire.BytesType)
			body := protowire.AppendVarint(protowire.AppendTag(nil, 1, protowire.VarintType), uint64(s))
			body = protowire.AppendVarint(protowire.AppendTag(body, 2, protowire.VarintType), uint64(int64(ns)))
			data = protowire.AppendBytes(data, body)
			dec := picobuf.NewDecoder(data)
			dec.VerifInit()
			d.PicoDecode(dec, 1)
			ref := (&durationpb.Duration{Seconds: s, Nanos: ns}).AsDuration()
			fmt.Fprintf(out, "durdec\t%d\t%d\t%d\t%d\n", s, ns, int64(d), int64(ref))
			var ts picoconv.Timestamp
			dec2 := picobuf.NewDecoder(data)
			dec2.VerifInit()
			ts.PicoDecode(dec2, 1)
			rt := (&timestamppb.Timestamp{Seconds: s, Nanos: ns}).AsTime()
			got := time.Time(ts)
			fmt.Fprintf(out, "tsdec\t%d\t%d\t%d %d %s\t%d %d %s\n", s, ns, got.Unix(), got.Nanosecond(), got.Location(), rt.Unix(), rt.Nanosecond(), rt.Location())
		}
		durEncode := func(d int64) {
			enc := picobuf.NewEncoder()
			x := picoconv.Duration(d)
			x.PicoEncode(enc, 1)
			ref := durationpb.New(time.Duration(d))
			body := []byte{}
			if ref.Seconds != 0 {
				body = protowire.AppendVarint(protowire.AppendTag(body, 1, protowire.VarintType), uint64(ref.Seconds))
			}
			if ref.Nanos != 0 {
				body = protowire.AppendVarint(protowire.AppendTag(body, 2, protowire.VarintType), uint64(int64(ref.Nanos)))
			}
			want := protowire.AppendBytes(protowire.AppendTag(nil, 1, protowire.BytesType), body)
			// round trip through picoconv
			var back picoconv.Duration
			dec := picobuf.NewDecoder(enc.Buffer())
			dec.VerifInit()
			back.PicoDecode(dec, 1)
			fmt.Fprintf(out, "durenc\t%d\tx%s\tx%s\t%d\n", d, hex.EncodeToString(enc.Buffer()), hex.EncodeToString(want), int64(back))
		}
		var tsEncodeIn func(sec, nsec int64, zone uint64)
		tsEncode := func(sec int64, nsec int64) {
			if time.Unix(sec, nsec).IsZero() {
				for z := uint64(0); z < 3; z++ {
					tsEncodeIn(sec, nsec, z)
				}
				return
			}
			tsEncodeIn(sec, nsec, uint64(sec+nsec)%3)
		}
		tsEncodeIn = func(sec int64, nsec int64, zone uint64) {
			// the same instant in the three representations callers have: UTC (nil location), Local (what time.Unix and
			// time.Now return) and a fixed zone; the zero instant is zero in all of them
			t := time.Unix(sec, nsec)
			switch zone {
			case 0:
				t = t.UTC()
			case 1:
				t = t.In(verifZone)
			}
			enc := picobuf.NewEncoder()
			x := picoconv.Timestamp(t)
			x.PicoEncode(enc, 1)
			want := []byte{}
			if !t.IsZero() {
				ref := timestamppb.New(t)
				body := []byte{}
				if ref.Seconds != 0 {
					body = protowire.AppendVarint(protowire.AppendTag(body, 1, protowire.VarintType), uint64(ref.Seconds))
				}
				if ref.Nanos != 0 {
					body = protowire.AppendVarint(protowire.AppendTag(body, 2, protowire.VarintType), uint64(int64(ref.Nanos)))
				}
				want = protowire.AppendBytes(protowire.AppendTag(nil, 1, protowire.BytesType), body)
			}
			var back picoconv.Timestamp
			dec := picobuf.NewDecoder(enc.Buffer())
			dec.VerifInit()
			back.PicoDecode(dec, 1)
			bt := time.Time(back)
			fmt.Fprintf(out, "tsenc\t%d\t%d\tx%s\tx%s\t%d %d\n", t.Unix(), t.Nanosecond(), hex.EncodeToString(enc.Buffer()), hex.EncodeToString(want), bt.Unix(), bt.Nanosecond())
		}
		for _, s := range secs {
			for _, ns := range nanos {
				durDecode(s, ns)
			}
		}
		for _, d := range append(append([]int64{}, secs...), i64Bounds...) {
			durEncode(d)
		}
		// whole seconds across the magnitudes at which float32/float64 arithmetic starts to round (2^24, 2^31, 2^53/1e9,
		// near the int64 limit) x sub-second parts next to the second boundary, both signs
		for _, sec := range []int64{1, 59, 1 << 10, 1<<24 - 1, 1 << 24, 1<<24 + 1, 1 << 27, 1<<31 - 1, 1 << 31, 1 << 32, 9007199, 9007200, 1 << 33, maxS - 1, maxS} {
			for _, ns := range []int64{0, 1, 2, 499999999, 500000000, 500000001, 999999000, 999999050, 999999998, 999999999} {
				if sec == maxS && ns > 854775807 {
					continue
				}
				durEncode(sec*1000000000 + ns)
				durEncode(-(sec*1000000000 + ns))
			}
		}
		for _, s := range []int64{0, 1, -1, -62135596800, -62135596799, 253402300799, 1 << 31, -(1 << 31), 1700000000} {
			for _, ns := range []int64{0, 1, 999999999, 500000000} {
				tsEncode(s, ns)
			}
		}
		for i := 0; i < n; i++ {
			durDecode(int64(r.u64())>>uint(r.intn(40)), int32(r.u64()))
			durDecode(secs[r.intn(len(secs))]+int64(r.intn(5))-2, int32(r.u64()))
			durEncode(int64(r.u64()) >> uint(r.intn(50)))
			durEncode((int64(r.u64()>>uint(1+r.intn(40)))/1000000000)*1000000000 + []int64{999999999, 999999998, 1, 500000000}[r.intn(4)])
			tsEncode(int64(r.u64()%(253402300799+62135596800))-62135596800, int64(r.intn(1000000000)))
		}
		return nil
	})
}

func zeroValOf(k Kind) *Val {
	if k == KString || k == KBytes {
		return vBytes(nil)
	}
	return vInt(0)
}

// sweep32: exhaustive 2^32 sweep of every 32-bit kind through the real writers and readers
// against a Go transcription of closed_form (Props/C15.v). One row per kind.
func closedForm32(k Kind, v uint32) []byte {
	switch k {
	case KBool:
		return []byte{byte(v & 1)}
	case KInt32:
		return protowire.AppendVarint(nil, uint64(int64(int32(v))))
	case KSint32:
		x := int64(int32(v))
		var z uint64
		if x < 0 {
			z = uint64(-2*x - 1)
		} else {
			z = uint64(2 * x)
		}
		return protowire.AppendVarint(nil, z)
	case KUint32:
		return protowire.AppendVarint(nil, uint64(v))
	default: // fixed32, sfixed32, float: 4 little-endian bytes of the bit pattern
		return []byte{byte(v), byte(v >> 8), byte(v >> 16), byte(v >> 24)}
	}
}

func init() {
	register("sweep32", func(args []string, out *bufio.Writer) error {
		kinds := []Kind{KInt32, KSint32, KSfixed32, KUint32, KFixed32, KFloat, KBool}
		const workers = 16
		for _, k := range kinds {
			type res struct {
				bad   uint64
				first string
			}
			ch := make(chan res, workers)
			total := uint64(1) << 32
			if k == KBool {
				total = 2
			}
			for w := 0; w < workers; w++ {
				go func(w int) {
					var r res
					enc := picobuf.NewEncoderBuffer(make([]byte, 0, 64))
					tag := protowire.AppendTag(nil, 7, wireOfKind(k))
					for x := uint64(w); x < total; x += workers {
						v := uint32(x)
						enc = picobuf.NewEncoderBuffer(enc.Buffer())
						var back uint32
						switch k {
						case KInt32:
							y := int32(v)
							enc.AlwaysInt32(7, &y)
						case KSint32:
							y := int32(v)
							enc.AlwaysSint32(7, &y)
						case KSfixed32:
							y := int32(v)
							enc.AlwaysSfixed32(7, &y)
						case KUint32:
							enc.AlwaysUint32(7, &v)
						case KFixed32:
							enc.AlwaysFixed32(7, &v)
						case KFloat:
							y := math.Float32frombits(v)
							enc.AlwaysFloat(7, &y)
						case KBool:
							y := v != 0
							enc.AlwaysBool(7, &y)
						}
						got := enc.Buffer()
						want := closedForm32(k, v)
						ok := len(got) == len(tag)+len(want) && string(got[:len(tag)]) == string(tag) && string(got[len(tag):]) == string(want)
						if ok {
							dec := picobuf.NewDecoder(got)
							dec.VerifInit()
							switch k {
							case KInt32:
								var y int32
								dec.Int32(7, &y)
								back = uint32(y)
							case KSint32:
								var y int32
								dec.Sint32(7, &y)
								back = uint32(y)
							case KSfixed32:
								var y int32
								dec.Sfixed32(7, &y)
								back = uint32(y)
							case KUint32:
								dec.Uint32(7, &back)
							case KFixed32:
								dec.Fixed32(7, &back)
							case KFloat:
								var y float32
								dec.Float(7, &y)
								back = math.Float32bits(y)
							case KBool:
								var y bool
								dec.Bool(7, &y)
								if y {
									back = 1
								}
							}
							ok = back == v && dec.Err() == nil
						}
						if !ok {
							r.bad++
							if r.first == "" {
								r.first = fmt.Sprintf("value=%d bytes=%x want=%x back=%d", v, got, append(append([]byte{}, tag...), want...), back)
							}
						}
					}
					ch <- r
				}(w)
			}
			var bad uint64
			first := ""
			for w := 0; w < workers; w++ {
				r := <-ch
				bad += r.bad
				if first == "" {
					first = r.first
				}
			}
			fmt.Fprintf(out, "sweep32\t%s\t%d\t%d\t%s\n", k, total, bad, first)
		}
		return nil
	})
}
