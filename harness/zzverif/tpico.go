//go:build verif

package main

// T-pico: a purely syntactic translator from generated *.pico.go files to the
// program representation used by the model ("prog" lines).
//
// Every statement shape that protoc-gen-pico can emit (genFieldEncode and
// genFieldDecode in /repo/protoc-gen-pico/main.go) is written down below as a
// Go source template with metavariables.  Templates are parsed once with
// go/parser; a statement of a generated method is translated by comparing its
// syntax tree with the template trees node by node (positions, comments and
// resolved objects are ignored, everything else has to agree).  A statement
// that agrees with no template, or agrees but fails a side condition (unknown
// writer name, non-decimal field number, ...), becomes an (unknown "...") op.
//
// Metavariables (an identifier of that name inside a template):
//
//	_N  decimal integer literal; all occurrences in one template must be equal
//	_U  any integer literal (the UnrecognizedFields mask)
//	_F  field name identifier; all occurrences must be equal
//	_X  oneof field name identifier; all occurrences must be equal
//	_W  oneof wrapper type identifier; all occurrences must be equal
//	_M  method name identifier, checked by the template's builder
//	_P  the name under which "storj.io/picobuf" is imported in the file
//	_T  cast type: Ident or pkg.Ident
//	_B  base type: Ident, pkg.Ident, []T, map[K]V, *T; all occurrences equal
//	_S  (as a whole expression statement) any single statement
//
// The fixed identifiers m, c, x, z, i, ok, index, len, new, append, uint, int32
// and nil have to appear literally.

import (
	"bufio"
	"bytes"
	"fmt"
	"go/ast"
	"go/parser"
	"go/printer"
	"go/token"
	"os"
	"path"
	"path/filepath"
	"reflect"
	"strconv"
	"strings"
)

func init() { register("tpico", tpicoMain) }

const (
	tpPicobufPath  = "storj.io/picobuf"
	tpPicoconvPath = "storj.io/picobuf/picoconv"
	tpPicowirePath = "storj.io/picobuf/picowire"
)

const (
	tpEnc = 0
	tpDec = 1
)

// tpKinds lists the scalar kind names in the spelling used by the typed
// writer/reader method names; the op uses the lower-cased spelling.
var tpKinds = []string{
	"Bool", "Int32", "Int64", "Uint32", "Uint64", "Sint32", "Sint64",
	"Fixed32", "Fixed64", "Sfixed32", "Sfixed64", "Float", "Double", "String", "Bytes",
}

var tpNotMapKey = map[string]bool{"Float": true, "Double": true, "Bytes": true}

func tpIsKind(s string) bool {
	for _, k := range tpKinds {
		if k == s {
			return true
		}
	}
	return false
}

// tpSplitMethod decomposes [Always][Repeated]<Kind>.
func tpSplitMethod(name string, allowAlways bool) (kind string, always, rep int, ok bool) {
	rest := name
	if strings.HasPrefix(rest, "Always") {
		if !allowAlways {
			return "", 0, 0, false
		}
		always = 1
		rest = rest[len("Always"):]
	}
	if strings.HasPrefix(rest, "Repeated") {
		rep = 1
		rest = rest[len("Repeated"):]
	}
	if !tpIsKind(rest) {
		return "", 0, 0, false
	}
	return strings.ToLower(rest), always, rep, true
}

// tpSplitMap decomposes Map<Kk><Vk>; no kind name is a prefix of another one,
// so the decomposition is unique when it exists.
func tpSplitMap(name string) (string, bool) {
	if !strings.HasPrefix(name, "Map") {
		return "", false
	}
	rest := name[len("Map"):]
	for _, k := range tpKinds {
		if tpNotMapKey[k] || !strings.HasPrefix(rest, k) {
			continue
		}
		if v := rest[len(k):]; tpIsKind(v) {
			return "map:" + strings.ToLower(k) + ":" + strings.ToLower(v), true
		}
	}
	return "", false
}

// tpOp is one translated statement group.
type tpOp struct {
	text  string
	num   string // field number of a plain field op
	field bool   // plain field op: allowed as the inner group of a oneof
}

// tpFile carries the per-file context.
type tpFile struct {
	fset    *token.FileSet
	src     []byte
	imports map[string]string // local name -> import path
	pico    string            // local name of storj.io/picobuf
}

// tpBind is the state of one template comparison.
type tpBind struct {
	f    *tpFile
	vals map[string]string
	cast ast.Expr
	stmt ast.Stmt
}

type tpMk func(b *tpBind, nested bool) (tpOp, bool)

type tpPattern struct {
	src  string
	stmt ast.Stmt
	mk   tpMk
}

var (
	tpPosType = reflect.TypeOf(token.NoPos)
	tpObjType = reflect.TypeOf((*ast.Object)(nil))
	tpCGType  = reflect.TypeOf((*ast.CommentGroup)(nil))
)

func tpIsMeta(name string) bool {
	switch name {
	case "_N", "_U", "_F", "_X", "_W", "_M", "_P", "_T", "_B":
		return true
	}
	return false
}

func tpDecimal(s string) bool {
	if s == "" || (len(s) > 1 && s[0] == '0') {
		return false
	}
	for i := 0; i < len(s); i++ {
		if s[i] < '0' || s[i] > '9' {
			return false
		}
	}
	_, err := strconv.ParseUint(s, 10, 64)
	return err == nil
}

// tpTypeText renders the small class of type expressions the generator uses.
func tpTypeText(e ast.Expr, depth int) (string, bool) {
	if depth > 8 {
		return "", false
	}
	switch t := e.(type) {
	case *ast.Ident:
		if t == nil || t.Name == "_" || t.Name == "" {
			return "", false
		}
		return t.Name, true
	case *ast.SelectorExpr:
		if t == nil || t.Sel == nil {
			return "", false
		}
		x, ok := t.X.(*ast.Ident)
		if !ok || x == nil {
			return "", false
		}
		return x.Name + "." + t.Sel.Name, true
	case *ast.ArrayType:
		if t == nil || t.Len != nil {
			return "", false
		}
		s, ok := tpTypeText(t.Elt, depth+1)
		return "[]" + s, ok
	case *ast.MapType:
		if t == nil {
			return "", false
		}
		k, ok1 := tpTypeText(t.Key, depth+1)
		v, ok2 := tpTypeText(t.Value, depth+1)
		return "map[" + k + "]" + v, ok1 && ok2
	case *ast.StarExpr:
		if t == nil {
			return "", false
		}
		s, ok := tpTypeText(t.X, depth+1)
		return "*" + s, ok
	}
	return "", false
}

func (b *tpBind) bind(name string, node interface{}) bool {
	var text string
	switch name {
	case "_N":
		lit, ok := node.(*ast.BasicLit)
		if !ok || lit == nil || lit.Kind != token.INT || !tpDecimal(lit.Value) {
			return false
		}
		text = lit.Value
	case "_U":
		lit, ok := node.(*ast.BasicLit)
		if !ok || lit == nil || lit.Kind != token.INT {
			return false
		}
		v, err := strconv.ParseUint(lit.Value, 0, 64)
		if err != nil {
			return false
		}
		text = strconv.FormatUint(v, 10)
	case "_F", "_X", "_W", "_M":
		id, ok := node.(*ast.Ident)
		if !ok || id == nil || id.Name == "_" || id.Name == "" {
			return false
		}
		text = id.Name
	case "_P":
		id, ok := node.(*ast.Ident)
		if !ok || id == nil || b.f.pico == "" || id.Name != b.f.pico {
			return false
		}
		text = id.Name
	case "_T":
		e, ok := node.(ast.Expr)
		if !ok {
			return false
		}
		switch e.(type) {
		case *ast.Ident, *ast.SelectorExpr:
		default:
			return false
		}
		s, ok := tpTypeText(e, 0)
		if !ok {
			return false
		}
		text = s
		b.cast = e
	case "_B":
		e, ok := node.(ast.Expr)
		if !ok {
			return false
		}
		s, ok := tpTypeText(e, 0)
		if !ok {
			return false
		}
		text = s
	default:
		return false
	}
	if old, ok := b.vals[name]; ok {
		return old == text
	}
	b.vals[name] = text
	return true
}

// match compares a template tree p with a source tree n.
func (b *tpBind) match(p, n reflect.Value) bool {
	if !p.IsValid() || !n.IsValid() {
		return !p.IsValid() && !n.IsValid()
	}
	if p.Kind() == reflect.Interface {
		if n.Kind() != reflect.Interface {
			return false
		}
		if p.IsNil() || n.IsNil() {
			return p.IsNil() && n.IsNil()
		}
		return b.match(p.Elem(), n.Elem())
	}
	if p.Kind() == reflect.Ptr && n.Kind() == reflect.Ptr && !p.IsNil() && !n.IsNil() && p.CanInterface() && n.CanInterface() {
		switch pp := p.Interface().(type) {
		case *ast.Ident:
			if tpIsMeta(pp.Name) {
				return b.bind(pp.Name, n.Interface())
			}
		case *ast.ExprStmt:
			if id, ok := pp.X.(*ast.Ident); ok && id != nil && id.Name == "_S" {
				st, ok := n.Interface().(ast.Stmt)
				if !ok || st == nil || b.stmt != nil {
					return false
				}
				b.stmt = st
				return true
			}
		}
	}
	if p.Type() != n.Type() {
		return false
	}
	switch p.Kind() {
	case reflect.Ptr:
		if p.IsNil() || n.IsNil() {
			return p.IsNil() && n.IsNil()
		}
		return b.match(p.Elem(), n.Elem())
	case reflect.Struct:
		for i := 0; i < p.NumField(); i++ {
			switch p.Type().Field(i).Type {
			case tpPosType:
				// positions carry syntax in a few places (f(x...), grouped
				// declarations, parenthesised results): validity has to agree.
				if (p.Field(i).Int() != 0) != (n.Field(i).Int() != 0) {
					return false
				}
				continue
			case tpObjType, tpCGType:
				continue
			}
			if !b.match(p.Field(i), n.Field(i)) {
				return false
			}
		}
		return true
	case reflect.Slice:
		if p.Len() != n.Len() {
			return false
		}
		for i := 0; i < p.Len(); i++ {
			if !b.match(p.Index(i), n.Index(i)) {
				return false
			}
		}
		return true
	case reflect.String:
		return p.String() == n.String()
	case reflect.Bool:
		return p.Bool() == n.Bool()
	case reflect.Int, reflect.Int8, reflect.Int16, reflect.Int32, reflect.Int64:
		return p.Int() == n.Int()
	case reflect.Uint, reflect.Uint8, reflect.Uint16, reflect.Uint32, reflect.Uint64:
		return p.Uint() == n.Uint()
	}
	return false
}

// ---------------------------------------------------------------------------
// builders

func tpFixed(name string) tpMk {
	return func(b *tpBind, nested bool) (tpOp, bool) {
		n := b.vals["_N"]
		return tpOp{text: "(" + name + " " + n + ")", num: n, field: true}, true
	}
}

func tpEScalar(ptr int) tpMk {
	return func(b *tpBind, nested bool) (tpOp, bool) {
		kind, always, rep, ok := tpSplitMethod(b.vals["_M"], true)
		if !ok {
			return tpOp{}, false
		}
		n := b.vals["_N"]
		return tpOp{text: fmt.Sprintf("(escalar %s %d %d %d %s)", kind, always, rep, ptr, n), num: n, field: true}, true
	}
}

func tpDScalar(ptr int) tpMk {
	return func(b *tpBind, nested bool) (tpOp, bool) {
		kind, _, rep, ok := tpSplitMethod(b.vals["_M"], false)
		if !ok {
			return tpOp{}, false
		}
		n := b.vals["_N"]
		return tpOp{text: fmt.Sprintf("(dscalar %s %d %d %s)", kind, rep, ptr, n), num: n, field: true}, true
	}
}

func tpEEnum(b *tpBind, nested bool) (tpOp, bool) {
	n := b.vals["_N"]
	switch b.vals["_M"] {
	case "Int32":
		return tpOp{text: "(eenum 0 " + n + ")", num: n, field: true}, true
	case "AlwaysInt32":
		return tpOp{text: "(eenum 1 " + n + ")", num: n, field: true}, true
	}
	return tpOp{}, false
}

// castClass classifies the cast type bound to _T: "ts", "dur", "map:k:v" or
// "" for a type the model treats as opaque.
func (b *tpBind) castClass() string {
	sel, ok := b.cast.(*ast.SelectorExpr)
	if !ok || sel == nil || sel.Sel == nil {
		return ""
	}
	x, ok := sel.X.(*ast.Ident)
	if !ok || x == nil {
		return ""
	}
	switch b.f.imports[x.Name] {
	case tpPicoconvPath:
		switch sel.Sel.Name {
		case "Timestamp":
			return "ts"
		case "Duration":
			return "dur"
		}
	case tpPicowirePath:
		if c, ok := tpSplitMap(sel.Sel.Name); ok {
			return c
		}
	}
	return ""
}

func tpCast(side string, ptr, rep int) tpMk {
	return func(b *tpBind, nested bool) (tpOp, bool) {
		n := b.vals["_N"]
		c := b.castClass()
		if c == "" {
			return tpOp{text: "(" + side + "opaque " + n + ")", num: n, field: true}, true
		}
		return tpOp{text: fmt.Sprintf("(%scast %s %d %d %s)", side, c, ptr, rep, n), num: n, field: true}, true
	}
}

func tpEOneof(b *tpBind, nested bool) (tpOp, bool) {
	if nested || b.stmt == nil {
		return tpOp{}, false
	}
	in := b.f.translate(tpEnc, b.stmt, true)
	if !in.field {
		return tpOp{}, false
	}
	return tpOp{text: "(eoneof " + in.text + ")"}, true
}

func tpDOneof(b *tpBind, nested bool) (tpOp, bool) {
	if nested || b.stmt == nil {
		return tpOp{}, false
	}
	n := b.vals["_N"]
	in := b.f.translate(tpDec, b.stmt, true)
	if !in.field || in.num != n {
		return tpOp{}, false
	}
	return tpOp{text: "(doneof " + n + " " + in.text + ")"}, true
}

func tpEUnrec(b *tpBind, nested bool) (tpOp, bool) {
	if nested {
		return tpOp{}, false
	}
	return tpOp{text: "(eunrec)"}, true
}

func tpDUnrec(b *tpBind, nested bool) (tpOp, bool) {
	if nested {
		return tpOp{}, false
	}
	return tpOp{text: "(dunrec " + b.vals["_U"] + ")"}, true
}

func tpNone(b *tpBind, nested bool) (tpOp, bool) { return tpOp{}, true }

// ---------------------------------------------------------------------------
// templates (one per case of genFieldEncode / genFieldDecode)

var tpEncPatterns, tpDecPatterns []*tpPattern

func tpEncTable() []*tpPattern {
	return []*tpPattern{
		// kindInternal
		{src: `c._M(_N, &m._F)`, mk: tpEScalar(0)},
		{src: `if m._F != nil { c._M(_N, m._F) }`, mk: tpEScalar(1)},
		// kindEnum
		{src: `c._M(_N, (*int32)(&m._F))`, mk: tpEEnum},
		{src: `c.RepeatedEnum(_N, len(m._F), func(index uint) int32 { if index < uint(len(m._F)) { return (int32)(m._F[index]) }; return 0 })`, mk: tpFixed("erepenum")},
		// kindMessage
		{src: `c.Message(_N, m._F.Encode)`, mk: tpFixed("emsgptr")},
		{src: `c.PresentMessage(_N, m._F.Encode)`, mk: tpFixed("emsgpresent")},
		{src: `c.AlwaysMessage(_N, m._F.Encode)`, mk: tpFixed("emsgalwaysval")}, // by-value member of a oneof
		{src: `for _, x := range m._F { c.AlwaysMessage(_N, x.Encode) }`, mk: tpFixed("emsgrepptr")},
		{src: `for i := range m._F { x := &m._F[i]; c.AlwaysMessage(_N, x.Encode) }`, mk: tpFixed("emsgrepval")},
		// kindCast
		{src: `(*_T)(m._F).PicoEncode(c, _N)`, mk: tpCast("e", 1, 0)},
		{src: `(*_T)(&m._F).PicoEncode(c, _N)`, mk: tpCast("e", 0, 0)},
		{src: `for _, x := range m._F { (*_T)(x).PicoEncode(c, _N) }`, mk: tpCast("e", 1, 1)},
		{src: `for i := range m._F { x := &m._F[i]; (*_T)(x).PicoEncode(c, _N) }`, mk: tpCast("e", 0, 1)},
		// kindCustom
		{src: `m._F.PicoEncode(c, _N)`, mk: tpFixed("eopaque")},
		{src: `for _, x := range m._F { x.PicoEncode(c, _N) }`, mk: tpFixed("eopaque")},
		{src: `for i := range m._F { x := &m._F[i]; x.PicoEncode(c, _N) }`, mk: tpFixed("eopaque")},
		// oneof wrapper
		{src: `if m, ok := m._X.(*_W); ok { _S }`, mk: tpEOneof},
		// unrecognized fields
		{src: `c.UnrecognizedFields(m.XXX_unrecognized)`, mk: tpEUnrec},
	}
}

func tpDecTable() []*tpPattern {
	return []*tpPattern{
		// kindInternal
		{src: `c._M(_N, &m._F)`, mk: tpDScalar(0)},
		{src: `if c.PendingField() == _N { m._F = new(_B); c._M(_N, m._F) }`, mk: tpDScalar(1)},
		// kindEnum
		{src: `c.Int32(_N, (*int32)(&m._F))`, mk: tpFixed("denum")},
		{src: `c.RepeatedEnum(_N, func(x int32) { m._F = append(m._F, (_B)(x)) })`, mk: tpFixed("drepenum")},
		// kindMessage
		{src: `c.Message(_N, func(c *_P.Decoder) { if m._F == nil { m._F = new(_B) }; m._F.Decode(c) })`, mk: tpFixed("dmsgptr")},
		{src: `c.PresentMessage(_N, m._F.Decode)`, mk: tpFixed("dmsgpresent")},
		{src: `c.RepeatedMessage(_N, func(c *_P.Decoder) { x := new(_B); c.Loop(x.Decode); m._F = append(m._F, x) })`, mk: tpFixed("dmsgrepptr")},
		{src: `c.RepeatedMessage(_N, func(c *_P.Decoder) { m._F = append(m._F, _B{}); c.Loop(m._F[len(m._F)-1].Decode) })`, mk: tpFixed("dmsgrepval")},
		// kindCast
		{src: `if c.PendingField() == _N { if m._F == nil { m._F = new(_B) }; (*_T)(m._F).PicoDecode(c, _N) }`, mk: tpCast("d", 1, 0)},
		{src: `for c.PendingField() == _N { x := new(_B); (*_T)(x).PicoDecode(c, _N); m._F = append(m._F, x) }`, mk: tpCast("d", 1, 1)},
		{src: `(*_T)(&m._F).PicoDecode(c, _N)`, mk: tpCast("d", 0, 0)},
		{src: `for c.PendingField() == _N { m._F = append(m._F, *new(_B)); x := &m._F[len(m._F)-1]; (*_T)(x).PicoDecode(c, _N) }`, mk: tpCast("d", 0, 1)},
		// kindCustom
		{src: `if c.PendingField() == _N { if m._F == nil { m._F = new(_B) }; m._F.PicoDecode(c, _N) }`, mk: tpFixed("dopaque")},
		{src: `for c.PendingField() == _N { x := new(_B); x.PicoDecode(c, _N); m._F = append(m._F, x) }`, mk: tpFixed("dopaque")},
		{src: `m._F.PicoDecode(c, _N)`, mk: tpFixed("dopaque")},
		{src: `for c.PendingField() == _N { m._F = append(m._F, *new(_B)); m._F[len(m._F)-1].PicoDecode(c, _N) }`, mk: tpFixed("dopaque")},
		// oneof wrapper
		{src: `if c.PendingField() == _N { var x *_W; if z, ok := m._X.(*_W); ok { x = z } else { x = new(_W); m._X = x }; m := x; _S }`, mk: tpDOneof},
		// unrecognized fields
		{src: `c.UnrecognizedFields(_U, &m.XXX_unrecognized)`, mk: tpDUnrec},
	}
}

// frame statements of the two methods
var (
	tpEncHead = &tpPattern{src: `if m == nil { return false }`, mk: tpNone}
	tpEncTail = &tpPattern{src: `return true`, mk: tpNone}
	tpDecHead = &tpPattern{src: `if m == nil { return }`, mk: tpNone}
)

var tpCompiled bool

func tpCompile() error {
	if tpCompiled {
		return nil
	}
	tpEncPatterns, tpDecPatterns = tpEncTable(), tpDecTable()
	all := []*tpPattern{tpEncHead, tpEncTail, tpDecHead}
	all = append(all, tpEncPatterns...)
	all = append(all, tpDecPatterns...)
	for _, p := range all {
		fset := token.NewFileSet()
		f, err := parser.ParseFile(fset, "template.go", "package p\nfunc _() {\n"+p.src+"\n}\n", parser.SkipObjectResolution)
		if err != nil {
			return fmt.Errorf("tpico: template %q: %v", p.src, err)
		}
		if len(f.Decls) != 1 {
			return fmt.Errorf("tpico: template %q: unexpected declarations", p.src)
		}
		fd, ok := f.Decls[0].(*ast.FuncDecl)
		if !ok || fd.Body == nil || len(fd.Body.List) != 1 {
			return fmt.Errorf("tpico: template %q: not a single statement", p.src)
		}
		p.stmt = fd.Body.List[0]
	}
	tpCompiled = true
	return nil
}

// ---------------------------------------------------------------------------
// translation

func tpCompact(s string) string {
	s = strings.Join(strings.Fields(s), " ")
	return strings.ReplaceAll(s, "\"", "'")
}

func tpUnknownText(s string) tpOp {
	return tpOp{text: "(unknown \"" + tpCompact(s) + "\")"}
}

// srcText returns the source text of a node, never panicking.
func (f *tpFile) srcText(n ast.Node) (text string) {
	defer func() {
		if r := recover(); r != nil {
			text = fmt.Sprintf("<%T>", n)
		}
	}()
	if n == nil || reflect.ValueOf(n).IsNil() {
		return "<nil>"
	}
	p, e := n.Pos(), n.End()
	if p.IsValid() && e.IsValid() {
		a, z := f.fset.Position(p).Offset, f.fset.Position(e).Offset
		if 0 <= a && a <= z && z <= len(f.src) {
			return string(f.src[a:z])
		}
	}
	var buf bytes.Buffer
	if err := printer.Fprint(&buf, f.fset, n); err == nil {
		return buf.String()
	}
	return fmt.Sprintf("<%T>", n)
}

func (f *tpFile) unknown(n ast.Node) tpOp { return tpUnknownText(f.srcText(n)) }

func (f *tpFile) matches(p *tpPattern, s ast.Stmt) (ok bool) {
	defer func() {
		if r := recover(); r != nil {
			ok = false
		}
	}()
	b := &tpBind{f: f, vals: map[string]string{}}
	return b.match(reflect.ValueOf(p.stmt), reflect.ValueOf(s))
}

// translate turns one statement (= one statement group of the generator) into
// an op.  nested is set for the inner group of a oneof wrapper.
func (f *tpFile) translate(side int, s ast.Stmt, nested bool) (op tpOp) {
	defer func() {
		if r := recover(); r != nil {
			op = f.unknown(s)
		}
	}()
	pats := tpEncPatterns
	if side == tpDec {
		pats = tpDecPatterns
	}
	for _, p := range pats {
		b := &tpBind{f: f, vals: map[string]string{}}
		if !b.match(reflect.ValueOf(p.stmt), reflect.ValueOf(s)) {
			continue
		}
		if op, ok := p.mk(b, nested); ok {
			return op
		}
	}
	return f.unknown(s)
}

func tpJoin(head string, ops []tpOp) string {
	var sb strings.Builder
	sb.WriteString("(" + head)
	for _, o := range ops {
		sb.WriteString(" ")
		sb.WriteString(o.text)
	}
	sb.WriteString(")")
	return sb.String()
}

func tpFieldName(fl *ast.FieldList) string {
	if fl == nil || len(fl.List) != 1 || fl.List[0] == nil || len(fl.List[0].Names) != 1 || fl.List[0].Names[0] == nil {
		return ""
	}
	return fl.List[0].Names[0].Name
}

// method translates the body of an Encode or Decode method.
func (f *tpFile) method(side int, fds []*ast.FuncDecl) string {
	head := "enc"
	name := "Encode"
	if side == tpDec {
		head, name = "dec", "Decode"
	}
	if len(fds) != 1 {
		return tpJoin(head, []tpOp{tpUnknownText("duplicate method " + name)})
	}
	fd := fds[0]
	if fd.Body == nil {
		return tpJoin(head, []tpOp{tpUnknownText("missing body of " + name)})
	}
	if tpFieldName(fd.Recv) != "m" || tpFieldName(fd.Type.Params) != "c" {
		// the templates spell the receiver m and the coder c
		sig := &ast.FuncDecl{Recv: fd.Recv, Name: fd.Name, Type: fd.Type}
		return tpJoin(head, []tpOp{f.unknown(sig)})
	}
	var ops []tpOp
	stmts := fd.Body.List
	if side == tpEnc {
		if len(stmts) > 0 && f.matches(tpEncHead, stmts[0]) {
			stmts = stmts[1:]
		} else {
			ops = append(ops, tpUnknownText("missing leading statement: "+tpEncHead.src))
		}
		missingTail := false
		if len(stmts) > 0 && f.matches(tpEncTail, stmts[len(stmts)-1]) {
			stmts = stmts[:len(stmts)-1]
		} else {
			missingTail = true
		}
		for _, s := range stmts {
			ops = append(ops, f.translate(side, s, false))
		}
		if missingTail {
			ops = append(ops, tpUnknownText("missing final statement: "+tpEncTail.src))
		}
		return tpJoin(head, ops)
	}
	if len(stmts) > 0 && f.matches(tpDecHead, stmts[0]) {
		stmts = stmts[1:]
	} else {
		ops = append(ops, tpUnknownText("missing leading statement: "+tpDecHead.src))
	}
	for _, s := range stmts {
		ops = append(ops, f.translate(side, s, false))
	}
	return tpJoin(head, ops)
}

// tpMethodOf recognises `func (m *T) Encode(c *P.Encoder) bool` and
// `func (m *T) Decode(c *P.Decoder)`; it returns T and the side.
func (f *tpFile) methodOf(fd *ast.FuncDecl) (typ string, side int, ok bool) {
	if fd == nil || fd.Name == nil || fd.Type == nil || fd.Recv == nil || f.pico == "" {
		return "", 0, false
	}
	if fd.Type.TypeParams != nil && len(fd.Type.TypeParams.List) > 0 {
		return "", 0, false
	}
	if len(fd.Recv.List) != 1 || fd.Recv.List[0] == nil || len(fd.Recv.List[0].Names) > 1 {
		return "", 0, false
	}
	star, isStar := fd.Recv.List[0].Type.(*ast.StarExpr)
	if !isStar || star == nil {
		return "", 0, false
	}
	tid, isIdent := star.X.(*ast.Ident)
	if !isIdent || tid == nil {
		return "", 0, false
	}
	var coder string
	switch fd.Name.Name {
	case "Encode":
		side, coder = tpEnc, "Encoder"
	case "Decode":
		side, coder = tpDec, "Decoder"
	default:
		return "", 0, false
	}
	ps := fd.Type.Params
	if ps == nil || len(ps.List) != 1 || ps.List[0] == nil || len(ps.List[0].Names) > 1 {
		return "", 0, false
	}
	if s, ok := tpTypeText(ps.List[0].Type, 0); !ok || s != "*"+f.pico+"."+coder {
		return "", 0, false
	}
	rs := fd.Type.Results
	if side == tpEnc {
		if rs == nil || len(rs.List) != 1 || rs.List[0] == nil || len(rs.List[0].Names) != 0 {
			return "", 0, false
		}
		if s, ok := tpTypeText(rs.List[0].Type, 0); !ok || s != "bool" {
			return "", 0, false
		}
	} else if rs != nil && len(rs.List) != 0 {
		return "", 0, false
	}
	return tid.Name, side, true
}

func tpProcessFile(file string, out *bufio.Writer) (err error) {
	defer func() {
		if r := recover(); r != nil {
			err = fmt.Errorf("internal error: %v", r)
		}
	}()
	src, err := os.ReadFile(file)
	if err != nil {
		return err
	}
	fset := token.NewFileSet()
	af, err := parser.ParseFile(fset, file, src, parser.SkipObjectResolution)
	if err != nil {
		return err
	}
	f := &tpFile{fset: fset, src: src, imports: map[string]string{}}
	for _, is := range af.Imports {
		if is == nil || is.Path == nil {
			continue
		}
		p, err := strconv.Unquote(is.Path.Value)
		if err != nil {
			continue
		}
		name := path.Base(p)
		if is.Name != nil {
			name = is.Name.Name
		}
		if name == "_" || name == "." {
			continue
		}
		f.imports[name] = p
	}
	for name, p := range f.imports {
		if p == tpPicobufPath && (f.pico == "" || name < f.pico) {
			f.pico = name
		}
	}

	var structs []string
	seen := map[string]bool{}
	methods := map[string]*[2][]*ast.FuncDecl{}
	for _, d := range af.Decls {
		switch d := d.(type) {
		case *ast.GenDecl:
			if d == nil || d.Tok != token.TYPE {
				continue
			}
			for _, sp := range d.Specs {
				ts, ok := sp.(*ast.TypeSpec)
				if !ok || ts == nil || ts.Name == nil || ts.Assign.IsValid() {
					continue
				}
				if ts.TypeParams != nil && len(ts.TypeParams.List) > 0 {
					continue
				}
				if _, ok := ts.Type.(*ast.StructType); !ok {
					continue
				}
				if !seen[ts.Name.Name] {
					seen[ts.Name.Name] = true
					structs = append(structs, ts.Name.Name)
				}
			}
		case *ast.FuncDecl:
			typ, side, ok := f.methodOf(d)
			if !ok {
				continue
			}
			if methods[typ] == nil {
				methods[typ] = &[2][]*ast.FuncDecl{}
			}
			methods[typ][side] = append(methods[typ][side], d)
		}
	}
	base := filepath.Base(file)
	for _, name := range structs {
		ms := methods[name]
		if ms == nil || len(ms[tpEnc]) == 0 || len(ms[tpDec]) == 0 {
			continue
		}
		fmt.Fprintf(out, "prog\t%s\t%s\t%s\t%s\n", tpCompact(base), name, f.method(tpEnc, ms[tpEnc]), f.method(tpDec, ms[tpDec]))
	}
	return nil
}

func tpicoMain(args []string, out *bufio.Writer) error {
	if len(args) == 0 {
		return fmt.Errorf("usage: tpico <file.pico.go>...")
	}
	if err := tpCompile(); err != nil {
		return err
	}
	for _, file := range args {
		// buffer the lines of one file so that a late failure does not leave
		// a partial set of prog lines behind
		var buf bytes.Buffer
		w := bufio.NewWriter(&buf)
		err := tpProcessFile(file, w)
		w.Flush()
		if err != nil {
			fmt.Fprintf(out, "progerror\t%s\t%s\n", tpCompact(file), tpCompact(err.Error()))
			continue
		}
		out.Write(buf.Bytes())
	}
	return nil
}
