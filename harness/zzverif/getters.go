package main

import (
	"fmt"
	"reflect"
)

// getterCheck: when the type was generated with field_access=true, every Get<Field>() returns the field (or, for a oneof
// member, the selected wrapper's field and otherwise the type's zero value), Get<Oneof>() returns the interface field, and
// every getter of a nil receiver returns the zero value. Returns "na" when the type has no getters.
func (u *Universe) getterCheck(ti *TypeInfo, m interface{}) (string, string) {
	pv := reflect.ValueOf(m)
	pt := pv.Type()
	msg := &ti.S.Msgs[ti.MI]
	seen := 0
	nilRecv := reflect.Zero(pt)
	same := func(f *Field, a, b reflect.Value) bool {
		if a.Type() != b.Type() {
			return false
		}
		if a.Kind() == reflect.Interface || a.Kind() == reflect.Ptr {
			if a.IsNil() || b.IsNil() {
				return a.IsNil() == b.IsNil()
			}
			if a.Kind() == reflect.Ptr {
				return a.Pointer() == b.Pointer()
			}
			return a.Elem().Type() == b.Elem().Type() && a.Elem().Pointer() == b.Elem().Pointer()
		}
		x, err1 := u.fromGo(ti.S, f, a)
		y, err2 := u.fromGo(ti.S, f, b)
		if err1 != nil || err2 != nil {
			return reflect.DeepEqual(a.Interface(), b.Interface())
		}
		return x.String() == y.String()
	}
	isZero := func(v reflect.Value) bool { return v.IsZero() }
	call := func(recv reflect.Value, name string) (reflect.Value, bool, string) {
		mt, ok := pt.MethodByName(name)
		if !ok {
			return reflect.Value{}, false, ""
		}
		if mt.Type.NumIn() != 1 || mt.Type.NumOut() != 1 {
			return reflect.Value{}, true, name + ": unexpected signature"
		}
		var res reflect.Value
		pan := ""
		func() {
			defer func() {
				if r := recover(); r != nil {
					pan = fmt.Sprintf("%s panics: %v", name, r)
				}
			}()
			res = mt.Func.Call([]reflect.Value{recv})[0]
		}()
		return res, true, pan
	}
	sv := pv.Elem()
	for i := range msg.Fields {
		f := &msg.Fields[i]
		if ti.Shapes[i] == nil {
			continue
		}
		if f.Oneof >= 0 {
			iv := sv.Field(ti.oneofFI[f.Oneof])
			ifName := sv.Type().Field(ti.oneofFI[f.Oneof]).Name
			if r, ok, bad := call(pv, "Get"+ifName); ok {
				seen++
				if bad != "" {
					return "bad", bad
				}
				if !same(f, r, iv) {
					return "bad", "Get" + ifName + " does not return the oneof field"
				}
				if rn, _, badn := call(nilRecv, "Get"+ifName); badn != "" || !isZero(rn) {
					return "bad", "Get" + ifName + " on a nil receiver: " + badn
				}
			}
			wt := ti.wrap[f.Num]
			name := wt.Field(0).Name
			r, ok, bad := call(pv, "Get"+name)
			if !ok {
				continue
			}
			seen++
			if bad != "" {
				return "bad", bad
			}
			sel := !iv.IsNil() && iv.Elem().Type() == reflect.PtrTo(wt) && !iv.Elem().IsNil()
			if sel {
				if !same(f, r, iv.Elem().Elem().Field(0)) {
					return "bad", "Get" + name + " does not return the selected member's value"
				}
			} else if !isZero(r) {
				return "bad", "Get" + name + " of an unselected member is not the zero value"
			}
			if rn, _, badn := call(nilRecv, "Get"+name); badn != "" || !isZero(rn) {
				return "bad", "Get" + name + " on a nil receiver: " + badn
			}
			continue
		}
		fi, ok := ti.byJSON[f.Name]
		if !ok {
			continue
		}
		name := sv.Type().Field(fi).Name
		r, ok, bad := call(pv, "Get"+name)
		if !ok {
			continue
		}
		seen++
		if bad != "" {
			return "bad", bad
		}
		if !same(f, r, sv.Field(fi)) {
			return "bad", "Get" + name + " does not return the field"
		}
		if rn, _, badn := call(nilRecv, "Get"+name); badn != "" || !isZero(rn) {
			return "bad", "Get" + name + " on a nil receiver: " + badn
		}
	}
	if seen == 0 {
		return "na", ""
	}
	return "ok", ""
}
