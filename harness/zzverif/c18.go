//go:build verif

package main

import (
	"bufio"
	"bytes"
	"fmt"
	"os"
	"os/exec"
	"path/filepath"
	"strings"

	"google.golang.org/protobuf/types/descriptorpb"

	"storj.io/picobuf/internal/zzverif/protoparse"
)

// C18: the checked-in generated files are exactly what the generators in the
// current tree produce.

func init() {
	register("c18", func(args []string, out *bufio.Writer) error { return c18Main(args, out, false) })
	register("c18-regen", func(args []string, out *bufio.Writer) error { return c18Main(args, out, true) })
}

func c18Repo() string {
	if r := os.Getenv("VERIF_REPO"); r != "" {
		return r
	}
	return "/repo"
}

// c18Plugin describes one protoc-gen-pico artefact.
type c18Plugin struct {
	artefact string // repo-relative path of the checked-in file
	proto    string // repo-relative path of the source .proto
	name     string // file name protoc records
	genFile  string // repo-relative file holding the //go:generate line
	fallback string // parameter string used when the go:generate line cannot be parsed
}

var c18Plugins = []c18Plugin{
	{"internal/picotest/test.pico.go", "internal/picotest/test.proto", "test.proto",
		"internal/picotest/doc.go", "paths=source_relative,field_access=true"},
	{"internal/protocompat/pico/types.pico.go", "internal/protocompat/types.proto", "types.proto",
		"internal/protocompat/doc.go", "paths=source_relative,Mtypes.proto=storj.io/picobuf/internal/protocompat/pico"},
	{"internal/sizebench/pico/one/msg-one.pico.go", "internal/sizebench/msg-one.proto", "msg-one.proto",
		"internal/sizebench/main.go", "paths=source_relative,Mmsg-one.proto=storj.io/picobuf/internal/sizebench/pico/one"},
	{"internal/sizebench/pico/two/msg-two.pico.go", "internal/sizebench/msg-two.proto", "msg-two.proto",
		"internal/sizebench/main.go", "paths=source_relative,Mmsg-two.proto=storj.io/picobuf/internal/sizebench/pico/two"},
	{"internal/sizebench/pico/sml/msg-sml.pico.go", "internal/sizebench/msg-sml.proto", "msg-sml.proto",
		"internal/sizebench/main.go", "paths=source_relative,Mmsg-sml.proto=storj.io/picobuf/internal/sizebench/pico/sml"},
}

var c18Coder = []string{"encoder_types.go", "decoder_types.go", "picowire/map.go"}

func oneLine(s string) string {
	s = strings.TrimSpace(s)
	s = strings.ReplaceAll(s, "\r", "")
	s = strings.ReplaceAll(s, "\n", " | ")
	s = strings.ReplaceAll(s, "\t", " ")
	if len(s) > 1500 {
		s = s[:1500] + "..."
	}
	return s
}

func c18GoBuild(repo, outPath, pkg string) error {
	cmd := exec.Command("go", "build", "-o", outPath, pkg)
	cmd.Dir = repo
	cmd.Env = append(os.Environ(), "GOPROXY=off", "GOSUMDB=off", "GOTOOLCHAIN=local")
	var buf bytes.Buffer
	cmd.Stdout = &buf
	cmd.Stderr = &buf
	if err := cmd.Run(); err != nil {
		return fmt.Errorf("go build %s: %v: %s", pkg, err, buf.String())
	}
	return nil
}

// picoGenerateLine describes a parsed `//go:generate protoc ... --pico_out=...` line.
type picoGenerateLine struct {
	params string
	outDir string
	protos []string
}

// parsePicoGenerate extracts the protoc-gen-pico invocations from the
// //go:generate lines of a Go file.  protoc hands the plugin the parameter part
// of --pico_out=<params>:<dir> followed by every --pico_opt value, comma
// separated.
func parsePicoGenerate(src string) []picoGenerateLine {
	var out []picoGenerateLine
	for _, line := range strings.Split(src, "\n") {
		line = strings.TrimRight(line, "\r")
		if !strings.HasPrefix(line, "//go:generate ") {
			continue
		}
		words := strings.Fields(strings.TrimPrefix(line, "//go:generate "))
		if len(words) == 0 || filepath.Base(words[0]) != "protoc" {
			continue
		}
		var g picoGenerateLine
		var opts []string
		have := false
		for i := 1; i < len(words); i++ {
			w := words[i]
			switch {
			case strings.HasPrefix(w, "--pico_out="):
				v := strings.TrimPrefix(w, "--pico_out=")
				have = true
				if k := strings.LastIndexByte(v, ':'); k >= 0 {
					g.params, g.outDir = v[:k], v[k+1:]
				} else {
					g.outDir = v
				}
			case strings.HasPrefix(w, "--pico_opt="):
				opts = append(opts, strings.TrimPrefix(w, "--pico_opt="))
			case w == "-I" || w == "--proto_path":
				i++ // separate argument form
			case strings.HasPrefix(w, "-"):
				// other flag (-Idir, --go_out=..., ...)
			default:
				g.protos = append(g.protos, w)
			}
		}
		if !have {
			continue
		}
		all := []string{}
		if g.params != "" {
			all = append(all, g.params)
		}
		all = append(all, opts...)
		g.params = strings.Join(all, ",")
		out = append(out, g)
	}
	return out
}

// c18Params derives the plugin parameter for an artefact from its go:generate
// line.  note is non-empty when the fallback table had to be used.
func c18Params(repo string, a c18Plugin) (param, note string) {
	src, err := os.ReadFile(filepath.Join(repo, a.genFile))
	if err != nil {
		return a.fallback, fmt.Sprintf("parameters from built-in table (cannot read %s: %v)", a.genFile, err)
	}
	protoBase := filepath.Base(a.proto)
	genDir := filepath.Dir(a.genFile)
	var cands []picoGenerateLine
	for _, g := range parsePicoGenerate(string(src)) {
		for _, pr := range g.protos {
			if pr == protoBase || filepath.Clean(filepath.Join(genDir, pr)) == filepath.Clean(a.proto) {
				cands = append(cands, g)
				break
			}
		}
	}
	// prefer the line whose output directory holds the artefact
	for _, g := range cands {
		if filepath.Clean(filepath.Join(genDir, g.outDir)) == filepath.Dir(a.artefact) {
			return g.params, ""
		}
	}
	if len(cands) == 1 {
		return cands[0].params, ""
	}
	return a.fallback, fmt.Sprintf("parameters from built-in table (no usable //go:generate protoc --pico_out line for %s in %s)", protoBase, a.genFile)
}

// c18Diff renders a unified-style diff of the first differing region.
func c18Diff(oldName, newName string, a, b []byte) string {
	al := strings.SplitAfter(string(a), "\n")
	bl := strings.SplitAfter(string(b), "\n")
	if n := len(al); n > 0 && al[n-1] == "" {
		al = al[:n-1]
	}
	if n := len(bl); n > 0 && bl[n-1] == "" {
		bl = bl[:n-1]
	}
	pre := 0
	for pre < len(al) && pre < len(bl) && al[pre] == bl[pre] {
		pre++
	}
	suf := 0
	for suf < len(al)-pre && suf < len(bl)-pre && al[len(al)-1-suf] == bl[len(bl)-1-suf] {
		suf++
	}
	const ctx, maxBody = 3, 200
	start := pre - ctx
	if start < 0 {
		start = 0
	}
	aEnd, bEnd := len(al)-suf, len(bl)-suf
	truncated := false
	if aEnd-pre > maxBody {
		aEnd, truncated = pre+maxBody, true
	}
	if bEnd-pre > maxBody {
		bEnd, truncated = pre+maxBody, true
	}
	tail := 0
	if !truncated {
		tail = ctx
		if tail > suf {
			tail = suf
		}
	}
	var sb strings.Builder
	fmt.Fprintf(&sb, "--- %s\n+++ %s\n", oldName, newName)
	fmt.Fprintf(&sb, "@@ -%d,%d +%d,%d @@\n", start+1, aEnd-start+tail, start+1, bEnd-start+tail)
	put := func(prefix, l string) {
		sb.WriteString(prefix)
		sb.WriteString(l)
		if !strings.HasSuffix(l, "\n") {
			sb.WriteString("\n\\ No newline at end of file\n")
		}
	}
	for i := start; i < pre; i++ {
		put(" ", al[i])
	}
	for i := pre; i < aEnd; i++ {
		put("-", al[i])
	}
	for i := pre; i < bEnd; i++ {
		put("+", bl[i])
	}
	for i := 0; i < tail; i++ {
		put(" ", al[len(al)-suf+i])
	}
	if truncated {
		fmt.Fprintf(&sb, "... (diff truncated; old has %d lines, new has %d lines; the region between the common prefix of %d lines and the common suffix of %d lines differs)\n", len(al), len(bl), pre, suf)
	}
	return sb.String()
}

type c18Result struct {
	artefact string
	content  []byte
	err      error
	note     string
}

func c18Main(args []string, out *bufio.Writer, regen bool) error {
	if len(args) != 1 {
		return fmt.Errorf("usage: zzverif c18|c18-regen <scratchdir>")
	}
	scratch, err := filepath.Abs(args[0])
	if err != nil {
		return err
	}
	repo := c18Repo()
	if err := os.MkdirAll(scratch, 0o755); err != nil {
		return err
	}
	results := c18Generate(repo, scratch)

	tag := "c18"
	if regen {
		tag = "c18-regen"
	}
	for _, r := range results {
		if r.note != "" {
			// the detail column of DIFF/written lines is a bare path, so the
			// fallback notice also goes to stderr
			fmt.Fprintf(os.Stderr, "%s: %s: %s\n", tag, r.artefact, oneLine(r.note))
		}
		if r.err != nil {
			fmt.Fprintf(out, "%s\t%s\tERROR\t%s\n", tag, r.artefact, oneLine(r.err.Error()))
			continue
		}
		if regen {
			dst := filepath.Join(scratch, "regen", filepath.FromSlash(r.artefact))
			if err := os.MkdirAll(filepath.Dir(dst), 0o755); err == nil {
				err = os.WriteFile(dst, r.content, 0o644)
			}
			if err != nil {
				fmt.Fprintf(out, "%s\t%s\tERROR\t%s\n", tag, r.artefact, oneLine(err.Error()))
				continue
			}
			fmt.Fprintf(out, "%s\t%s\twritten\t%s\n", tag, r.artefact, dst)
			continue
		}
		want, err := os.ReadFile(filepath.Join(repo, filepath.FromSlash(r.artefact)))
		if err != nil {
			fmt.Fprintf(out, "%s\t%s\tERROR\t%s\n", tag, r.artefact, oneLine("checked-in file: "+err.Error()))
			continue
		}
		if bytes.Equal(want, r.content) {
			fmt.Fprintf(out, "%s\t%s\tsame\t%s\n", tag, r.artefact, strings.TrimPrefix(noteSuffix(r.note), " "))
			continue
		}
		name := strings.ReplaceAll(r.artefact, "/", "_")
		diffDir := filepath.Join(scratch, "diff")
		diffPath := filepath.Join(diffDir, name+".diff")
		err = os.MkdirAll(diffDir, 0o755)
		if err == nil {
			err = os.WriteFile(filepath.Join(diffDir, name+".new"), r.content, 0o644)
		}
		if err == nil {
			d := c18Diff("a/"+r.artefact+" (checked in)", "b/"+r.artefact+" (regenerated)", want, r.content)
			err = os.WriteFile(diffPath, []byte(d), 0o644)
		}
		if err != nil {
			fmt.Fprintf(out, "%s\t%s\tERROR\t%s\n", tag, r.artefact, oneLine("differs, and the diff cannot be written: "+err.Error()))
			continue
		}
		fmt.Fprintf(out, "%s\t%s\tDIFF\t%s\n", tag, r.artefact, diffPath)
	}
	return nil
}

func noteSuffix(note string) string {
	if note == "" {
		return ""
	}
	return " (" + oneLine(note) + ")"
}

// c18Generate regenerates all eight artefacts from the current tree.
func c18Generate(repo, scratch string) []c18Result {
	var results []c18Result

	// --- generatecoder
	coderBin := filepath.Join(scratch, "generatecoder")
	gcDir := filepath.Join(scratch, "gc")
	coderErr := c18GoBuild(repo, coderBin, "./internal/generatecoder")
	if coderErr == nil {
		_ = os.RemoveAll(gcDir)
		coderErr = os.MkdirAll(filepath.Join(gcDir, "picowire"), 0o755)
	}
	if coderErr == nil {
		cmd := exec.Command(coderBin)
		cmd.Dir = gcDir
		var buf bytes.Buffer
		cmd.Stdout = &buf
		cmd.Stderr = &buf
		if err := cmd.Run(); err != nil {
			coderErr = fmt.Errorf("generatecoder: %v: %s", err, buf.String())
		}
	}
	for _, rel := range c18Coder {
		r := c18Result{artefact: rel, err: coderErr}
		if r.err == nil {
			r.content, r.err = os.ReadFile(filepath.Join(gcDir, filepath.FromSlash(rel)))
		}
		results = append(results, r)
	}

	// --- protoc-gen-pico
	pluginBin := filepath.Join(scratch, "protoc-gen-pico")
	pluginErr := c18GoBuild(repo, pluginBin, "./protoc-gen-pico")
	var pico *descriptorpb.FileDescriptorProto
	if pluginErr == nil {
		var err error
		pico, err = protoparse.ParseFile(filepath.Join(repo, "pico.proto"), "pico.proto")
		if err != nil {
			pluginErr = fmt.Errorf("pico.proto: %v", err)
		}
	}
	for _, a := range c18Plugins {
		r := c18Result{artefact: a.artefact, err: pluginErr}
		if r.err == nil {
			r.content, r.note, r.err = c18RunPlugin(repo, pluginBin, pico, a)
		}
		results = append(results, r)
	}
	return results
}

func c18RunPlugin(repo, pluginBin string, pico *descriptorpb.FileDescriptorProto, a c18Plugin) ([]byte, string, error) {
	param, note := c18Params(repo, a)
	fd, err := protoparse.ParseFileWithDeps(filepath.Join(repo, filepath.FromSlash(a.proto)), a.name, pico)
	if err != nil {
		return nil, note, err
	}
	files := []*descriptorpb.FileDescriptorProto{protoparse.DescriptorProtoFile(), pico, fd}
	req := protoparse.NewRequest(files, []string{a.name}, param)
	// protoc only sends the transitive imports of the generated file
	req.ProtoFile = c18Closure(req.ProtoFile, a.name)
	resp, err := protoparse.RunPlugin(pluginBin, req)
	if err != nil {
		return nil, note, err
	}
	if resp.Error != nil {
		return nil, note, fmt.Errorf("plugin reported: %s", resp.GetError())
	}
	if len(resp.File) != 1 {
		names := []string{}
		for _, f := range resp.File {
			names = append(names, f.GetName())
		}
		return nil, note, fmt.Errorf("plugin produced %d files %v, expected exactly one", len(resp.File), names)
	}
	f := resp.File[0]
	if f.GetInsertionPoint() != "" {
		return nil, note, fmt.Errorf("plugin output %q uses an insertion point", f.GetName())
	}
	if filepath.Base(f.GetName()) != filepath.Base(a.artefact) {
		return nil, note, fmt.Errorf("plugin produced %q, expected %q", f.GetName(), filepath.Base(a.artefact))
	}
	return []byte(f.GetContent()), note, nil
}

// c18Closure keeps only the files reachable from root through imports,
// preserving order.
func c18Closure(files []*descriptorpb.FileDescriptorProto, root string) []*descriptorpb.FileDescriptorProto {
	byName := map[string]*descriptorpb.FileDescriptorProto{}
	for _, f := range files {
		byName[f.GetName()] = f
	}
	keep := map[string]bool{}
	var visit func(n string)
	visit = func(n string) {
		if keep[n] {
			return
		}
		keep[n] = true
		if f, ok := byName[n]; ok {
			for _, d := range f.GetDependency() {
				visit(d)
			}
		}
	}
	visit(root)
	var out []*descriptorpb.FileDescriptorProto
	for _, f := range files {
		if keep[f.GetName()] {
			out = append(out, f)
		}
	}
	return out
}
