//go:build verif

package main

import (
	"fmt"
	"math"
	"math/big"
	"reflect"
	"strings"
	"time"

	"google.golang.org/protobuf/encoding/protowire"

	"storj.io/picobuf"
)

// ---- registry of generated message types ------------------------------------

type regFile struct {
	ProtoPath string // repo-relative (or absolute) path of the .proto
	ProtoName string // name protoc records
	GoPkg     string
	New       map[string]func() picobuf.Message // Go type name -> constructor
}

var regFiles []regFile

type TypeInfo struct {
	S       *Schema
	MI      int
	New     func() picobuf.Message
	RT      reflect.Type // struct type
	Key     string       // "<protoname>:<GoName>"
	byJSON  map[string]int
	oneofFI []int                  // struct field index of k-th oneof interface field
	wrap    map[int32]reflect.Type // oneof member field number -> wrapper struct type
	unrecFI int
	Shapes  []*Shape // one per schema field; nil for opaque customs
	Opaque  bool     // uses a custom type without modelled semantics (transitively: see usable)
}

type Universe struct {
	Schemas map[string]*Schema // by ProtoName
	Types   map[string]*TypeInfo
	Order   []string
}

func wireOfKind(k Kind) protowire.Type {
	switch k {
	case KFixed32, KSfixed32, KFloat:
		return protowire.Fixed32Type
	case KFixed64, KSfixed64, KDouble:
		return protowire.Fixed64Type
	case KString, KBytes, KMsg:
		return protowire.BytesType
	}
	return protowire.VarintType
}

func minimalField(num int32, k Kind) []byte {
	b := protowire.AppendTag(nil, protowire.Number(num), wireOfKind(k))
	switch wireOfKind(k) {
	case protowire.Fixed32Type:
		b = append(b, 0, 0, 0, 0)
	case protowire.Fixed64Type:
		b = append(b, 0, 0, 0, 0, 0, 0, 0, 0)
	default:
		b = append(b, 0)
	}
	return b
}

func (u *Universe) typeFor(s *Schema, mi int) *TypeInfo {
	return u.Types[s.File.GetName()+":"+s.Msgs[mi].GoName]
}

func newTypeInfo(s *Schema, mi int, ctor func() picobuf.Message) (*TypeInfo, error) {
	m := ctor()
	rt := reflect.TypeOf(m).Elem()
	ti := &TypeInfo{S: s, MI: mi, New: ctor, RT: rt, byJSON: map[string]int{}, wrap: map[int32]reflect.Type{}, unrecFI: -1}
	for i := 0; i < rt.NumField(); i++ {
		sf := rt.Field(i)
		if sf.Name == "XXX_unrecognized" {
			ti.unrecFI = i
			continue
		}
		if sf.Type.Kind() == reflect.Interface {
			ti.oneofFI = append(ti.oneofFI, i)
			continue
		}
		tag := sf.Tag.Get("json")
		if c := strings.IndexByte(tag, ','); c >= 0 {
			tag = tag[:c]
		}
		ti.byJSON[tag] = i
	}
	msg := &s.Msgs[mi]
	if len(ti.oneofFI) != len(msg.Oneofs) {
		return nil, fmt.Errorf("%s: %d interface fields for %d oneofs", msg.GoName, len(ti.oneofFI), len(msg.Oneofs))
	}
	// discover the wrapper type of every oneof member by decoding a minimal field
	for _, f := range msg.Fields {
		if f.Oneof < 0 {
			continue
		}
		x := ctor()
		func() {
			defer func() { _ = recover() }()
			_ = picobuf.Unmarshal(minimalField(f.Num, f.Kind), x)
		}()
		iv := reflect.ValueOf(x).Elem().Field(ti.oneofFI[f.Oneof])
		if iv.IsNil() {
			return nil, fmt.Errorf("%s: could not discover wrapper of oneof member %d", msg.GoName, f.Num)
		}
		ti.wrap[f.Num] = iv.Elem().Type().Elem()
	}
	return ti, nil
}

// ---- Go value -> Val ------------------------------------------------------------

var (
	timeType = reflect.TypeOf(time.Time{})
	durType  = reflect.TypeOf(time.Duration(0))
)

func (u *Universe) fromMsg(ti *TypeInfo, rv reflect.Value) ([]*Val, []byte, error) {
	msg := &ti.S.Msgs[ti.MI]
	out := make([]*Val, 0, len(msg.Fields))
	for i := range msg.Fields {
		f := &msg.Fields[i]
		if f.Oneof >= 0 {
			iv := rv.Field(ti.oneofFI[f.Oneof])
			wt := ti.wrap[f.Num]
			sel := !iv.IsNil() && iv.Elem().Type() == reflect.PtrTo(wt) && !iv.Elem().IsNil()
			// pointer message members carry presence themselves: (m ...) / (m); by-value ones (always_present) are (o (e ...)) / (o)
			isMsg := f.Kind == KMsg && f.Custom == CNone && wt.Field(0).Type.Kind() == reflect.Ptr
			if !sel {
				if isMsg {
					out = append(out, vNilMsg())
				} else {
					out = append(out, vNone())
				}
				continue
			}
			inner := iv.Elem().Elem().Field(0)
			v, err := u.fromGo(ti.S, f, inner)
			if err != nil {
				return nil, nil, err
			}
			if isMsg || v.T == 'o' {
				out = append(out, v) // pointer message / pointer cast: (m ...) resp. (o x) itself carries presence
			} else {
				out = append(out, vSome(v))
			}
			continue
		}
		fi, ok := ti.byJSON[f.Name]
		if !ok {
			return nil, nil, fmt.Errorf("%s: no Go field for %s", msg.GoName, f.Name)
		}
		v, err := u.fromGo(ti.S, f, rv.Field(fi))
		if err != nil {
			return nil, nil, err
		}
		out = append(out, v)
	}
	var unrec []byte
	if ti.unrecFI >= 0 {
		unrec = rv.Field(ti.unrecFI).Bytes()
	}
	return out, unrec, nil
}

func (u *Universe) fromGo(s *Schema, f *Field, rv reflect.Value) (*Val, error) {
	rt := rv.Type()
	switch {
	case rt == timeType:
		t := rv.Interface().(time.Time)
		return vTime(t.Unix(), int64(t.Nanosecond())), nil
	case rt == durType:
		return vDur(rv.Int()), nil
	}
	switch rt.Kind() {
	case reflect.Bool:
		if rv.Bool() {
			return vInt(1), nil
		}
		return vInt(0), nil
	case reflect.Int32, reflect.Int64:
		return vInt(rv.Int()), nil
	case reflect.Uint32, reflect.Uint64:
		return vUint(rv.Uint()), nil
	case reflect.Float32:
		// read the bit pattern through a pointer: rv.Float() widens to float64, which quiets signalling NaNs
		p := reflect.New(rt)
		p.Elem().Set(rv)
		return vUint(uint64(math.Float32bits(*(p.Convert(reflect.TypeOf((*float32)(nil))).Interface().(*float32))))), nil
	case reflect.Float64:
		p := reflect.New(rt)
		p.Elem().Set(rv)
		return vUint(math.Float64bits(*(p.Convert(reflect.TypeOf((*float64)(nil))).Interface().(*float64)))), nil
	case reflect.String:
		return vBytes([]byte(rv.String())), nil
	case reflect.Slice:
		if rt.Elem().Kind() == reflect.Uint8 {
			return vBytes(rv.Bytes()), nil
		}
		out := &Val{T: 'l'}
		for i := 0; i < rv.Len(); i++ {
			e, err := u.fromGo(s, f, rv.Index(i))
			if err != nil {
				return nil, err
			}
			out.L = append(out.L, e)
		}
		return out, nil
	case reflect.Map:
		out := &Val{T: 'p'}
		it := rv.MapRange()
		for it.Next() {
			k, err := u.fromGo(s, f, it.Key())
			if err != nil {
				return nil, err
			}
			v, err := u.fromGo(s, f, it.Value())
			if err != nil {
				return nil, err
			}
			out.L = append(out.L, k, v)
		}
		out.sortMaps()
		return out, nil
	case reflect.Ptr:
		if rt.Elem().Kind() == reflect.Struct && rt.Elem() != timeType && f.Kind == KMsg && f.Custom == CNone {
			if rv.IsNil() {
				return vNilMsg(), nil
			}
			ti := u.typeFor(s, f.Msg)
			if ti == nil || ti.RT != rt.Elem() {
				return nil, fmt.Errorf("field %s: unexpected message type %v", f.Name, rt)
			}
			fs, un, err := u.fromMsg(ti, rv.Elem())
			if err != nil {
				return nil, err
			}
			return vMsg(fs, un), nil
		}
		if rv.IsNil() {
			return vNone(), nil
		}
		e, err := u.fromGo(s, f, rv.Elem())
		if err != nil {
			return nil, err
		}
		return vSome(e), nil
	case reflect.Struct:
		if f.Kind == KMsg && f.Custom == CNone {
			ti := u.typeFor(s, f.Msg)
			if ti == nil || ti.RT != rt {
				return nil, fmt.Errorf("field %s: unexpected embedded type %v", f.Name, rt)
			}
			fs, un, err := u.fromMsg(ti, rv)
			if err != nil {
				return nil, err
			}
			return vEmb(fs, un), nil
		}
	}
	return nil, fmt.Errorf("field %s: unsupported Go type %v", f.Name, rt)
}

// ---- Val -> Go value ------------------------------------------------------------

// emptyNonNil: build empty slices/maps/bytes as non-nil values (both forms must
// behave alike; the generator flips this per case).
type buildOpts struct{ emptyNonNil bool }

func (u *Universe) toMsg(ti *TypeInfo, fs []*Val, unrec []byte, rv reflect.Value, o buildOpts) error {
	msg := &ti.S.Msgs[ti.MI]
	if len(fs) != len(msg.Fields) {
		return fmt.Errorf("%s: %d values for %d fields", msg.GoName, len(fs), len(msg.Fields))
	}
	for i := range msg.Fields {
		f := &msg.Fields[i]
		v := fs[i]
		if f.Oneof >= 0 {
			if !v.Some {
				continue
			}
			wt := ti.wrap[f.Num]
			w := reflect.New(wt)
			inner := v
			if v.T == 'o' && w.Elem().Field(0).Kind() != reflect.Ptr {
				inner = v.L[0]
			}
			if err := u.toGo(ti.S, f, inner, w.Elem().Field(0), o); err != nil {
				return err
			}
			rv.Field(ti.oneofFI[f.Oneof]).Set(w)
			continue
		}
		fi, ok := ti.byJSON[f.Name]
		if !ok {
			return fmt.Errorf("%s: no Go field for %s", msg.GoName, f.Name)
		}
		if err := u.toGo(ti.S, f, v, rv.Field(fi), o); err != nil {
			return err
		}
	}
	if ti.unrecFI >= 0 && (len(unrec) > 0 || o.emptyNonNil) {
		rv.Field(ti.unrecFI).SetBytes(append([]byte{}, unrec...))
	} else if len(unrec) > 0 {
		return fmt.Errorf("%s: unrecognized bytes for non-capturing message", msg.GoName)
	}
	return nil
}

func bigToInt64(b *big.Int) int64   { return b.Int64() }
func bigToUint64(b *big.Int) uint64 { return b.Uint64() }

func (u *Universe) toGo(s *Schema, f *Field, v *Val, dst reflect.Value, o buildOpts) error {
	rt := dst.Type()
	bad := func() error { return fmt.Errorf("field %s: value %s does not fit Go type %v", f.Name, v, rt) }
	switch {
	case rt == timeType:
		if v.T != 't' {
			return bad()
		}
		// (t sec nsec) with the zero time represented by its own Unix seconds
		t := time.Unix(v.I.Int64(), v.I2.Int64()).UTC()
		dst.Set(reflect.ValueOf(t))
		return nil
	case rt == durType:
		if v.T != 'd' {
			return bad()
		}
		dst.SetInt(v.I.Int64())
		return nil
	}
	switch rt.Kind() {
	case reflect.Bool:
		if v.T != 'i' {
			return bad()
		}
		dst.SetBool(v.I.Sign() != 0)
	case reflect.Int32, reflect.Int64:
		if v.T != 'i' {
			return bad()
		}
		dst.SetInt(bigToInt64(v.I))
	case reflect.Uint32, reflect.Uint64:
		if v.T != 'i' {
			return bad()
		}
		dst.SetUint(bigToUint64(v.I))
	case reflect.Float32:
		if v.T != 'i' {
			return bad()
		}
		// set through the bit pattern (NaN payloads survive; SetFloat would go through float64)
		bits := uint32(bigToUint64(v.I))
		*(dst.Addr().Interface().(*float32)) = math.Float32frombits(bits)
	case reflect.Float64:
		if v.T != 'i' {
			return bad()
		}
		*(dst.Addr().Interface().(*float64)) = math.Float64frombits(bigToUint64(v.I))
	case reflect.String:
		if v.T != 'b' {
			return bad()
		}
		dst.SetString(string(v.B))
	case reflect.Slice:
		if rt.Elem().Kind() == reflect.Uint8 {
			if v.T != 'b' {
				return bad()
			}
			if len(v.B) > 0 || o.emptyNonNil {
				dst.SetBytes(append([]byte{}, v.B...))
			}
			return nil
		}
		if v.T != 'l' {
			return bad()
		}
		if len(v.L) == 0 && !o.emptyNonNil {
			return nil
		}
		sl := reflect.MakeSlice(rt, len(v.L), len(v.L))
		for i, e := range v.L {
			if err := u.toGo(s, f, e, sl.Index(i), o); err != nil {
				return err
			}
		}
		dst.Set(sl)
	case reflect.Map:
		if v.T != 'p' {
			return bad()
		}
		if len(v.L) == 0 && !o.emptyNonNil {
			return nil
		}
		mp := reflect.MakeMap(rt)
		for i := 0; i+1 < len(v.L); i += 2 {
			k := reflect.New(rt.Key()).Elem()
			e := reflect.New(rt.Elem()).Elem()
			if err := u.toGo(s, f, v.L[i], k, o); err != nil {
				return err
			}
			if err := u.toGo(s, f, v.L[i+1], e, o); err != nil {
				return err
			}
			mp.SetMapIndex(k, e)
		}
		dst.Set(mp)
	case reflect.Ptr:
		if rt.Elem().Kind() == reflect.Struct && rt.Elem() != timeType && f.Kind == KMsg && f.Custom == CNone {
			if v.T != 'm' {
				return bad()
			}
			if !v.Some {
				return nil
			}
			ti := u.typeFor(s, f.Msg)
			if ti == nil || ti.RT != rt.Elem() {
				return bad()
			}
			p := reflect.New(rt.Elem())
			if err := u.toMsg(ti, v.L, v.U, p.Elem(), o); err != nil {
				return err
			}
			dst.Set(p)
			return nil
		}
		if v.T != 'o' {
			return bad()
		}
		if !v.Some {
			return nil
		}
		p := reflect.New(rt.Elem())
		if err := u.toGo(s, f, v.L[0], p.Elem(), o); err != nil {
			return err
		}
		dst.Set(p)
	case reflect.Struct:
		if f.Kind == KMsg && f.Custom == CNone && v.T == 'e' {
			ti := u.typeFor(s, f.Msg)
			if ti == nil || ti.RT != rt {
				return bad()
			}
			return u.toMsg(ti, v.L, v.U, dst, o)
		}
		return bad()
	default:
		return bad()
	}
	return nil
}

// top-level helpers

func (u *Universe) build(ti *TypeInfo, v *Val, o buildOpts) (picobuf.Message, error) {
	m := ti.New()
	if v.T != 'm' && v.T != 'e' {
		return nil, fmt.Errorf("top-level value must be a message")
	}
	if err := u.toMsg(ti, v.L, v.U, reflect.ValueOf(m).Elem(), o); err != nil {
		return nil, err
	}
	return m, nil
}

func (u *Universe) read(ti *TypeInfo, m picobuf.Message) (*Val, error) {
	fs, un, err := u.fromMsg(ti, reflect.ValueOf(m).Elem())
	if err != nil {
		return nil, err
	}
	return vMsg(fs, un), nil
}
