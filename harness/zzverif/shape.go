//go:build verif

package main

import (
	"fmt"
	"reflect"
)

// Shape of a field slot, derived from the generated Go type (so it reflects what
// the generator really emitted: pointer or not, slice, embedded message...).
type Shape struct {
	T    byte // 'i','b','o','l','m','e','p','t','d'
	K    Kind // scalar kind for 'i'/'b'
	Elem *Shape
	Key  *Shape // 'p'
	TI   *TypeInfo
}

func (sh *Shape) String() string {
	switch sh.T {
	case 'i', 'b':
		return sh.K.String()
	case 'o':
		return "opt(" + sh.Elem.String() + ")"
	case 'l':
		return "list(" + sh.Elem.String() + ")"
	case 'p':
		return "map(" + sh.Key.String() + "," + sh.Elem.String() + ")"
	case 'm':
		return "*msg"
	case 'e':
		return "msg"
	case 't':
		return "time"
	case 'd':
		return "duration"
	}
	return "?"
}

func (u *Universe) shapeOf(s *Schema, f *Field, rt reflect.Type, k Kind) (*Shape, error) {
	switch {
	case rt == timeType:
		return &Shape{T: 't'}, nil
	case rt == durType:
		return &Shape{T: 'd'}, nil
	}
	switch rt.Kind() {
	case reflect.Bool, reflect.Int32, reflect.Int64, reflect.Uint32, reflect.Uint64, reflect.Float32, reflect.Float64:
		return &Shape{T: 'i', K: k}, nil
	case reflect.String:
		return &Shape{T: 'b', K: k}, nil
	case reflect.Slice:
		if rt.Elem().Kind() == reflect.Uint8 {
			return &Shape{T: 'b', K: k}, nil
		}
		e, err := u.shapeOf(s, f, rt.Elem(), k)
		if err != nil {
			return nil, err
		}
		return &Shape{T: 'l', Elem: e}, nil
	case reflect.Map:
		ks, err := u.shapeOf(s, f, rt.Key(), f.MapKey)
		if err != nil {
			return nil, err
		}
		vs, err := u.shapeOf(s, f, rt.Elem(), f.MapVal)
		if err != nil {
			return nil, err
		}
		return &Shape{T: 'p', Key: ks, Elem: vs}, nil
	case reflect.Ptr:
		if rt.Elem().Kind() == reflect.Struct && rt.Elem() != timeType && f.Kind == KMsg && f.Custom == CNone {
			ti := u.typeFor(s, f.Msg)
			if ti == nil || ti.RT != rt.Elem() {
				return nil, fmt.Errorf("field %s: Go type %v is not the generated type of its message", f.Name, rt)
			}
			return &Shape{T: 'm', TI: ti}, nil
		}
		e, err := u.shapeOf(s, f, rt.Elem(), k)
		if err != nil {
			return nil, err
		}
		return &Shape{T: 'o', Elem: e}, nil
	case reflect.Struct:
		if f.Kind == KMsg && f.Custom == CNone {
			ti := u.typeFor(s, f.Msg)
			if ti == nil || ti.RT != rt {
				return nil, fmt.Errorf("field %s: Go type %v is not the generated type of its message", f.Name, rt)
			}
			return &Shape{T: 'e', TI: ti}, nil
		}
	}
	return nil, fmt.Errorf("field %s: unsupported Go type %v", f.Name, rt)
}

// computeShapes fills ti.Shapes (one per schema field). Returns an error for
// messages using opaque custom types (no value semantics in the model).
func (u *Universe) computeShapes(ti *TypeInfo) error {
	msg := &ti.S.Msgs[ti.MI]
	ti.Shapes = nil
	for i := range msg.Fields {
		f := &msg.Fields[i]
		if f.Custom == COpaque {
			ti.Opaque = true
			ti.Shapes = append(ti.Shapes, nil)
			continue
		}
		var rt reflect.Type
		if f.Oneof >= 0 {
			rt = ti.wrap[f.Num].Field(0).Type
		} else {
			fi, ok := ti.byJSON[f.Name]
			if !ok {
				return fmt.Errorf("%s: no Go field for %s", msg.GoName, f.Name)
			}
			rt = ti.RT.Field(fi).Type
		}
		sh, err := u.shapeOf(ti.S, f, rt, f.Kind)
		if err != nil {
			return err
		}
		// a oneof member: the wrapper is the option. A pointer inside the wrapper (messages, Timestamp/Duration casts
		// without always_present) is not a second level of presence - the domain of the properties is "wrappers holding
		// non-nil pointers" - so (o x) = selected wrapper with a non-nil pointer, (o) / (m) = member not selected.
		if f.Oneof >= 0 && sh.T != 'm' && sh.T != 'o' {
			sh = &Shape{T: 'o', Elem: sh}
		}
		ti.Shapes = append(ti.Shapes, sh)
	}
	return nil
}

// zero value of a shape
func zeroVal(sh *Shape) *Val {
	switch sh.T {
	case 'i':
		return vInt(0)
	case 'b':
		return vBytes(nil)
	case 'o':
		return vNone()
	case 'l':
		return &Val{T: 'l'}
	case 'p':
		return &Val{T: 'p'}
	case 'm':
		return vNilMsg()
	case 'e':
		return zeroMsg(sh.TI, 'e')
	case 't':
		return vTime(-62135596800, 0)
	case 'd':
		return vDur(0)
	}
	return nil
}

func zeroMsg(ti *TypeInfo, t byte) *Val {
	out := &Val{T: t, Some: true}
	for _, sh := range ti.Shapes {
		out.L = append(out.L, zeroVal(sh))
	}
	return out
}
