//go:build verif

package main

import (
	"bufio"
	"fmt"
	"strconv"
	"strings"

	"storj.io/picobuf/internal/bitset"
)

// C20 alphabet from the property text.
var bitsetAlphabet = []int32{-1, 0, 1, 62, 63, 64, 65, 127, 128, 129, 191, 192, 4095, 4096, 1 << 20}

// runBitset applies the history to a fresh bitset.Small; result is one char per
// call: 0/1 = returned false/true, P = panicked (history stops there).
func runBitset(xs []int32) (res string) {
	var sb strings.Builder
	var set bitset.Small
	defer func() {
		if r := recover(); r != nil {
			sb.WriteByte('P')
			res = sb.String()
		}
	}()
	for _, x := range xs {
		if set.Set(x) {
			sb.WriteByte('1')
		} else {
			sb.WriteByte('0')
		}
	}
	return sb.String()
}

// oracleBitset: map based reference set.
func oracleBitset(xs []int32) string {
	var sb strings.Builder
	seen := map[int32]bool{}
	for _, x := range xs {
		if x >= 0 && seen[x] {
			sb.WriteByte('1')
		} else {
			sb.WriteByte('0')
		}
		if x >= 0 {
			seen[x] = true
		}
	}
	return sb.String()
}

func emitBitset(out *bufio.Writer, xs []int32) {
	parts := make([]string, len(xs))
	for i, x := range xs {
		parts[i] = strconv.Itoa(int(x))
	}
	fmt.Fprintf(out, "bitset\t%s\t%s\t%s\n", strings.Join(parts, " "), runBitset(xs), oracleBitset(xs))
}

func init() {
	// bitset <seed> <maxlen-exhaustive> <nrandom> <maxvalue-random>
	register("bitset", func(args []string, out *bufio.Writer) error {
		seed, _ := strconv.ParseUint(args[0], 10, 64)
		exh, _ := strconv.Atoi(args[1])
		nrand, _ := strconv.Atoi(args[2])
		// exhaustive: all sequences of length <= exh over the alphabet
		var rec func(prefix []int32, left int)
		rec = func(prefix []int32, left int) {
			emitBitset(out, prefix)
			if left == 0 {
				return
			}
			for _, a := range bitsetAlphabet {
				rec(append(append([]int32{}, prefix...), a), left-1)
			}
		}
		rec(nil, exh)
		r := newRng(seed)
		for i := 0; i < nrand; i++ {
			n := 1 + r.intn(40)
			xs := make([]int32, n)
			// small universe so that repeats happen; universe size varies per history
			var uni int
			switch r.intn(7) {
			case 0:
				uni = 70
			case 1:
				uni = 300
			case 2:
				uni = 5000
			case 3:
				uni = 20000
			case 4:
				uni = 1 << 16
			case 5:
				uni = 1 << 22
			default:
				uni = 1 << 21
			}
			// half of the histories climb in steps of whole words / blocks of words (growth of the backing store in stages)
			stair := r.intn(2) == 0
			step := []int{64, 640, 4096, 8192}[r.intn(4)]
			for j := range xs {
				switch r.intn(10) {
				case 0:
					xs[j] = -int32(r.intn(1<<31-1)) - 1
				case 1:
					xs[j] = bitsetAlphabet[r.intn(len(bitsetAlphabet))]
				case 2:
					if j > 0 {
						xs[j] = xs[r.intn(j)]
					}
				case 3, 4:
					if stair {
						v := r.intn(1+uni/step)*step + []int{0, 1, 63, -1}[r.intn(4)]
						if v < 0 {
							v = 0
						}
						xs[j] = int32(v)
					} else {
						xs[j] = int32(r.intn(uni))
					}
				default:
					xs[j] = int32(r.intn(uni))
				}
			}
			// ... and half of them end with a sweep asking for every value inserted so far, in another order: a set forgets nothing
			if r.intn(2) == 0 {
				seen := map[int32]bool{}
				var all []int32
				for _, x := range xs {
					if x >= 0 && !seen[x] {
						seen[x] = true
						all = append(all, x)
					}
				}
				for k := len(all) - 1; k > 0; k-- {
					o := r.intn(k + 1)
					all[k], all[o] = all[o], all[k]
				}
				xs = append(xs, all...)
			}
			emitBitset(out, xs)
		}
		return nil
	})
	register("bitset-replay", func(args []string, out *bufio.Writer) error {
		xs := []int32{}
		for _, a := range args {
			v, err := strconv.ParseInt(a, 10, 32)
			if err != nil {
				return err
			}
			xs = append(xs, int32(v))
		}
		emitBitset(out, xs)
		return nil
	})
}
