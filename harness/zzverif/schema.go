//go:build verif

package main

import (
	"fmt"
	"strings"

	"google.golang.org/protobuf/types/descriptorpb"

	"storj.io/picobuf/internal/zzverif/protoparse"
)

// Kind numbers follow the 15-row table of internal/generatecoder (same order as
// the Coq `kind` inductive), then enum and message.
type Kind int

const (
	KBool Kind = iota
	KInt32
	KInt64
	KUint32
	KUint64
	KSint32
	KSint64
	KFixed32
	KFixed64
	KSfixed32
	KSfixed64
	KFloat
	KDouble
	KString
	KBytes
	KEnum
	KMsg
)

var kindNames = []string{"bool", "int32", "int64", "uint32", "uint64", "sint32", "sint64", "fixed32", "fixed64",
	"sfixed32", "sfixed64", "float", "double", "string", "bytes", "enum", "msg"}

func (k Kind) String() string { return kindNames[k] }

func kindOfProto(t descriptorpb.FieldDescriptorProto_Type) (Kind, bool) {
	switch t {
	case descriptorpb.FieldDescriptorProto_TYPE_BOOL:
		return KBool, true
	case descriptorpb.FieldDescriptorProto_TYPE_INT32:
		return KInt32, true
	case descriptorpb.FieldDescriptorProto_TYPE_INT64:
		return KInt64, true
	case descriptorpb.FieldDescriptorProto_TYPE_UINT32:
		return KUint32, true
	case descriptorpb.FieldDescriptorProto_TYPE_UINT64:
		return KUint64, true
	case descriptorpb.FieldDescriptorProto_TYPE_SINT32:
		return KSint32, true
	case descriptorpb.FieldDescriptorProto_TYPE_SINT64:
		return KSint64, true
	case descriptorpb.FieldDescriptorProto_TYPE_FIXED32:
		return KFixed32, true
	case descriptorpb.FieldDescriptorProto_TYPE_FIXED64:
		return KFixed64, true
	case descriptorpb.FieldDescriptorProto_TYPE_SFIXED32:
		return KSfixed32, true
	case descriptorpb.FieldDescriptorProto_TYPE_SFIXED64:
		return KSfixed64, true
	case descriptorpb.FieldDescriptorProto_TYPE_FLOAT:
		return KFloat, true
	case descriptorpb.FieldDescriptorProto_TYPE_DOUBLE:
		return KDouble, true
	case descriptorpb.FieldDescriptorProto_TYPE_STRING:
		return KString, true
	case descriptorpb.FieldDescriptorProto_TYPE_BYTES:
		return KBytes, true
	case descriptorpb.FieldDescriptorProto_TYPE_ENUM:
		return KEnum, true
	case descriptorpb.FieldDescriptorProto_TYPE_MESSAGE:
		return KMsg, true
	}
	return 0, false
}

type Label int

const (
	LSingular Label = iota
	LOptional       // proto3 `optional` keyword
	LRepeated
)

type Custom int

const (
	CNone      Custom = iota
	CTimestamp        // custom_serialize = storj.io/picobuf/picoconv.Timestamp
	CDuration         // custom_serialize = storj.io/picobuf/picoconv.Duration
	COpaque           // any other custom_type / custom_serialize: carried as a name only
)

// Field is one proto field as the generator sees it.
type Field struct {
	Num                         int32
	Name                        string // proto name (also the json tag of the generated Go field)
	Kind                        Kind
	Msg                         int // index into Schema.Msgs for KMsg (target message), else -1
	Label                       Label
	Oneof                       int // index of the real oneof within the message, -1 if none
	IsMap                       bool
	MapKey                      Kind
	MapVal                      Kind
	MapValOK                    bool // map value is one of the 15 scalar kinds
	FieldAP                     bool // (pico.field).always_present
	Custom                      Custom
	CustomType, CustomSerialize string
	Unpacked                    bool // [packed = false]: picobuf ignores the option and writes packed (valid; the reference writes unpacked)
}

// Msg is one message type.
type Msg struct {
	FullName string // proto full name, e.g. "picotest.AllTypes" or "pkg.Outer.Inner"
	GoName   string // Go type name emitted by the generator, e.g. "Outer_Inner"
	Fields   []Field
	Oneofs   []string
	AP       bool // (pico.message).always_present
	Capture  bool // (pico.message).capture_unrecognized_fields
	Desc     *descriptorpb.DescriptorProto
}

// Schema is all messages of one .proto file (map entries excluded), nested ones included.
type Schema struct {
	File  *descriptorpb.FileDescriptorProto
	Pkg   string
	Msgs  []Msg
	index map[string]int // ".pkg.Name" -> index
}

func buildSchema(fd *descriptorpb.FileDescriptorProto) (*Schema, error) {
	s := &Schema{File: fd, Pkg: fd.GetPackage(), index: map[string]int{}}
	// first pass: collect message names
	var walk func(prefix, goPrefix string, ms []*descriptorpb.DescriptorProto)
	entries := map[string]*descriptorpb.DescriptorProto{}
	walk = func(prefix, goPrefix string, ms []*descriptorpb.DescriptorProto) {
		for _, m := range ms {
			full := prefix + "." + m.GetName()
			goName := goPrefix + m.GetName()
			if m.GetOptions().GetMapEntry() {
				entries[full] = m
				continue
			}
			ap, capt := protoparse.MessageOpts(m)
			s.index[full] = len(s.Msgs)
			s.Msgs = append(s.Msgs, Msg{FullName: strings.TrimPrefix(full, "."), GoName: goName, AP: ap, Capture: capt, Desc: m})
		}
		// generator order: all messages of a level, then recurse (order of Msgs is irrelevant to semantics)
		for _, m := range ms {
			if !m.GetOptions().GetMapEntry() {
				walk(prefix+"."+m.GetName(), goPrefix+m.GetName()+"_", m.NestedType)
			} else {
				_ = m
			}
		}
	}
	// nested map entries live inside their parent: collect them too
	var collectEntries func(prefix string, ms []*descriptorpb.DescriptorProto)
	collectEntries = func(prefix string, ms []*descriptorpb.DescriptorProto) {
		for _, m := range ms {
			full := prefix + "." + m.GetName()
			if m.GetOptions().GetMapEntry() {
				entries[full] = m
			}
			collectEntries(full, m.NestedType)
		}
	}
	root := ""
	if s.Pkg != "" {
		root = "." + s.Pkg
	}
	walk(root, "", fd.MessageType)
	collectEntries(root, fd.MessageType)

	for mi := range s.Msgs {
		m := &s.Msgs[mi]
		d := m.Desc
		realOneof := map[int32]int{}
		for oi, o := range d.OneofDecl {
			synthetic := false
			for _, f := range d.Field {
				if f.OneofIndex != nil && int(f.GetOneofIndex()) == oi && f.GetProto3Optional() {
					synthetic = true
				}
			}
			if !synthetic {
				realOneof[int32(oi)] = len(m.Oneofs)
				m.Oneofs = append(m.Oneofs, o.GetName())
			}
		}
		for _, f := range d.Field {
			k, ok := kindOfProto(f.GetType())
			if !ok {
				return nil, fmt.Errorf("%s.%s: unsupported type %v", m.FullName, f.GetName(), f.GetType())
			}
			fl := Field{Num: f.GetNumber(), Name: f.GetName(), Kind: k, Msg: -1, Oneof: -1}
			switch {
			case f.GetLabel() == descriptorpb.FieldDescriptorProto_LABEL_REPEATED:
				fl.Label = LRepeated
			case f.GetProto3Optional():
				fl.Label = LOptional
			default:
				fl.Label = LSingular
			}
			if f.OneofIndex != nil && !f.GetProto3Optional() {
				fl.Oneof = realOneof[f.GetOneofIndex()]
			}
			if k == KMsg {
				if e, isEntry := entries[f.GetTypeName()]; isEntry {
					fl.IsMap = true
					fl.Label = LSingular
					for _, ef := range e.Field {
						ek, _ := kindOfProto(ef.GetType())
						if ef.GetNumber() == 1 {
							fl.MapKey = ek
						} else {
							fl.MapVal = ek
							fl.MapValOK = ek < KEnum
						}
					}
				} else if ti, ok := s.index[f.GetTypeName()]; ok {
					fl.Msg = ti
				} else {
					return nil, fmt.Errorf("%s.%s: message type %s not in this file", m.FullName, f.GetName(), f.GetTypeName())
				}
			}
			fl.Unpacked = f.GetOptions() != nil && f.GetOptions().Packed != nil && !f.GetOptions().GetPacked()
			o := protoparse.FieldOpts(f)
			fl.FieldAP = o.AlwaysPresent
			fl.CustomType, fl.CustomSerialize = o.CustomType, o.CustomSerialize
			switch {
			case o.CustomSerialize == "storj.io/picobuf/picoconv.Timestamp" && o.CustomType == "time.Time":
				fl.Custom = CTimestamp
			case o.CustomSerialize == "storj.io/picobuf/picoconv.Duration" && o.CustomType == "time.Duration":
				fl.Custom = CDuration
			case o.CustomSerialize != "" || o.CustomType != "":
				fl.Custom = COpaque
			}
			m.Fields = append(m.Fields, fl)
		}
	}
	return s, nil
}

func (s *Schema) msgIndex(goName string) int {
	for i := range s.Msgs {
		if s.Msgs[i].GoName == goName {
			return i
		}
	}
	return -1
}

// hasOpaque reports whether message i (transitively) contains a custom type
// without modelled semantics.
func (s *Schema) hasOpaque(i int) bool {
	seen := map[int]bool{}
	var rec func(i int) bool
	rec = func(i int) bool {
		if seen[i] {
			return false
		}
		seen[i] = true
		for _, f := range s.Msgs[i].Fields {
			if f.Custom == COpaque {
				return true
			}
			if f.Msg >= 0 && f.Custom == CNone && rec(f.Msg) {
				return true
			}
		}
		return false
	}
	return rec(i)
}

// hasMap reports whether message i (transitively) has a map field.
// noRefBytes: the reference's bytes are not comparable byte for byte: maps (the reference writes default keys/values, the order
// is Go's) or a repeated scalar declared [packed = false] (the reference honours the option, picobuf always packs)
func (s *Schema) noRefBytes(i int) bool {
	if s.hasMap(i) {
		return true
	}
	seen := map[int]bool{}
	var rec func(i int) bool
	rec = func(i int) bool {
		if seen[i] {
			return false
		}
		seen[i] = true
		for _, f := range s.Msgs[i].Fields {
			if f.Unpacked {
				return true
			}
			if f.Msg >= 0 && rec(f.Msg) {
				return true
			}
		}
		return false
	}
	return rec(i)
}

func (s *Schema) hasMap(i int) bool {
	seen := map[int]bool{}
	var rec func(i int) bool
	rec = func(i int) bool {
		if seen[i] {
			return false
		}
		seen[i] = true
		for _, f := range s.Msgs[i].Fields {
			if f.IsMap {
				return true
			}
			if f.Msg >= 0 && rec(f.Msg) {
				return true
			}
		}
		return false
	}
	return rec(i)
}

// sexp renders the schema for the model driver:
// (schema (msg <capture> <ap> (f <num> <type> <label> <oneof> <ap> <custom>)...)...)
func (s *Schema) sexp() string {
	var b strings.Builder
	b.WriteString("(schema")
	for _, m := range s.Msgs {
		fmt.Fprintf(&b, " (msg %d %d", b2i(m.Capture), b2i(m.AP))
		for _, f := range m.Fields {
			var ty string
			switch {
			case f.IsMap && !f.MapValOK:
				ty = "(mapother)"
			case f.IsMap:
				ty = fmt.Sprintf("(map %s %s)", f.MapKey, f.MapVal)
			case f.Kind == KMsg:
				ty = fmt.Sprintf("(msg %d)", f.Msg)
			default:
				ty = f.Kind.String()
			}
			lab := []string{"s", "o", "r"}[f.Label]
			one := "-"
			if f.Oneof >= 0 {
				one = fmt.Sprint(f.Oneof)
			}
			cust := []string{"-", "ts", "dur", "opaque"}[f.Custom]
			fmt.Fprintf(&b, " (f %d %s %s %s %d %s)", f.Num, ty, lab, one, b2i(f.FieldAP), cust)
		}
		b.WriteString(")")
	}
	b.WriteString(")")
	return b.String()
}

func b2i(b bool) int {
	if b {
		return 1
	}
	return 0
}
