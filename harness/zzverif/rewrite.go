//go:build verif

package main

import (
	"google.golang.org/protobuf/encoding/protowire"
)

// A parsed wire record. Known sub-messages and map entries are parsed into
// children so that rewrites can be applied at every depth.
type wrec struct {
	num    protowire.Number
	typ    protowire.Type
	u64    uint64  // varint / fixed value
	bytes  []byte  // payload of a bytes record without children
	kids   []*wrec // children of a known sub-message / map entry (nil otherwise)
	hasKid bool
	group  []byte    // raw group content incl. end marker
	ti     *TypeInfo // message type of kids (nil for map entries)
	f      *Field    // schema field when known
	// non-minimal encodings: extra continuation bytes
	padTag, padLen, padVal int
}

func padVarint(b []byte, v uint64, pad int) []byte {
	start := len(b)
	b = protowire.AppendVarint(b, v)
	if pad <= 0 {
		return b
	}
	n := len(b) - start
	if n+pad > 10 {
		pad = 10 - n
	}
	if pad <= 0 {
		return b
	}
	b[len(b)-1] |= 0x80
	for i := 0; i < pad-1; i++ {
		b = append(b, 0x80)
	}
	return append(b, 0x00)
}

func serialize(recs []*wrec) []byte {
	var b []byte
	for _, r := range recs {
		b = padVarint(b, protowire.EncodeTag(r.num, r.typ), r.padTag)
		switch r.typ {
		case protowire.VarintType:
			b = padVarint(b, r.u64, r.padVal)
		case protowire.Fixed32Type:
			b = protowire.AppendFixed32(b, uint32(r.u64))
		case protowire.Fixed64Type:
			b = protowire.AppendFixed64(b, r.u64)
		case protowire.BytesType:
			p := r.bytes
			if r.hasKid {
				p = serialize(r.kids)
			}
			b = padVarint(b, uint64(len(p)), r.padLen)
			b = append(b, p...)
		case protowire.StartGroupType:
			b = append(b, r.group...)
		}
	}
	return b
}

// parseRecs parses data as a message of type ti (entry == nil) or as a map entry.
func (u *Universe) parseRecs(ti *TypeInfo, entry *Field, data []byte) ([]*wrec, bool) {
	var out []*wrec
	var byNum map[int32]*Field
	if ti != nil {
		msg := &ti.S.Msgs[ti.MI]
		byNum = map[int32]*Field{}
		for i := range msg.Fields {
			byNum[msg.Fields[i].Num] = &msg.Fields[i]
		}
	}
	for len(data) > 0 {
		num, typ, n := protowire.ConsumeTag(data)
		if n < 0 {
			return nil, false
		}
		data = data[n:]
		r := &wrec{num: num, typ: typ}
		if byNum != nil {
			r.f = byNum[int32(num)]
		}
		switch typ {
		case protowire.VarintType:
			v, m := protowire.ConsumeVarint(data)
			if m < 0 {
				return nil, false
			}
			r.u64 = v
			data = data[m:]
		case protowire.Fixed32Type:
			v, m := protowire.ConsumeFixed32(data)
			if m < 0 {
				return nil, false
			}
			r.u64 = uint64(v)
			data = data[m:]
		case protowire.Fixed64Type:
			v, m := protowire.ConsumeFixed64(data)
			if m < 0 {
				return nil, false
			}
			r.u64 = v
			data = data[m:]
		case protowire.BytesType:
			p, m := protowire.ConsumeBytes(data)
			if m < 0 {
				return nil, false
			}
			r.bytes = append([]byte{}, p...)
			data = data[m:]
			if r.f != nil && r.f.Kind == KMsg && r.f.Custom == CNone {
				if r.f.IsMap {
					if kids, ok := u.parseRecs(nil, r.f, p); ok {
						r.kids, r.hasKid = kids, true
					}
				} else {
					sub := u.typeFor(ti.S, r.f.Msg)
					if kids, ok := u.parseRecs(sub, nil, p); ok {
						r.kids, r.hasKid, r.ti = kids, true, sub
					}
				}
			}
		case protowire.StartGroupType:
			m := protowire.ConsumeFieldValue(num, typ, data)
			if m < 0 {
				return nil, false
			}
			r.group = append([]byte{}, data[:m]...)
			data = data[m:]
		default:
			return nil, false
		}
		out = append(out, r)
	}
	return out, true
}

// recKey: records with equal keys must keep their relative order.
func recKey(ti *TypeInfo, r *wrec) int64 {
	if r.f == nil {
		if ti != nil && ti.S.Msgs[ti.MI].Capture {
			return -1 // all unknown fields of a capturing message share one key
		}
		return int64(r.num)
	}
	if r.f.Oneof >= 0 {
		return -100 - int64(r.f.Oneof)
	}
	return int64(r.num)
}

type rwStats map[string]int

// rewrite applies meaning-preserving rewrites in place (recursively) and returns the new list.
func (u *Universe) rewrite(r *rng, ti *TypeInfo, entry *Field, recs []*wrec, st rwStats, depth int) []*wrec {
	// recurse first
	for _, x := range recs {
		if x.hasKid {
			x.kids = u.rewrite(r, x.ti, x.f, x.kids, st, depth+1)
		}
	}
	// 1. repack repeated scalars
	if ti != nil && r.intn(2) == 0 {
		var out []*wrec
		for _, x := range recs {
			f := x.f
			if f != nil && f.Label == LRepeated && !f.IsMap && f.Kind != KMsg && f.Kind != KString && f.Kind != KBytes && f.Custom == CNone {
				k := f.Kind
				if k == KEnum {
					k = KInt32
				}
				w := wireOfKind(k)
				if x.typ == protowire.BytesType && r.intn(2) == 0 {
					// packed -> unpacked elements (or two packed halves)
					var elems [][]byte
					p := x.bytes
					ok := true
					for len(p) > 0 {
						m := protowire.ConsumeFieldValue(x.num, w, p)
						if m < 0 {
							ok = false
							break
						}
						elems = append(elems, p[:m])
						p = p[m:]
					}
					if ok && len(elems) > 0 {
						if r.intn(3) == 0 && len(elems) > 1 {
							cut := 1 + r.intn(len(elems)-1)
							var a, b []byte
							for i, e := range elems {
								if i < cut {
									a = append(a, e...)
								} else {
									b = append(b, e...)
								}
							}
							out = append(out, &wrec{num: x.num, typ: protowire.BytesType, bytes: a, f: f}, &wrec{num: x.num, typ: protowire.BytesType, bytes: b, f: f})
							st["split-packed"]++
						} else {
							for _, e := range elems {
								nr := &wrec{num: x.num, typ: w, f: f}
								switch w {
								case protowire.VarintType:
									nr.u64, _ = protowire.ConsumeVarint(e)
								case protowire.Fixed32Type:
									v, _ := protowire.ConsumeFixed32(e)
									nr.u64 = uint64(v)
								case protowire.Fixed64Type:
									nr.u64, _ = protowire.ConsumeFixed64(e)
								}
								out = append(out, nr)
							}
							st["unpack"]++
						}
						continue
					}
				} else if x.typ == w && r.intn(2) == 0 {
					// single element -> packed record of one element
					var p []byte
					switch w {
					case protowire.VarintType:
						p = protowire.AppendVarint(nil, x.u64)
					case protowire.Fixed32Type:
						p = protowire.AppendFixed32(nil, uint32(x.u64))
					case protowire.Fixed64Type:
						p = protowire.AppendFixed64(nil, x.u64)
					}
					out = append(out, &wrec{num: x.num, typ: protowire.BytesType, bytes: p, f: f})
					st["pack"]++
					continue
				}
			}
			out = append(out, x)
		}
		recs = out
	}
	// 2. split a singular sub-message into two occurrences
	if ti != nil && r.intn(2) == 0 {
		var out []*wrec
		for _, x := range recs {
			f := x.f
			if f != nil && x.hasKid && !f.IsMap && f.Label != LRepeated && f.Custom == CNone && len(x.kids) >= 1 && r.intn(2) == 0 {
				cut := r.intn(len(x.kids) + 1)
				a := &wrec{num: x.num, typ: x.typ, f: f, ti: x.ti, hasKid: true, kids: x.kids[:cut]}
				b := &wrec{num: x.num, typ: x.typ, f: f, ti: x.ti, hasKid: true, kids: x.kids[cut:]}
				out = append(out, a, b)
				st["split-msg"]++
				continue
			}
			out = append(out, x)
		}
		recs = out
	}
	// 2b. last one wins: an EARLIER occurrence of a singular scalar field (of a map entry's key or value) with another value of
	// the same wire type changes nothing
	if r.intn(3) == 0 {
		var out []*wrec
		for _, x := range recs {
			scalar := x.typ == protowire.VarintType || x.typ == protowire.Fixed32Type || x.typ == protowire.Fixed64Type || (x.typ == protowire.BytesType && !x.hasKid)
			known := (ti != nil && x.f != nil && x.f.Label != LRepeated && !x.f.IsMap && x.f.Custom == CNone && x.f.Kind != KMsg) ||
				(ti == nil && entry != nil && (x.num == 1 || x.num == 2))
			if scalar && known && r.intn(2) == 0 {
				d := &wrec{num: x.num, typ: x.typ, f: x.f, u64: x.u64 ^ uint64(1+r.intn(200))}
				if x.typ == protowire.BytesType {
					d.bytes = append([]byte("dup"), byte('a'+r.intn(26)))
				}
				out = append(out, d)
				st["duplicate-earlier"]++
			}
			out = append(out, x)
		}
		recs = out
	}
	// 3. inject unknown fields
	if r.intn(2) == 0 {
		n := 1 + r.intn(2)
		for i := 0; i < n; i++ {
			var num protowire.Number
			if ti != nil {
				num = unknownNumber(r, &ti.S.Msgs[ti.MI])
			} else {
				num = protowire.Number(3 + r.intn(60)) // map entry: anything but 1 and 2
			}
			raw := genUnknownValue(r, nil, num, 2)
			inj, ok := u.parseRecs(nil, nil, raw)
			if !ok || len(inj) != 1 {
				continue
			}
			pos := r.intn(len(recs) + 1)
			recs = append(recs[:pos], append([]*wrec{inj[0]}, recs[pos:]...)...)
			st["inject-unknown"]++
			if inj[0].typ == protowire.StartGroupType {
				st["inject-group"]++
			}
		}
	}
	// 4. permutation that keeps the relative order of records with the same key
	if r.intn(2) == 0 && len(recs) > 1 {
		keys := make([]int64, len(recs))
		for i, x := range recs {
			if ti != nil {
				keys[i] = recKey(ti, x)
			} else {
				keys[i] = int64(x.num) // map entry: per field number
			}
		}
		// random interleaving of the per-key queues
		queues := map[int64][]*wrec{}
		var order []int64
		for i, x := range recs {
			if _, ok := queues[keys[i]]; !ok {
				order = append(order, keys[i])
			}
			queues[keys[i]] = append(queues[keys[i]], x)
		}
		var out []*wrec
		for len(out) < len(recs) {
			k := order[r.intn(len(order))]
			if q := queues[k]; len(q) > 0 {
				out = append(out, q[0])
				queues[k] = q[1:]
			}
		}
		recs = out
		st["permute"]++
	}
	// 4b. non-minimal varints INSIDE packed payloads of varint kinds (every element is its own varint)
	if ti != nil && r.intn(3) == 0 {
		for _, x := range recs {
			f := x.f
			if f == nil || x.typ != protowire.BytesType || x.hasKid || f.Label != LRepeated || f.IsMap || f.Custom != CNone {
				continue
			}
			k := f.Kind
			if k == KEnum {
				k = KInt32
			}
			if k >= KString || wireOfKind(k) != protowire.VarintType {
				continue
			}
			var out []byte
			p := x.bytes
			ok := true
			for len(p) > 0 {
				v, m := protowire.ConsumeVarint(p)
				if m < 0 {
					ok = false
					break
				}
				pad := 0
				if r.intn(2) == 0 {
					pad = 1 + r.intn(9)
				}
				out = padVarint(out, v, pad)
				p = p[m:]
			}
			if ok {
				x.bytes = out
				st["pad-packed-element"]++
			}
		}
	}
	// 4c. the same unknown number twice in a row with different wire types (a repeated scalar the
	//     narrower schema does not know, sent partly packed and partly unpacked)
	if r.intn(6) == 0 {
		var num protowire.Number
		if ti != nil {
			num = unknownNumber(r, &ti.S.Msgs[ti.MI])
		} else {
			num = protowire.Number(3 + r.intn(60))
		}
		a := &wrec{num: num, typ: protowire.VarintType, u64: uint64(r.intn(300))}
		b := &wrec{num: num, typ: protowire.BytesType, bytes: protowire.AppendVarint(protowire.AppendVarint(nil, 5), 300)}
		pair := []*wrec{a, b}
		if r.intn(2) == 0 {
			pair = []*wrec{b, a}
		}
		pos := r.intn(len(recs) + 1)
		recs = append(recs[:pos], append(pair, recs[pos:]...)...)
		st["unknown-mixed-wire-pair"]++
	}
	// 4d. 32-bit varint kinds (int32, uint32, sint32, enum; also as key or value of a map entry) carried in a varint with
	//     bits set above bit 31: parsers narrow to the low 32 bits BEFORE applying zig-zag or the sign, so the meaning stays
	if r.intn(3) == 0 {
		for _, x := range recs {
			if x.typ != protowire.VarintType || r.intn(3) != 0 {
				continue
			}
			k := Kind(-1)
			switch {
			case ti != nil && x.f != nil && !x.f.IsMap && x.f.Custom == CNone:
				k = x.f.Kind
			case ti == nil && entry != nil && x.num == 1:
				k = entry.MapKey
			case ti == nil && entry != nil && x.num == 2 && entry.MapValOK:
				k = entry.MapVal
			}
			if k == KInt32 || k == KUint32 || k == KSint32 || k == KEnum {
				x.u64 = x.u64&0xffffffff | r.u64()<<32
				st["widen-32"]++
			}
		}
	}
	// 5. non-minimal varints
	if r.intn(3) == 0 {
		for _, x := range recs {
			if r.intn(3) == 0 {
				x.padTag = 1 + r.intn(3)
				st["pad-tag"]++
			}
			if x.typ == protowire.BytesType && r.intn(3) == 0 {
				x.padLen = 1 + r.intn(3)
				st["pad-len"]++
			}
			if x.typ == protowire.VarintType && r.intn(3) == 0 {
				x.padVal = 1 + r.intn(9)
				st["pad-val"]++
			}
		}
	}
	return recs
}

// canonUnknown re-tags a sequence of raw unknown fields with minimal tags (what a
// capturing picobuf message stores), keeping the value bytes verbatim.
func canonUnknown(b []byte) []byte {
	var out []byte
	for len(b) > 0 {
		num, typ, n := protowire.ConsumeTag(b)
		if n < 0 {
			return append(out, b...)
		}
		m := protowire.ConsumeFieldValue(num, typ, b[n:])
		if m < 0 {
			return append(out, b...)
		}
		out = protowire.AppendTag(out, num, typ)
		out = append(out, b[n:n+m]...)
		b = b[n+m:]
	}
	return out
}
