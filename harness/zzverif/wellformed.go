//go:build verif

package main

import (
	"google.golang.org/protobuf/encoding/protowire"
)

// wellFormed is the independent well-formedness predicate of C05, built on
// protobuf-go's protowire (not on picobuf's clone): the input is, recursively
// through every known sub-message, map entry and packed payload, a complete
// sequence of fields with valid numbers, complete values, balanced groups and a
// wire type acceptable for every field the schema knows.
func (u *Universe) wellFormed(ti *TypeInfo, data []byte) bool {
	msg := &ti.S.Msgs[ti.MI]
	byNum := map[int32]*Field{}
	for i := range msg.Fields {
		byNum[msg.Fields[i].Num] = &msg.Fields[i]
	}
	for len(data) > 0 {
		num, typ, n := protowire.ConsumeTag(data)
		if n < 0 || num > protowire.MaxValidNumber {
			return false
		}
		data = data[n:]
		m := protowire.ConsumeFieldValue(num, typ, data)
		if m < 0 {
			return false
		}
		val := data[:m]
		data = data[m:]
		f := byNum[int32(num)]
		if f == nil {
			continue
		}
		if !u.fieldValueOK(ti, f, typ, val) {
			return false
		}
	}
	return true
}

func scalarWireOK(k Kind, typ protowire.Type) bool {
	if k == KEnum {
		k = KInt32
	}
	return wireOfKind(k) == typ
}

func packedOK(k Kind, p []byte) bool {
	if k == KEnum {
		k = KInt32
	}
	w := wireOfKind(k)
	for len(p) > 0 {
		m := protowire.ConsumeFieldValue(1, w, p)
		if m < 0 {
			return false
		}
		p = p[m:]
	}
	return true
}

func (u *Universe) fieldValueOK(ti *TypeInfo, f *Field, typ protowire.Type, val []byte) bool {
	switch {
	case f.Custom == CTimestamp || f.Custom == CDuration:
		if typ != protowire.BytesType {
			return false
		}
		p, _ := protowire.ConsumeBytes(val)
		return secNanosOK(p)
	case f.Custom == COpaque:
		return true // no claim
	case f.IsMap:
		if typ != protowire.BytesType {
			return false
		}
		p, _ := protowire.ConsumeBytes(val)
		for len(p) > 0 {
			num, t2, n := protowire.ConsumeTag(p)
			if n < 0 || num > protowire.MaxValidNumber {
				return false
			}
			m := protowire.ConsumeFieldValue(num, t2, p[n:])
			if m < 0 {
				return false
			}
			if num == 1 && !scalarWireOK(f.MapKey, t2) {
				return false
			}
			if num == 2 && !scalarWireOK(f.MapVal, t2) {
				return false
			}
			p = p[n+m:]
		}
		return true
	case f.Kind == KMsg:
		if typ != protowire.BytesType {
			return false
		}
		p, _ := protowire.ConsumeBytes(val)
		return u.wellFormed(u.typeFor(ti.S, f.Msg), p)
	default:
		if scalarWireOK(f.Kind, typ) {
			return true
		}
		if f.Label == LRepeated && typ == protowire.BytesType && f.Kind != KString && f.Kind != KBytes {
			p, _ := protowire.ConsumeBytes(val)
			return packedOK(f.Kind, p)
		}
		return false
	}
}

func secNanosOK(p []byte) bool {
	for len(p) > 0 {
		num, t2, n := protowire.ConsumeTag(p)
		if n < 0 || num > protowire.MaxValidNumber {
			return false
		}
		m := protowire.ConsumeFieldValue(num, t2, p[n:])
		if m < 0 {
			return false
		}
		if (num == 1 || num == 2) && t2 != protowire.VarintType {
			return false
		}
		p = p[n+m:]
	}
	return true
}
