//go:build verif

package main

import (
	"encoding/hex"
	"fmt"
	"math/big"
	"sort"
	"strings"
)

// Val mirrors the Coq `val` universe (DESIGN.md 3.1). One Val per field slot.
//
//	(i n)            scalar: Go value as integer (floats: IEEE bit pattern; bool 0/1)
//	(b x<hex>)       string/bytes (nil == empty)
//	(o) (o v)        optional pointer / oneof scalar member
//	(l v...)         repeated (nil == empty)
//	(m) (m (v...) x<unrec>)   pointer message: nil / present
//	(e (v...) x<unrec>)       always-present (embedded) message
//	(p (k v)...)     map, sorted by key for comparison (nil == empty)
//	(t sec nsec)     time.Time (UTC instant)   (d ns) time.Duration
type Val struct {
	T    byte // 'i','b','o','l','m','e','p','t','d'
	I    *big.Int
	I2   *big.Int // nsec for 't'
	B    []byte
	Some bool   // for 'o','m'
	L    []*Val // 'o': 0/1 elem; 'l': elems; 'm'/'e': fields; 'p': k0,v0,k1,v1...
	U    []byte // unrecognized bytes of 'm'/'e'
}

func vInt(x int64) *Val   { return &Val{T: 'i', I: big.NewInt(x)} }
func vUint(x uint64) *Val { return &Val{T: 'i', I: new(big.Int).SetUint64(x)} }
func vBytes(b []byte) *Val {
	return &Val{T: 'b', B: append([]byte{}, b...)}
}
func vNone() *Val         { return &Val{T: 'o'} }
func vSome(v *Val) *Val   { return &Val{T: 'o', Some: true, L: []*Val{v}} }
func vList(l []*Val) *Val { return &Val{T: 'l', L: l} }
func vNilMsg() *Val       { return &Val{T: 'm'} }
func vMsg(fs []*Val, u []byte) *Val {
	return &Val{T: 'm', Some: true, L: fs, U: append([]byte{}, u...)}
}
func vEmb(fs []*Val, u []byte) *Val {
	return &Val{T: 'e', Some: true, L: fs, U: append([]byte{}, u...)}
}
func vMap(kv []*Val) *Val        { return &Val{T: 'p', L: kv} }
func vTime(sec, nsec int64) *Val { return &Val{T: 't', I: big.NewInt(sec), I2: big.NewInt(nsec)} }
func vDur(ns int64) *Val         { return &Val{T: 'd', I: big.NewInt(ns)} }

func (v *Val) String() string {
	var b strings.Builder
	v.write(&b)
	return b.String()
}

func (v *Val) write(b *strings.Builder) {
	switch v.T {
	case 'i':
		b.WriteString("(i ")
		b.WriteString(v.I.String())
		b.WriteByte(')')
	case 'd':
		b.WriteString("(d ")
		b.WriteString(v.I.String())
		b.WriteByte(')')
	case 't':
		fmt.Fprintf(b, "(t %s %s)", v.I, v.I2)
	case 'b':
		b.WriteString("(b x")
		b.WriteString(hex.EncodeToString(v.B))
		b.WriteByte(')')
	case 'o':
		if !v.Some {
			b.WriteString("(o)")
		} else {
			b.WriteString("(o ")
			v.L[0].write(b)
			b.WriteByte(')')
		}
	case 'l':
		b.WriteString("(l")
		for _, e := range v.L {
			b.WriteByte(' ')
			e.write(b)
		}
		b.WriteByte(')')
	case 'm', 'e':
		if v.T == 'm' && !v.Some {
			b.WriteString("(m)")
			return
		}
		b.WriteByte('(')
		b.WriteByte(v.T)
		b.WriteString(" (")
		for i, e := range v.L {
			if i > 0 {
				b.WriteByte(' ')
			}
			e.write(b)
		}
		b.WriteString(") x")
		b.WriteString(hex.EncodeToString(v.U))
		b.WriteByte(')')
	case 'p':
		b.WriteString("(p")
		for i := 0; i+1 < len(v.L); i += 2 {
			b.WriteString(" (")
			v.L[i].write(b)
			b.WriteByte(' ')
			v.L[i+1].write(b)
			b.WriteByte(')')
		}
		b.WriteByte(')')
	default:
		b.WriteString("(?)")
	}
}

// sortMap sorts map entries by the key's canonical string (integers numerically).
func (v *Val) sortMaps() {
	for _, e := range v.L {
		if e != nil {
			e.sortMaps()
		}
	}
	if v.T != 'p' {
		return
	}
	n := len(v.L) / 2
	idx := make([]int, n)
	for i := range idx {
		idx[i] = i
	}
	less := func(a, b *Val) bool {
		if a.T == 'i' && b.T == 'i' {
			return a.I.Cmp(b.I) < 0
		}
		return string(a.B) < string(b.B)
	}
	sort.SliceStable(idx, func(i, j int) bool { return less(v.L[2*idx[i]], v.L[2*idx[j]]) })
	out := make([]*Val, 0, len(v.L))
	for _, i := range idx {
		out = append(out, v.L[2*i], v.L[2*i+1])
	}
	v.L = out
}

// ---- parsing -------------------------------------------------------------

type sx struct {
	atom string
	list []*sx
	isL  bool
}

func parseSx(s string) (*sx, error) {
	p := 0
	var rec func() (*sx, error)
	skip := func() {
		for p < len(s) && (s[p] == ' ' || s[p] == '\n' || s[p] == '\t') {
			p++
		}
	}
	rec = func() (*sx, error) {
		skip()
		if p >= len(s) {
			return nil, fmt.Errorf("unexpected end")
		}
		if s[p] == '(' {
			p++
			n := &sx{isL: true}
			for {
				skip()
				if p >= len(s) {
					return nil, fmt.Errorf("unclosed (")
				}
				if s[p] == ')' {
					p++
					return n, nil
				}
				c, err := rec()
				if err != nil {
					return nil, err
				}
				n.list = append(n.list, c)
			}
		}
		st := p
		for p < len(s) && s[p] != ' ' && s[p] != '(' && s[p] != ')' && s[p] != '\n' && s[p] != '\t' {
			p++
		}
		return &sx{atom: s[st:p]}, nil
	}
	r, err := rec()
	if err != nil {
		return nil, err
	}
	skip()
	if p != len(s) {
		return nil, fmt.Errorf("trailing input at %d", p)
	}
	return r, nil
}

func parseVal(s string) (*Val, error) {
	x, err := parseSx(s)
	if err != nil {
		return nil, err
	}
	return valOfSx(x)
}

func hexAtom(a string) ([]byte, error) {
	if !strings.HasPrefix(a, "x") {
		return nil, fmt.Errorf("bad hex atom %q", a)
	}
	return hex.DecodeString(a[1:])
}

func valOfSx(x *sx) (*Val, error) {
	if !x.isL || len(x.list) == 0 || x.list[0].isL {
		return nil, fmt.Errorf("bad val")
	}
	tag := x.list[0].atom
	args := x.list[1:]
	bigOf := func(a *sx) (*big.Int, error) {
		n, ok := new(big.Int).SetString(a.atom, 10)
		if !ok {
			return nil, fmt.Errorf("bad int %q", a.atom)
		}
		return n, nil
	}
	switch tag {
	case "i", "d":
		if len(args) != 1 {
			return nil, fmt.Errorf("bad %s", tag)
		}
		n, err := bigOf(args[0])
		if err != nil {
			return nil, err
		}
		return &Val{T: tag[0], I: n}, nil
	case "t":
		if len(args) != 2 {
			return nil, fmt.Errorf("bad t")
		}
		a, err := bigOf(args[0])
		if err != nil {
			return nil, err
		}
		b, err := bigOf(args[1])
		if err != nil {
			return nil, err
		}
		return &Val{T: 't', I: a, I2: b}, nil
	case "b":
		if len(args) != 1 {
			return nil, fmt.Errorf("bad b")
		}
		h, err := hexAtom(args[0].atom)
		if err != nil {
			return nil, err
		}
		return &Val{T: 'b', B: h}, nil
	case "o":
		if len(args) == 0 {
			return vNone(), nil
		}
		v, err := valOfSx(args[0])
		if err != nil {
			return nil, err
		}
		return vSome(v), nil
	case "l":
		out := &Val{T: 'l'}
		for _, a := range args {
			v, err := valOfSx(a)
			if err != nil {
				return nil, err
			}
			out.L = append(out.L, v)
		}
		return out, nil
	case "m", "e":
		if len(args) == 0 && tag == "m" {
			return vNilMsg(), nil
		}
		if len(args) != 2 || !args[0].isL {
			return nil, fmt.Errorf("bad %s", tag)
		}
		out := &Val{T: tag[0], Some: true}
		for _, a := range args[0].list {
			v, err := valOfSx(a)
			if err != nil {
				return nil, err
			}
			out.L = append(out.L, v)
		}
		u, err := hexAtom(args[1].atom)
		if err != nil {
			return nil, err
		}
		out.U = u
		return out, nil
	case "p":
		out := &Val{T: 'p'}
		for _, a := range args {
			if !a.isL || len(a.list) != 2 {
				return nil, fmt.Errorf("bad map entry")
			}
			k, err := valOfSx(a.list[0])
			if err != nil {
				return nil, err
			}
			v, err := valOfSx(a.list[1])
			if err != nil {
				return nil, err
			}
			out.L = append(out.L, k, v)
		}
		return out, nil
	}
	return nil, fmt.Errorf("unknown val tag %q", tag)
}
