//go:build verif

package main

import (
	"sort"

	"google.golang.org/protobuf/encoding/protowire"
)

// sortRecords neutralises protobuf-go's field order quirk (oneof members are
// emitted after all other fields): top-level records are stably sorted by field
// number, recursively inside known sub-message fields. Malformed input is
// returned unchanged. Unknown fields keep their relative order but are moved to
// where a stable sort by number puts them only for non-capturing messages; for a
// capturing message they stay last (that is where both implementations put them).
func sortRecords(u *Universe, ti *TypeInfo, b []byte) []byte {
	type rec struct {
		num   protowire.Number
		raw   []byte
		known bool
	}
	msg := &ti.S.Msgs[ti.MI]
	byNum := map[int32]*Field{}
	for i := range msg.Fields {
		byNum[msg.Fields[i].Num] = &msg.Fields[i]
	}
	var recs []rec
	rest := b
	for len(rest) > 0 {
		num, typ, n := protowire.ConsumeField(rest)
		if n < 0 {
			return b
		}
		raw := rest[:n]
		f := byNum[int32(num)]
		if f != nil && f.Kind == KMsg && !f.IsMap && f.Custom == CNone && typ == protowire.BytesType {
			num2, _, tagLen := protowire.ConsumeTag(raw)
			payload, m := protowire.ConsumeBytes(raw[tagLen:])
			if m >= 0 {
				sub := u.typeFor(ti.S, f.Msg)
				sorted := sortRecords(u, sub, payload)
				nr := protowire.AppendTag(nil, num2, protowire.BytesType)
				nr = protowire.AppendBytes(nr, sorted)
				raw = nr
			}
		}
		recs = append(recs, rec{num: num, raw: raw, known: f != nil})
		rest = rest[n:]
	}
	sort.SliceStable(recs, func(i, j int) bool {
		if recs[i].known != recs[j].known {
			return recs[i].known // unknown last
		}
		if !recs[i].known {
			return false // keep unknown order
		}
		return recs[i].num < recs[j].num
	})
	out := make([]byte, 0, len(b))
	for _, r := range recs {
		out = append(out, r.raw...)
	}
	return out
}
