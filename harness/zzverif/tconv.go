//go:build verif

package main

import (
	"bufio"
	"fmt"
	"go/ast"
	"go/importer"
	"go/parser"
	"go/token"
	"go/types"
	"path/filepath"
	"strings"
)

// T-conv: translates the straight-line integer functions of conv.go and wire.go into
// Coq terms over Z, with the Go type of every sub-expression deciding the wrap-around
// width and the kind of shift. Anything outside the subset becomes `untranslatable`.
//
// tconv -> lines:  conv <coqname> <param> <coq term>   |   convuntranslatable <coqname> <reason>

type tconvTarget struct {
	file, fn, coq string
}

var tconvTargets = []tconvTarget{
	{"conv.go", "encodeZigZag32", "gen_encode_zigzag32"},
	{"conv.go", "decodeZigZag32", "gen_decode_zigzag32"},
	{"internal/protowire/wire.go", "EncodeZigZag", "gen_encode_zigzag64"},
	{"internal/protowire/wire.go", "DecodeZigZag", "gen_decode_zigzag64"},
}

func intWidth(t types.Type) (w int, signed bool, ok bool) {
	b, isB := t.Underlying().(*types.Basic)
	if !isB {
		return 0, false, false
	}
	switch b.Kind() {
	case types.Int8:
		return 8, true, true
	case types.Int16:
		return 16, true, true
	case types.Int32:
		return 32, true, true
	case types.Int64, types.Int:
		return 64, true, true
	case types.Uint8:
		return 8, false, true
	case types.Uint16:
		return 16, false, true
	case types.Uint32:
		return 32, false, true
	case types.Uint64, types.Uint:
		return 64, false, true
	case types.UntypedInt:
		return 0, true, true
	}
	return 0, false, false
}

func wrapCoq(w int, signed bool, e string) string {
	if w == 0 {
		return e
	}
	if signed {
		return fmt.Sprintf("(s %d %s)", w, e)
	}
	return fmt.Sprintf("(u %d %s)", w, e)
}

func tconvExpr(info *types.Info, e ast.Expr) (string, error) {
	switch x := e.(type) {
	case *ast.ParenExpr:
		return tconvExpr(info, x.X)
	case *ast.Ident:
		return x.Name, nil
	case *ast.BasicLit:
		if x.Kind != token.INT {
			return "", fmt.Errorf("literal %s", x.Value)
		}
		return x.Value, nil
	case *ast.CallExpr:
		// conversion T(e)
		if tv, ok := info.Types[x.Fun]; ok && tv.IsType() && len(x.Args) == 1 {
			w, sg, ok := intWidth(tv.Type)
			if !ok {
				return "", fmt.Errorf("conversion to %s", tv.Type)
			}
			a, err := tconvExpr(info, x.Args[0])
			if err != nil {
				return "", err
			}
			return wrapCoq(w, sg, a), nil
		}
		return "", fmt.Errorf("call")
	case *ast.BinaryExpr:
		a, err := tconvExpr(info, x.X)
		if err != nil {
			return "", err
		}
		b, err := tconvExpr(info, x.Y)
		if err != nil {
			return "", err
		}
		tv := info.Types[e]
		w, sg, ok := intWidth(tv.Type)
		if !ok {
			return "", fmt.Errorf("binary on %s", tv.Type)
		}
		switch x.Op {
		case token.SHL:
			return wrapCoq(w, sg, fmt.Sprintf("(Z.shiftl %s %s)", a, b)), nil
		case token.SHR:
			// arithmetic on signed, logical on unsigned: both are Z.shiftr on the value
			return fmt.Sprintf("(Z.shiftr %s %s)", a, b), nil
		case token.XOR:
			return fmt.Sprintf("(Z.lxor %s %s)", a, b), nil
		case token.OR:
			return fmt.Sprintf("(Z.lor %s %s)", a, b), nil
		case token.AND:
			return fmt.Sprintf("(Z.land %s %s)", a, b), nil
		}
		return "", fmt.Errorf("operator %s", x.Op)
	}
	return "", fmt.Errorf("expression %T", e)
}

func init() {
	register("tconv", func(args []string, out *bufio.Writer) error {
		byFile := map[string][]tconvTarget{}
		for _, t := range tconvTargets {
			byFile[t.file] = append(byFile[t.file], t)
		}
		for file, targets := range byFile {
			fset := token.NewFileSet()
			path := filepath.Join(repoRoot(), file)
			f, err := parser.ParseFile(fset, path, nil, 0)
			if err != nil {
				for _, t := range targets {
					fmt.Fprintf(out, "convuntranslatable\t%s\tparse: %s\n", t.coq, oneLine(err.Error()))
				}
				continue
			}
			// type-check this one file; imported packages come from source; unresolved identifiers of
			// sibling files are tolerated (errors ignored), the target functions are self-contained
			info := &types.Info{Types: map[ast.Expr]types.TypeAndValue{}}
			conf := types.Config{Importer: importer.ForCompiler(fset, "source", nil), Error: func(error) {}}
			_, _ = conf.Check(f.Name.Name, fset, []*ast.File{f}, info)
			for _, t := range targets {
				var fd *ast.FuncDecl
				for _, d := range f.Decls {
					if x, ok := d.(*ast.FuncDecl); ok && x.Recv == nil && x.Name.Name == t.fn {
						fd = x
					}
				}
				if fd == nil {
					fmt.Fprintf(out, "convuntranslatable\t%s\tfunction %s not found\n", t.coq, t.fn)
					continue
				}
				if len(fd.Type.Params.List) != 1 || len(fd.Type.Params.List[0].Names) != 1 || len(fd.Body.List) != 1 {
					fmt.Fprintf(out, "convuntranslatable\t%s\tnot a single-parameter, single-return function\n", t.coq)
					continue
				}
				ret, ok := fd.Body.List[0].(*ast.ReturnStmt)
				if !ok || len(ret.Results) != 1 {
					fmt.Fprintf(out, "convuntranslatable\t%s\tbody is not one return statement\n", t.coq)
					continue
				}
				term, err := tconvExpr(info, ret.Results[0])
				if err != nil {
					fmt.Fprintf(out, "convuntranslatable\t%s\t%s\n", t.coq, strings.ReplaceAll(err.Error(), "\t", " "))
					continue
				}
				fmt.Fprintf(out, "conv\t%s\t%s\t%s\n", t.coq, fd.Type.Params.List[0].Names[0].Name, term)
			}
		}
		return nil
	})
}
