//go:build verif

package main

import (
	"bufio"
	"bytes"
	"encoding/hex"
	"fmt"
	"os"
	"reflect"
	"sort"
	"strconv"
	"strings"
	"sync"
	"syscall"
	"time"

	"google.golang.org/protobuf/proto"
	"google.golang.org/protobuf/types/dynamicpb"

	"storj.io/picobuf"
)

// abortingMessage: a hand-written message whose Encode writes a field and then panics (user code may; the caller
// recovers). What such a call leaves behind must not leak into the next one.
type abortingMessage struct{}

func (abortingMessage) Encode(c *picobuf.Encoder) bool {
	v := int64(-7)
	c.AlwaysInt64(2047, &v)
	s := "aborted aborted aborted"
	c.AlwaysString(2046, &s)
	panic("abortingMessage")
}
func (abortingMessage) Decode(c *picobuf.Decoder) {}

var marshalCalls int

func safeMarshal(m picobuf.Message) (b []byte, panicked string) {
	defer func() {
		if r := recover(); r != nil {
			panicked = fmt.Sprint(r)
		}
	}()
	marshalCalls++
	if marshalCalls%3 == 0 {
		// every third Marshal comes right after one that was aborted by a panic in user code (a period of three: the suites
		// alternate large and small messages, and neither kind may always be the one that follows the aborted call)
		func() {
			defer func() { _ = recover() }()
			_, _ = picobuf.Marshal(abortingMessage{})
		}()
	}
	b, err := picobuf.Marshal(m)
	if err != nil {
		return nil, "error: " + err.Error()
	}
	return b, ""
}

// safeUnmarshal returns "ok", "err:<text>" or "PANIC:<text>".
// hangLimit: a single Marshal/Unmarshal call that runs longer than this is reported as non-terminating
// (the largest generated inputs take milliseconds). A Go goroutine cannot be killed, so the driver reports
// the input on stderr and exits with status 97; the check turns that into a violation with this input as replay.
const hangLimit = 25 * time.Second

// cpuSeconds: CPU time (user + system) this process has used so far
func cpuSeconds() float64 {
	var ru syscall.Rusage
	if err := syscall.Getrusage(syscall.RUSAGE_SELF, &ru); err != nil {
		return 0
	}
	return float64(ru.Utime.Sec+ru.Stime.Sec) + float64(ru.Utime.Usec+ru.Stime.Usec)/1e6
}

// waitOrHang waits for the call to finish. A call that is still running after hangLimit of wall-clock time is reported as
// non-terminating only if the process has also burnt 20 s of CPU since the call started (a spinning decoder does; a process
// starved on an overloaded machine does not - the first version of this watchdog raised a false alarm on a 10 ms input
// while 30 processes competed for 16 cores); without CPU progress the wait goes on, up to 20 minutes.
func waitOrHang(done chan string) (string, bool) {
	cpu0 := cpuSeconds()
	deadline := time.Now().Add(20 * time.Minute)
	for {
		select {
		case res := <-done:
			return res, true
		case <-time.After(hangLimit):
			if cpuSeconds()-cpu0 >= 20 || time.Now().After(deadline) {
				return "", false
			}
		}
	}
}

func reportHang(what string, m interface{}, data []byte) {
	fmt.Fprintf(os.Stderr, "VERIF-HANG\t%s\t%T\tx%s\n", what, m, hex.EncodeToString(data))
	os.Exit(97)
}

// heldErrors: the errors Unmarshal returned recently, kept as a caller collecting the failures of a batch keeps them, with
// the text each had when it was returned. An error value is the caller's from then on: later calls must not rewrite it.
var heldErrors struct {
	sync.Mutex
	errs  []error
	texts []string
}

func holdError(err error) {
	heldErrors.Lock()
	defer heldErrors.Unlock()
	if len(heldErrors.errs) >= 8 {
		heldErrors.errs, heldErrors.texts = heldErrors.errs[1:], heldErrors.texts[1:]
	}
	heldErrors.errs, heldErrors.texts = append(heldErrors.errs, err), append(heldErrors.texts, err.Error())
}

// staleError reports a held error whose text is no longer what it was when Unmarshal returned it ("" if none)
func staleError() (res string) {
	heldErrors.Lock()
	defer heldErrors.Unlock()
	defer func() {
		if rr := recover(); rr != nil {
			res = "PANIC in Error() of a held error"
		}
	}()
	for i, e := range heldErrors.errs {
		if now := e.Error(); now != heldErrors.texts[i] {
			was := heldErrors.texts[i]
			heldErrors.texts[i] = now
			return fmt.Sprintf("was %q, now %q", was, now)
		}
	}
	return ""
}

func safeUnmarshal(data []byte, m picobuf.Message) (res string) {
	done := make(chan string, 1)
	go func() {
		r := ""
		defer func() {
			if rr := recover(); rr != nil {
				r = "PANIC:" + strings.ReplaceAll(fmt.Sprint(rr), "\t", " ")
			}
			done <- r
		}()
		if len(data)%2 == 0 {
			// half of the calls come right after a rejected input (same goroutine, same message type): what an earlier
			// call left behind - in the package, in a pool - must not leak into this one
			if rt := reflect.TypeOf(m); rt.Kind() == reflect.Ptr {
				if scratch, ok := reflect.New(rt.Elem()).Interface().(picobuf.Message); ok {
					_ = picobuf.Unmarshal([]byte{0x80}, scratch)
				}
			}
		}
		if err := picobuf.Unmarshal(data, m); err != nil {
			r = "err:" + strings.ReplaceAll(err.Error(), "\t", " ")
			holdError(err)
			return
		}
		r = "ok"
	}()
	if r, ok := waitOrHang(done); ok {
		return r
	}
	reportHang("Unmarshal", m, data)
	return "HANG"
}

func emitSchemas(u *Universe, out *bufio.Writer) {
	names := []string{}
	for n := range u.Schemas {
		names = append(names, n)
	}
	sort.Strings(names)
	for _, n := range names {
		fmt.Fprintf(out, "schema\t%s\t%s\n", n, u.Schemas[n].sexp())
	}
}

func (u *Universe) usableTypes(filter func(*TypeInfo) bool) []*TypeInfo {
	var out []*TypeInfo
	for _, k := range u.Order {
		ti := u.Types[k]
		if ti.S.hasOpaque(ti.MI) {
			continue
		}
		if filter != nil && !filter(ti) {
			continue
		}
		out = append(out, ti)
	}
	return out
}

func typeRef(ti *TypeInfo) string { return fmt.Sprintf("%s:%d", ti.S.File.GetName(), ti.MI) }

// oracleParse parses bytes with the reference implementation and renders the Val.
func (u *Universe) oracleParse(ti *TypeInfo, data []byte) (*Val, string) {
	dm := dynamicpb.NewMessage(u.oracleDesc(ti))
	if err := proto.Unmarshal(data, dm); err != nil {
		return nil, "err:" + strings.ReplaceAll(err.Error(), "\t", " ")
	}
	v, err := u.fromDyn(ti, dm, 'm')
	if err != nil {
		return nil, "convert:" + err.Error()
	}
	return v, "ok"
}

func (u *Universe) oracleRemarshal(ti *TypeInfo, data []byte) ([]byte, error) {
	dm := dynamicpb.NewMessage(u.oracleDesc(ti))
	if err := proto.Unmarshal(data, dm); err != nil {
		return nil, err
	}
	return proto.MarshalOptions{Deterministic: true}.Marshal(dm)
}

// msgCase runs one message value through Marshal / oracle parse / round trip.
// Columns: msg, typeref, goType, val, implbytes|PANIC, flags, detail
func (u *Universe) msgCase(out *bufio.Writer, ti *TypeInfo, v *Val, o buildOpts) {
	want := normMsg(v, ti)
	flags := []string{}
	detail := []string{}
	m, err := u.build(ti, v, o)
	if err != nil {
		fmt.Fprintf(out, "msg\t%s\t%s\t%s\tHARNESS\tbuild:%v\t\n", typeRef(ti), ti.Key, v, err)
		return
	}
	// half of the cases carry their time.Time values in a non-UTC location (time.Now()/time.Unix() do)
	var twin interface{}
	if zone := len(v.String()) % 4; zone >= 2 {
		if tw, err := u.build(ti, v, o); err == nil {
			twin = tw
			localizeTimes(reflect.ValueOf(m).Elem(), zone == 2)
			localizeTimes(reflect.ValueOf(twin).Elem(), zone == 2)
		}
	}
	// generated accessors (plugin parameter field_access=true): Get<Field>() = the field, zero value for a nil receiver
	if g, why := u.getterCheck(ti, m); g != "na" {
		flags = append(flags, "get="+g)
		if why != "" {
			detail = append(detail, "getter: "+why)
		}
	}
	before, _ := u.read(ti, m)
	data, pan := safeMarshal(m)
	if pan != "" {
		fmt.Fprintf(out, "msg\t%s\t%s\t%s\tPANIC\tc01=bad\t%s\n", typeRef(ti), ti.Key, v, pan)
		return
	}
	after, _ := u.read(ti, m)
	// the bytes Marshal returns belong to the caller: overwriting them (and their spare capacity) must not reach into the
	// message (a result that aliases one of the message's own slices would)
	if pan == "" {
		kept := append([]byte{}, data...)
		full := data[:cap(data)]
		for i := range full {
			full[i] ^= 0xff
		}
		if scribbled, err := u.read(ti, m); err == nil && scribbled.String() != after.String() {
			after = scribbled
			detail = append(detail, "message changed when the bytes returned by Marshal were overwritten")
		}
		data = kept
	}
	if before.String() != after.String() {
		flags = append(flags, "immut=bad")
		detail = append(detail, "after-marshal="+after.String())
	} else if twin != nil && !sameTimes(reflect.ValueOf(m), reflect.ValueOf(twin)) {
		flags = append(flags, "immut=bad")
		detail = append(detail, "after-marshal: a time.Time of the message was rewritten (location/monotonic reading)")
	} else {
		flags = append(flags, "immut=ok")
	}
	// C01: reference parse of the bytes gives the same values and presence
	ov, ost := u.oracleParse(ti, data)
	wantQ := quietMsg(want, ti)
	if ost == "ok" && ov.String() == wantQ.String() {
		flags = append(flags, "c01=ok")
	} else {
		flags = append(flags, "c01=bad")
		if ost != "ok" {
			detail = append(detail, "oracle-parse="+ost)
		} else {
			detail = append(detail, "oracle-parse-val="+ov.String())
		}
	}
	// C08: presence skeleton as seen by the reference implementation
	if ost == "ok" && skeleton(ov) == skeleton(wantQ) {
		flags = append(flags, "c08o=ok")
	} else {
		flags = append(flags, "c08o=bad")
	}
	// C03: round trip
	fresh := ti.New()
	st := safeUnmarshal(data, fresh)
	rv, rerr := u.read(ti, fresh)
	if st == "ok" && rerr == nil && rv.String() == want.String() {
		flags = append(flags, "c03=ok")
	} else {
		flags = append(flags, "c03=bad")
		if st != "ok" {
			detail = append(detail, "unmarshal="+st)
		} else if rerr == nil {
			detail = append(detail, "roundtrip-val="+rv.String())
		}
	}
	if st == "ok" && rerr == nil && skeleton(rv) == skeleton(want) {
		flags = append(flags, "c08r=ok")
	} else {
		flags = append(flags, "c08r=bad")
	}
	// C06, last clause: "the same message always yields the same bytes" - a second Marshal of the same value, through a
	// recycled buffer whose spare capacity holds stale non-zero bytes, gives the same bytes (map-free types: map order may differ)
	sameBytes := true
	if !ti.S.hasMap(ti.MI) {
		dirty := bytes.Repeat([]byte{0xbb, 0x01}, len(data)/2+40)
		func() {
			defer func() {
				if recover() != nil {
					sameBytes = false
				}
			}()
			again, err := picobuf.MarshalBuffer(m, dirty)
			if err != nil || !bytes.Equal(again, data) {
				sameBytes = false
				detail = append(detail, "marshal-into-recycled-buffer="+hex.EncodeToString(again))
			}
		}()
	}
	// C06: bytes equal the deterministic serialisation of the message they denote
	if !sameBytes {
		flags = append(flags, "c06=bad")
	} else if want.String() != wantQ.String() {
		flags = append(flags, "c06=na") // float32 signalling NaN: not representable in the reference reflection API
	} else if !ti.S.noRefBytes(ti.MI) {
		re, err := u.oracleRemarshal(ti, data)
		switch {
		case err != nil:
			flags = append(flags, "c06=bad")
			detail = append(detail, "remarshal-err="+err.Error())
		case bytes.Equal(sortRecords(u, ti, re), sortRecords(u, ti, data)) && bytes.Equal(data, sortRecords(u, ti, data)):
			flags = append(flags, "c06=ok")
		default:
			flags = append(flags, "c06=bad")
			detail = append(detail, "remarshal="+hex.EncodeToString(re))
		}
	} else {
		flags = append(flags, "c06=na")
	}
	// reference encoding of the value (validates the Coq ref_encode)
	refb := "-"
	if ti.S.noRefBytes(ti.MI) {
		// protobuf-go always writes both key and value of a map entry, picobuf omits defaults:
		// both are valid, so reference *bytes* are only compared for map-free types (C06's domain)
	} else if dm, err := u.toDyn(ti, wantQ); err == nil {
		if rb, err := (proto.MarshalOptions{Deterministic: true}).Marshal(dm); err == nil {
			refb = "x" + hex.EncodeToString(sortRecords(u, ti, rb))
		}
	}
	if want.String() != wantQ.String() {
		refb = "-" // float32 signalling NaN: the reference API quiets it
	}
	if ti.S.hasMap(ti.MI) {
		u.reorderMaps(ti, v, data) // instantiate the model's entry order with the observed one
	}
	fmt.Fprintf(out, "msg\t%s\t%s\t%s\tx%s\t%s\t%s\t%s\n", typeRef(ti), ti.Key, v, hex.EncodeToString(data),
		strings.Join(flags, ","), strings.Join(detail, ";"), refb)
}

func init() {
	// msg <seed> <n> [typefilter]
	register("msg", func(args []string, out *bufio.Writer) error {
		seed, _ := strconv.ParseUint(args[0], 10, 64)
		n, _ := strconv.Atoi(args[1])
		filter := ""
		if len(args) > 2 {
			filter = args[2]
		}
		u, err := loadUniverse()
		if err != nil {
			return err
		}
		emitSchemas(u, out)
		types := u.usableTypes(func(ti *TypeInfo) bool { return filter == "" || strings.Contains(ti.Key, filter) })
		if len(types) == 0 {
			return fmt.Errorf("no usable types")
		}
		r := newRng(seed)
		// exact sizes: for the first type with a plain string/bytes field, results of every length in windows around 128, 256, 512,
		// 1024, 2048 and 4096 bytes (what a scratch buffer, a pool class or a size-class of the allocator would hold exactly),
		// each followed by a small message - a call that ends exactly at a capacity must leave nothing behind for the next one
		swept := 0
		for _, ti := range types {
			if swept >= 5 {
				break // five types: whether a call can end exactly at a capacity depends on what the type writes after the string
			}
			hv := u.hugeValue(ti, 1, false)
			if hv == nil {
				continue
			}
			swept++
			small := u.hugeValue(ti, 3, false)
			for n := 100; n <= 300; n++ { // every length from 100 to 300 while the process is young (first scratch buffers)
				u.msgCase(out, ti, u.hugeValue(ti, n, false), buildOpts{})
				u.msgCase(out, ti, small, buildOpts{})
			}
			for _, centre := range []int{512, 1024, 2048, 4096} {
				for n := centre - 12; n <= centre+3; n++ {
					u.msgCase(out, ti, u.hugeValue(ti, n, false), buildOpts{})
					u.msgCase(out, ti, small, buildOpts{})
				}
			}
		}
		for i := 0; i < n; i++ {
			ti := types[i%len(types)]
			cr := r.fork()
			v := u.genMsgCapped(cr, ti, genOpts{depth: 3, unknownOK: true})
			u.msgCase(out, ti, v, buildOpts{emptyNonNil: cr.intn(4) == 0})
		}
		// the four-byte length class: a string/bytes field of 2 MiB (+-1) directly in a message and inside a sub-message, for up to
		// three types that have one (implementation against the reference implementation; the model skips these rows)
		huge := 0
		for _, nested := range []bool{true, false} {
			for _, ti := range types {
				if huge >= 3 || (!nested && huge >= 3) {
					break
				}
				if v := u.hugeValue(ti, 1<<21-1+huge, nested); v != nil {
					u.msgCase(out, ti, v, buildOpts{})
					huge++
					if !nested {
						break
					}
				}
				if nested && huge >= 2 {
					break
				}
			}
		}
		return nil
	})
	// msg-one <typekey> <val>
	register("msg-one", func(args []string, out *bufio.Writer) error {
		u, err := loadUniverse()
		if err != nil {
			return err
		}
		ti := u.Types[args[0]]
		if ti == nil {
			return fmt.Errorf("unknown type %s; known: %v", args[0], u.Order)
		}
		v, err := parseVal(args[1])
		if err != nil {
			return err
		}
		emitSchemas(u, out)
		u.msgCase(out, ti, v, buildOpts{})
		return nil
	})
	register("types", func(args []string, out *bufio.Writer) error {
		u, err := loadUniverse()
		if err != nil {
			return err
		}
		for _, k := range u.Order {
			ti := u.Types[k]
			shapes := []string{}
			for _, sh := range ti.Shapes {
				if sh == nil {
					shapes = append(shapes, "opaque")
				} else {
					shapes = append(shapes, sh.String())
				}
			}
			fmt.Fprintf(out, "%s\tcapture=%v ap=%v opaque=%v\t%s\n", k, ti.S.Msgs[ti.MI].Capture, ti.S.Msgs[ti.MI].AP, ti.S.hasOpaque(ti.MI), strings.Join(shapes, " "))
		}
		return nil
	})
}

// skeleton projects a value to what C08 talks about: nil-ness of pointers, selected
// oneof members, list lengths, map sizes; scalar contents erased.
func skeleton(v *Val) string {
	var b strings.Builder
	var rec func(v *Val)
	rec = func(v *Val) {
		switch v.T {
		case 'i', 'b', 't', 'd':
			b.WriteByte('_')
		case 'o':
			if !v.Some {
				b.WriteString("(o)")
			} else {
				b.WriteString("(o ")
				rec(v.L[0])
				b.WriteByte(')')
			}
		case 'l':
			b.WriteString("(l")
			for _, e := range v.L {
				b.WriteByte(' ')
				rec(e)
			}
			b.WriteByte(')')
		case 'p':
			fmt.Fprintf(&b, "(p%d)", len(v.L)/2)
		case 'm', 'e':
			if v.T == 'm' && !v.Some {
				b.WriteString("(nil)")
				return
			}
			// a present message of a field-less type must not look like a nil one
			b.WriteString("(present-")
			b.WriteByte(v.T)
			for _, e := range v.L {
				b.WriteByte(' ')
				rec(e)
			}
			b.WriteByte(')')
		}
	}
	rec(v)
	return b.String()
}
