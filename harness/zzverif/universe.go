//go:build verif

package main

import (
	"fmt"
	"os"
	"path/filepath"
	"sort"

	"google.golang.org/protobuf/reflect/protodesc"
	"google.golang.org/protobuf/reflect/protoreflect"
	"google.golang.org/protobuf/reflect/protoregistry"
	"google.golang.org/protobuf/types/descriptorpb"

	"storj.io/picobuf/internal/zzverif/protoparse"
)

func repoRoot() string {
	if r := os.Getenv("VERIF_REPO"); r != "" {
		return r
	}
	return "/repo"
}

// oracle side: descriptors with pico options stripped, for dynamicpb
type OracleFile struct {
	FD protoreflect.FileDescriptor
}

var oracleFiles = map[string]protoreflect.FileDescriptor{}

func loadUniverse() (*Universe, error) {
	u := &Universe{Schemas: map[string]*Schema{}, Types: map[string]*TypeInfo{}}
	picoFD, err := protoparse.ParseFile(filepath.Join(repoRoot(), "pico.proto"), "pico.proto")
	if err != nil {
		return nil, fmt.Errorf("pico.proto: %v", err)
	}
	for _, rf := range regFiles {
		p := rf.ProtoPath
		if !filepath.IsAbs(p) {
			p = filepath.Join(repoRoot(), p)
		}
		fd, err := protoparse.ParseFileWithDeps(p, rf.ProtoName, append([]*descriptorpb.FileDescriptorProto{picoFD}, wellKnown()...)...)
		if err != nil {
			return nil, fmt.Errorf("%s: %v", rf.ProtoPath, err)
		}
		s, err := buildSchema(fd)
		if err != nil {
			return nil, fmt.Errorf("%s: %v", rf.ProtoPath, err)
		}
		u.Schemas[rf.ProtoName] = s
		if err := registerOracle(fd); err != nil {
			return nil, fmt.Errorf("%s: oracle descriptor: %v", rf.ProtoPath, err)
		}
		for goName, ctor := range rf.New {
			mi := s.msgIndex(goName)
			if mi < 0 {
				continue // a Go type with Encode that is not a message of this file (e.g. oneof wrapper) - ignore
			}
			ti, err := newTypeInfo(s, mi, ctor)
			if err != nil {
				return nil, err
			}
			ti.Key = rf.ProtoName + ":" + goName
			u.Types[ti.Key] = ti
			u.Order = append(u.Order, ti.Key)
		}
	}
	sort.Strings(u.Order)
	for _, k := range u.Order {
		if err := u.computeShapes(u.Types[k]); err != nil {
			return nil, fmt.Errorf("%s: %v", k, err)
		}
	}
	return u, nil
}

func registerOracle(fd *descriptorpb.FileDescriptorProto) error {
	st := protoparse.StripPico(fd)
	// custom casts keep their declared message type ({int64 seconds; int32 nanos}); nothing to replace.
	f, err := protodesc.NewFile(st, protoregistry.GlobalFiles)
	if err != nil {
		// dependencies other than descriptor.proto are not expected
		return err
	}
	oracleFiles[fd.GetName()] = f
	return nil
}

func (u *Universe) oracleDesc(ti *TypeInfo) protoreflect.MessageDescriptor {
	f := oracleFiles[ti.S.File.GetName()]
	return findMsg(f, ti.S.Msgs[ti.MI].FullName)
}

func findMsg(f protoreflect.FileDescriptor, full string) protoreflect.MessageDescriptor {
	var rec func(ms protoreflect.MessageDescriptors) protoreflect.MessageDescriptor
	rec = func(ms protoreflect.MessageDescriptors) protoreflect.MessageDescriptor {
		for i := 0; i < ms.Len(); i++ {
			m := ms.Get(i)
			if string(m.FullName()) == full {
				return m
			}
			if r := rec(m.Messages()); r != nil {
				return r
			}
		}
		return nil
	}
	return rec(f.Messages())
}
