//go:build verif

package main

import (
	"google.golang.org/protobuf/encoding/protowire"
)

// unknownNumber picks a field number the message does not know.
func unknownNumber(r *rng, msg *Msg) protowire.Number {
	known := map[int32]bool{}
	for _, f := range msg.Fields {
		known[f.Num] = true
	}
	cands := []int32{1, 2, 3, 5, 15, 16, 17, 31, 63, 64, 100, 2047, 2048, 19000, 1 << 20, 1<<29 - 1}
	for _, f := range msg.Fields { // numbers that alias a known one modulo 64 (bit-mask wrap-around)
		if f.Num < 64 {
			cands = append(cands, f.Num+64, f.Num+128)
		}
	}
	for tries := 0; tries < 50; tries++ {
		var n int32
		if r.intn(3) == 0 {
			n = int32(1 + r.intn(70))
		} else {
			n = cands[r.intn(len(cands))]
		}
		if !known[n] {
			return protowire.Number(n)
		}
	}
	return protowire.Number(1<<29 - 1)
}

// genUnknownValue appends one well-formed field (tag+value) with number num.
func genUnknownValue(r *rng, b []byte, num protowire.Number, depth int) []byte {
	switch r.intn(6) {
	case 0, 1:
		b = protowire.AppendTag(b, num, protowire.VarintType)
		b = protowire.AppendVarint(b, r.u64()>>uint(r.intn(64)))
	case 2:
		b = protowire.AppendTag(b, num, protowire.Fixed32Type)
		b = protowire.AppendFixed32(b, uint32(r.u64()))
	case 3:
		b = protowire.AppendTag(b, num, protowire.Fixed64Type)
		b = protowire.AppendFixed64(b, r.u64())
	case 4:
		b = protowire.AppendTag(b, num, protowire.BytesType)
		n := []int{0, 1, 3, 10, 127, 128, 200}[r.intn(7)]
		p := make([]byte, n)
		for i := range p {
			p[i] = byte(r.u64())
		}
		b = protowire.AppendBytes(b, p)
	default:
		if depth <= 0 {
			b = protowire.AppendTag(b, num, protowire.VarintType)
			b = protowire.AppendVarint(b, 7)
			return b
		}
		b = protowire.AppendTag(b, num, protowire.StartGroupType)
		n := r.intn(3)
		for i := 0; i < n; i++ {
			b = genUnknownValue(r, b, protowire.Number(1+r.intn(40)), depth-1)
		}
		b = protowire.AppendTag(b, num, protowire.EndGroupType)
	}
	return b
}

func genUnknownFields(r *rng, msg *Msg, n int) []byte {
	var b []byte
	for i := 0; i < n; i++ {
		b = genUnknownValue(r, b, unknownNumber(r, msg), 2)
	}
	return b
}
