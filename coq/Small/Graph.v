(* Import-graph reachability (C07): a closed set containing the roots contains everything
   reachable from them; the set and its closedness are computed, soundness is proved once. *)
From Coq Require Import List Arith Bool.
Import ListNotations.

Definition graph := list (nat * list nat).      (* node id -> imported node ids *)

Definition succs (g : graph) (n : nat) : list nat :=
  match find (fun e => Nat.eqb (fst e) n) g with Some e => snd e | None => [] end.

Definition mem (n : nat) (s : list nat) : bool := existsb (Nat.eqb n) s.

Inductive reachable (g : graph) : nat -> nat -> Prop :=
| reach_refl n : reachable g n n
| reach_step a b c : reachable g a b -> In c (succs g b) -> reachable g a c.

Definition closed (g : graph) (s : list nat) : bool :=
  forallb (fun n => forallb (fun m => mem m s) (succs g n)) s.

Lemma mem_In n s : mem n s = true <-> In n s.
Proof.
  unfold mem. rewrite existsb_exists. split.
  - intros [x [Hx E]]. apply Nat.eqb_eq in E. subst. exact Hx.
  - intros H. exists n. split; [exact H|apply Nat.eqb_refl].
Qed.

Theorem closed_sound g s r p : closed g s = true -> In r s -> reachable g r p -> In p s.
Proof.
  intros Hc Hr Hp. induction Hp as [|a b c Hab IH Hbc]; [exact Hr|].
  specialize (IH Hr). unfold closed in Hc. rewrite forallb_forall in Hc.
  specialize (Hc b IH). rewrite forallb_forall in Hc. apply mem_In. apply Hc. exact Hbc.
Qed.

(* iterate "add all successors" |g|+1 times from the roots: a candidate closed set *)
Fixpoint add_all (l s : list nat) : list nat :=
  match l with [] => s | x :: t => if mem x s then add_all t s else add_all t (s ++ [x]) end.
Fixpoint saturate (fuel : nat) (g : graph) (s : list nat) : list nat :=
  match fuel with
  | O => s
  | S f => saturate f g (fold_left (fun acc n => add_all (succs g n) acc) s s)
  end.
