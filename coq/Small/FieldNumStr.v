(* Model of FieldNumber.String (message.go), statement by statement.
   field is an int32 (Z); z is the 11-byte array; characters are byte codes. *)
From Coq Require Import List ZArith Lia Bool.
From Pico Require Import Base.Res.
Import ListNotations.
Open Scope Z_scope.

Definition min_int32 : Z := -2147483648.
Definition str_min_int32 : list Z := [45;50;49;52;55;52;56;51;54;52;56]. (* "-2147483648" *)

(* for ; i >= 0 && field > 0; i-- { z[i] = byte(field%10)+'0'; field /= 10 }
   n = i+1 (so the loop test `i >= 0` is `n <> 0`); returns (z, i+1, field). *)
Fixpoint fn_loop (n : nat) (z : list Z) (f : Z) : result (list Z * nat * Z) :=
  match n with
  | O => Ok (z, O, f)
  | S k =>
      if 0 <? f then
        let! z' := put z k (f mod 10 + 48) in
        fn_loop k z' (f / 10)
      else Ok (z, n, f)
  end.

Definition fn_string (field : Z) : result (list Z) :=
  if field =? 0 then Ok [48] else
  if field =? min_int32 then Ok str_min_int32 else
  let negative := field <? 0 in
  let f := if negative then - field else field in
  let z0 := repeat 0 11 in
  let! '(z, n, _) := fn_loop 11 z0 f in
  if negative then
    (* z[i] = '-' with i = n-1 ; index -1 panics *)
    match n with
    | O => Panic
    | S i => let! z' := put z i 45 in sl_from z' i
    end
  else sl_from z n.   (* i++ ; z[i:] *)

(* ---- specification side: reading a decimal numeral ---- *)
Definition is_digit (c : Z) : bool := (48 <=? c) && (c <=? 57).
Definition digits_val (l : list Z) : Z := fold_left (fun a d => a * 10 + (d - 48)) l 0.
(* canonical unsigned numeral: non-empty, digits only, no leading zero unless "0" *)
Definition canon_nat (l : list Z) : bool :=
  match l with
  | [] => false
  | [c] => is_digit c
  | c :: _ => is_digit c && negb (c =? 48) && forallb is_digit l
  end.
Definition canon_int (l : list Z) : bool :=
  match l with
  | 45 :: r => canon_nat r && negb (match r with [48] => true | _ => false end)
  | _ => canon_nat l
  end.
Definition parse_int (l : list Z) : Z :=
  match l with
  | 45 :: r => - digits_val r
  | _ => digits_val l
  end.
