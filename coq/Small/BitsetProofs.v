From Coq Require Import List ZArith Lia Bool Arith.
From Pico Require Import Base.Res Small.Bitset.
Import ListNotations.
Open Scope Z_scope.

(* abstraction: membership of a non-negative value in the concrete set *)
Definition mem (s : small) (x : Z) : bool :=
  if x <? 64 then Z.testbit (low s) x
  else Z.testbit (nth (Z.to_nat ((x - 64) / 64)) (rest s) 0) ((x - 64) mod 64).

Definition Inv (s : small) (seen : list Z) : Prop :=
  forall x, 0 <= x -> mem s x = existsb (Z.eqb x) seen.

Lemma inv_empty : Inv empty [].
Proof.
  intros x Hx. unfold mem, empty; cbn [low rest].
  destruct (x <? 64); [apply Z.bits_0|]. destruct (Z.to_nat _); apply Z.bits_0.
Qed.

Lemma testbit_set w b x : 0 <= b -> 0 <= x ->
  Z.testbit (Z.lor w (Z.shiftl 1 b)) x = Z.testbit w x || (x =? b).
Proof.
  intros Hb Hx. rewrite Z.lor_spec. f_equal.
  rewrite Z.shiftl_spec by lia.
  destruct (Z.eqb_spec x b) as [->|Hne].
  - rewrite Z.sub_diag. reflexivity.
  - destruct (Z.lt_ge_cases x b).
    + apply Z.testbit_neg_r. lia.
    + change 1 with (Z.ones 1). apply Z.ones_spec_high. lia.
Qed.

Lemma nth_app_repeat0 (l : list Z) n i : nth i (l ++ repeat 0 n) 0 = nth i l 0.
Proof.
  destruct (Nat.lt_ge_cases i (length l)).
  - apply app_nth1; assumption.
  - rewrite app_nth2 by assumption. rewrite (nth_overflow l) by assumption.
    generalize (i - length l)%nat. induction n as [|n IH]; intros [|j]; cbn; auto.
Qed.

Lemma div_mod_eq a b : a / 64 = b / 64 -> a mod 64 = b mod 64 -> a = b.
Proof. intros H1 H2. rewrite (Z.div_mod a 64), (Z.div_mod b 64) by lia. lia. Qed.

Lemma set_step s seen x : int32 x -> Inv s seen ->
  exists s', set_chk s x = Ok ((if x <? 0 then false else existsb (Z.eqb x) seen), s') /\
             Inv s' (if x <? 0 then seen else x :: seen).
Proof.
  intros Hx HI. unfold set_chk.
  destruct (x <? 0) eqn:Eneg; [eexists; split; [reflexivity|exact HI]|].
  apply Z.ltb_ge in Eneg.
  destruct (x <? 64) eqn:E64.
  - apply Z.ltb_lt in E64. eexists; split.
    + rewrite <- (HI x Eneg). unfold mem. replace (x <? 64) with true by (symmetry; apply Z.ltb_lt; lia). reflexivity.
    + intros y Hy. cbn [existsb]. rewrite <- (HI y Hy). unfold mem; cbn [low rest].
      destruct (y <? 64) eqn:Ey.
      * rewrite testbit_set by lia. rewrite orb_comm. reflexivity.
      * apply Z.ltb_ge in Ey. replace (y =? x) with false by (symmetry; apply Z.eqb_neq; lia). reflexivity.
  - apply Z.ltb_ge in E64.
    set (bucket := Z.to_nat ((x - 64) / 64)). set (bit := (x - 64) mod 64).
    set (rest1 := if (length (rest s) <=? bucket)%nat then rest s ++ repeat 0 (bucket + 1 - length (rest s)) else rest s).
    assert (Hlen : (bucket < length rest1)%nat).
    { unfold rest1. destruct (Nat.leb_spec (length (rest s)) bucket).
      - rewrite app_length, repeat_length. lia.
      - assumption. }
    assert (Hnth : forall i, nth i rest1 0 = nth i (rest s) 0).
    { intros i. unfold rest1. destruct (length (rest s) <=? bucket)%nat; [apply nth_app_repeat0|reflexivity]. }
    assert (Hbit : 0 <= bit < 64) by (apply Z.mod_pos_bound; lia).
    unfold idx. destruct (nth_error rest1 bucket) as [word|] eqn:Enth.
    2:{ apply nth_error_None in Enth. lia. }
    assert (Hword : word = nth bucket (rest s) 0).
    { rewrite <- Hnth. symmetry. apply nth_error_nth. exact Enth. }
    cbn [bind]. unfold put. replace (bucket <? length rest1)%nat with true by (symmetry; apply Nat.ltb_lt; exact Hlen).
    cbn [bind]. eexists; split.
    + rewrite <- (HI x Eneg). unfold mem. replace (x <? 64) with false by (symmetry; apply Z.ltb_ge; lia).
      rewrite Hword. reflexivity.
    + intros y Hy. cbn [existsb]. rewrite <- (HI y Hy). unfold mem; cbn [low rest].
      destruct (y <? 64) eqn:Ey.
      * apply Z.ltb_lt in Ey. replace (y =? x) with false by (symmetry; apply Z.eqb_neq; lia). reflexivity.
      * apply Z.ltb_ge in Ey.
        destruct (Nat.eq_dec (Z.to_nat ((y - 64) / 64)) bucket) as [Eb|Eb].
        -- rewrite Eb. rewrite nth_upd_same by exact Hlen.
           assert (Hyb : 0 <= (y - 64) mod 64 < 64) by (apply Z.mod_pos_bound; lia).
           rewrite testbit_set by lia. rewrite ?Hword, orb_comm. f_equal.
           destruct (Z.eqb_spec y x) as [->|Hne]; [apply Z.eqb_refl|].
           apply Z.eqb_neq. intros Hm. apply Hne.
           assert ((y - 64) / 64 = (x - 64) / 64).
           { unfold bucket in Eb. apply Z2Nat.inj in Eb; [exact Eb| |]; apply Z.div_pos; lia. }
           assert (y - 64 = x - 64) by (apply div_mod_eq; assumption). lia.
        -- rewrite nth_upd_other by (intros E; apply Eb; symmetry; exact E). rewrite Hnth.
           replace (y =? x) with false; [reflexivity|].
           symmetry. apply Z.eqb_neq. intros ->. apply Eb. reflexivity.
Qed.

Lemma run_inv xs : forall s seen, Forall int32 xs -> Inv s seen -> run_chk s xs = Ok (spec seen xs).
Proof.
  induction xs as [|x xs IH]; intros s seen Hall HI; [reflexivity|].
  inversion Hall as [|? ? Hx Hxs]; subst.
  destruct (set_step s seen x Hx HI) as [s' [Hs HI']].
  cbn [run_chk spec]. rewrite Hs. cbn [bind].
  destruct (x <? 0); rewrite (IH s' _ Hxs HI'); reflexivity.
Qed.

Lemma run_trace_chk xs : forall s r, run_chk s xs = Ok r -> run_trace s xs = (r, false).
Proof.
  induction xs as [|x xs IH]; intros s r H; cbn in *; [congruence|].
  destruct (set_chk s x) as [[b s']|]; cbn in *; [|discriminate].
  destruct (run_chk s' xs) as [bs|] eqn:E; cbn in *; [|discriminate].
  rewrite (IH s' bs E). congruence.
Qed.
