From Coq Require Import List ZArith Lia Bool Arith.
From Pico Require Import Base.Res Base.ListX Small.FieldNumStr.
Import ListNotations.
Open Scope Z_scope.

(* digits produced for f with at most n positions, most significant first *)
Fixpoint dig (n : nat) (f : Z) (acc : list Z) : list Z :=
  match n with
  | O => acc
  | S k => if 0 <? f then dig k (f / 10) ((f mod 10 + 48) :: acc) else acc
  end.

Lemma dig_acc n : forall f acc, dig n f acc = dig n f [] ++ acc.
Proof.
  induction n as [|k IH]; intros f acc; cbn [dig]; [reflexivity|].
  destruct (0 <? f); [|reflexivity].
  rewrite (IH (f/10) (_ :: acc)), (IH (f/10) [_]). rewrite <- app_assoc. reflexivity.
Qed.

Lemma digits_val_app l d : digits_val (l ++ [d]) = digits_val l * 10 + (d - 48).
Proof. unfold digits_val. rewrite fold_left_app. reflexivity. Qed.

Lemma dig_val n : forall f, 0 <= f < 10 ^ Z.of_nat n -> digits_val (dig n f []) = f.
Proof.
  induction n as [|k IH]; intros f Hf.
  - cbn in *. lia.
  - cbn [dig]. destruct (Z.ltb_spec 0 f) as [Hp|Hz]; [|cbn; lia].
    rewrite dig_acc, digits_val_app. rewrite IH.
    + pose proof (Z.div_mod f 10 ltac:(lia)). lia.
    + rewrite Nat2Z.inj_succ, Z.pow_succ_r in Hf by lia.
      split; [apply Z.div_pos; lia|]. apply Z.div_lt_upper_bound; lia.
Qed.

Lemma dig_digits n : forall f, forallb is_digit (dig n f []) = true.
Proof.
  induction n as [|k IH]; intros f; cbn [dig]; [reflexivity|].
  destruct (0 <? f); [|reflexivity]. rewrite dig_acc, forallb_app, IH. cbn.
  pose proof (Z.mod_pos_bound f 10 ltac:(lia)). unfold is_digit.
  replace (48 <=? f mod 10 + 48) with true by (symmetry; apply Z.leb_le; lia).
  replace (f mod 10 + 48 <=? 57) with true by (symmetry; apply Z.leb_le; lia). reflexivity.
Qed.

(* leading digit is not '0' *)
Lemma dig_head n : forall f, 0 < f < 10 ^ Z.of_nat n ->
  exists c r, dig n f [] = c :: r /\ c <> 48.
Proof.
  induction n as [|k IH]; intros f Hf.
  - cbn in Hf. lia.
  - cbn [dig]. replace (0 <? f) with true by (symmetry; apply Z.ltb_lt; lia).
    rewrite dig_acc. destruct (Z.eq_dec (f / 10) 0) as [E|E].
    + rewrite E. destruct k; cbn [dig app]; (eexists; eexists; split; [reflexivity|]).
      all: pose proof (Z.div_mod f 10 ltac:(lia)); lia.
    + rewrite Nat2Z.inj_succ, Z.pow_succ_r in Hf by lia.
      destruct (IH (f / 10)) as [c [r [Hd Hc]]].
      { split; [|apply Z.div_lt_upper_bound; lia]. pose proof (Z.div_pos f 10 ltac:(lia) ltac:(lia)). lia. }
      rewrite Hd. exists c, (r ++ [f mod 10 + 48]). split; [reflexivity|exact Hc].
Qed.

Lemma dig_length n : forall f, (length (dig n f []) <= n)%nat.
Proof.
  induction n as [|k IH]; intros f; cbn [dig]; [cbn; lia|].
  destruct (0 <? f); [|cbn; lia]. rewrite dig_acc, app_length. cbn. specialize (IH (f/10)). lia.
Qed.

Lemma dig_S n f acc : dig (S n) f acc = if 0 <? f then dig n (f / 10) ((f mod 10 + 48) :: acc) else acc.
Proof. reflexivity. Qed.

Lemma dig_stable n : forall f, 0 <= f < 10 ^ Z.of_nat n -> dig (S n) f [] = dig n f [].
Proof.
  induction n as [|k IH]; intros f Hf.
  - cbn in Hf. assert (f = 0) by lia. subst. reflexivity.
  - rewrite (dig_S (S k) f []), (dig_S k f []). destruct (Z.ltb_spec 0 f) as [Hp|]; [|reflexivity].
    rewrite (dig_acc (S k)), (dig_acc k). f_equal. apply IH.
    rewrite Nat2Z.inj_succ, Z.pow_succ_r in Hf by lia.
    split; [apply Z.div_pos; lia|apply Z.div_lt_upper_bound; lia].
Qed.

(* simpler statement: we only need the array suffix and the index *)
Lemma fn_loop_ok n : forall pre suf f, length pre = n ->
  exists z' g, fn_loop n (pre ++ suf) f = Ok (z', (n - length (dig n f []))%nat, g) /\
    length z' = (n + length suf)%nat /\
    skipn (n - length (dig n f [])) z' = dig n f [] ++ suf.
Proof.
  induction n as [|k IH]; intros pre suf f Hl.
  - destruct pre; [|discriminate]. cbn. eexists; eexists; split; [reflexivity|split; reflexivity].
  - cbn [fn_loop dig]. destruct (0 <? f) eqn:Ef.
    + destruct (@exists_last _ pre) as [pre' [x Hp]]; [intros ->; discriminate|]. subst pre.
      rewrite app_length in Hl. cbn in Hl. assert (Hl' : length pre' = k) by lia.
      unfold put. rewrite !app_length. cbn [length].
      replace (k <? length pre' + 1 + length suf)%nat with true by (symmetry; apply Nat.ltb_lt; lia).
      cbn [bind].
      assert (Hupd : upd ((pre' ++ [x]) ++ suf) k (f mod 10 + 48) = pre' ++ (f mod 10 + 48) :: suf).
      { rewrite <- app_assoc. cbn [app]. clear -Hl'. revert k Hl'.
        induction pre' as [|a p IHp]; intros k Hk; cbn in *; subst; [reflexivity|]. f_equal. apply IHp. reflexivity. }
      rewrite Hupd.
      destruct (IH pre' ((f mod 10 + 48) :: suf) (f / 10) Hl') as [z' [g [H1 [H2 H3]]]].
      rewrite dig_acc, app_length. cbn [length].
      pose proof (dig_length k (f/10)).
      replace (S k - (length (dig k (f / 10) []) + 1))%nat with (k - length (dig k (f / 10) []))%nat by lia.
      exists z', g. split; [exact H1|]. split; [cbn [length] in H2; lia|].
      rewrite H3. rewrite <- app_assoc. reflexivity.
    + cbn [length]. rewrite Nat.sub_0_r. eexists; eexists. split; [reflexivity|].
      split; [rewrite app_length; lia|].
      rewrite skipn_app, Hl, Nat.sub_diag. rewrite skipn_all2 by lia. reflexivity.
Qed.

Lemma canon_nat_dig n f : 0 < f < 10 ^ Z.of_nat n -> canon_nat (dig n f []) = true.
Proof.
  intros Hf. destruct (dig_head n f Hf) as [c [r [Hd Hc]]].
  pose proof (dig_digits n f) as Hall. rewrite Hd in *. cbn [forallb] in Hall.
  apply andb_true_iff in Hall. destruct Hall as [Hcd Hr].
  unfold canon_nat. destruct r as [|c2 r]; [exact Hcd|].
  rewrite Hcd. replace (c =? 48) with false by (symmetry; apply Z.eqb_neq; exact Hc).
  cbn [negb andb forallb]. cbn [forallb] in Hr. rewrite Hcd. exact Hr.
Qed.

Definition int32 (x : Z) : Prop := -2^31 <= x < 2^31.

Theorem fn_string_spec f : int32 f ->
  exists s, fn_string f = Ok s /\ parse_int s = f /\ canon_int s = true.
Proof.
  intros Hf. unfold fn_string.
  destruct (Z.eqb_spec f 0) as [->|Hnz]; [exists [48]; repeat split|].
  destruct (Z.eqb_spec f min_int32) as [->|Hmin]; [exists str_min_int32; repeat split|].
  unfold int32, min_int32 in *.
  set (a := if f <? 0 then - f else f).
  assert (Ha : 0 < a < 10 ^ Z.of_nat 10).
  { unfold a. change (10 ^ Z.of_nat 10) with 10000000000. destruct (Z.ltb_spec f 0); lia. }
  assert (Ha11 : 0 < a < 10 ^ Z.of_nat 11).
  { change (10 ^ Z.of_nat 11) with 100000000000. change (10 ^ Z.of_nat 10) with 10000000000 in Ha. lia. }
  destruct (fn_loop_ok 11 (repeat 0 11) [] a (repeat_length _ _)) as [z' [g [H1 [H2 H3]]]].
  rewrite app_nil_r in H1, H3. rewrite H1. cbn [bind].
  (* the digit string does not depend on the number of positions once they suffice *)
  assert (Hd10 : dig 11 a [] = dig 10 a []) by (apply dig_stable; lia).
  pose proof (dig_length 10 a) as Hlen. rewrite <- Hd10 in Hlen.
  set (D := dig 11 a []) in *.
  assert (HDv : digits_val D = a) by (apply dig_val; lia).
  assert (HDc : canon_nat D = true) by (apply canon_nat_dig; exact Ha11).
  assert (HDne : D <> [48]).
  { intros E. rewrite E in HDv. cbn in HDv. lia. }
  destruct (f <? 0) eqn:Eneg.
  - (* negative: n >= 1 because at most 10 digits *)
    destruct (11 - length D)%nat as [|i] eqn:En; [lia|].
    unfold put. replace (i <? length z')%nat with true by (symmetry; apply Nat.ltb_lt; cbn in H2; lia).
    cbn [bind]. unfold sl_from. rewrite upd_length.
    replace (i <=? length z')%nat with true by (symmetry; apply Nat.leb_le; cbn in H2; lia).
    exists (45 :: D). split.
    + f_equal.
      assert (Hz : z' = firstn i z' ++ nth i z' 0 :: D).
      { rewrite <- H3. rewrite <- (firstn_skipn i z') at 1. f_equal.
        rewrite (skipn_nth_cons _ _ 0) by (cbn in H2; lia). reflexivity. }
      rewrite Hz. assert (Hfl : length (firstn i z') = i) by (rewrite firstn_length; cbn in H2; lia).
      clear -Hfl. revert Hfl. generalize (firstn i z') as p. intros p Hp.
      rewrite <- Hp, upd_app_mid. rewrite skipn_app, Nat.sub_diag, skipn_all. reflexivity.
    + apply Z.ltb_lt in Eneg. unfold a in HDv.
      split.
      * cbn [parse_int]. destruct D as [|d0 D']; [discriminate|]. cbn [parse_int]. lia.
      * destruct D as [|d0 D']; [discriminate|]. cbn [canon_int]. rewrite HDc. cbn [andb].
        destruct D' as [|? ?]; [|destruct d0 as [|p|p]; try reflexivity; repeat (destruct p; try reflexivity)].
        destruct (Z.eq_dec d0 48) as [->|Hne]; [congruence|].
        destruct d0 as [|p|p]; try reflexivity. repeat (destruct p; try reflexivity). congruence.
  - unfold sl_from. replace (11 - length D <=? length z')%nat with true by (symmetry; apply Nat.leb_le; cbn in H2; lia).
    exists D. split; [f_equal; exact H3|].
    apply Z.ltb_ge in Eneg. unfold a in HDv.
    assert (Hh : match D with 45 :: _ => False | _ => True end).
    { destruct (dig_head 11 a Ha11) as [c [r [Hd Hc]]]. fold D in Hd. rewrite Hd.
      pose proof (dig_digits 11 a) as Hall. fold D in Hall. rewrite Hd in Hall. cbn in Hall.
      apply andb_true_iff in Hall. destruct Hall as [Hcd _]. unfold is_digit in Hcd.
      destruct (Z.eq_dec c 45) as [->|Hne]; [cbn in Hcd; discriminate|].
      destruct c as [|p|p]; auto. repeat (destruct p; auto). all: try congruence. }
    split.
    + unfold parse_int. destruct D as [|d0 D']; [exact HDv|].
      destruct d0 as [|p|p]; try exact HDv. repeat (destruct p; try exact HDv). contradiction.
    + unfold canon_int. destruct D as [|d0 D']; [exact HDc|].
      destruct d0 as [|p|p]; try exact HDc. repeat (destruct p; try exact HDc). contradiction.
Qed.
