(* Model of internal/bitset/set.go  (bitset.Small.Set), statement by statement.
   uint64 words are Z; `1 << byte(b)` with b < 64 needs no wrap-around. *)
From Coq Require Import List ZArith Lia Bool.
From Pico Require Import Base.Res.
Import ListNotations.
Open Scope Z_scope.

Record small := { low : Z; rest : list Z }.
Definition empty : small := {| low := 0; rest := [] |}.

(* x is an int32: -2^31 <= x < 2^31 *)
Definition int32 (x : Z) : Prop := -2^31 <= x < 2^31.

Definition set_chk (s : small) (x : Z) : result (bool * small) :=
  if x <? 0 then Ok (false, s) else
  if x <? 64 then
    Ok (Z.testbit (low s) x, {| low := Z.lor (low s) (Z.shiftl 1 x); rest := rest s |})
  else
    let w := x - 64 in
    let bucket := Z.to_nat (w / 64) in
    let bit := w mod 64 in
    (* if uint(len(set.rest)) <= bucket { append(make(bucket + 1 - len)) } *)
    let rest1 := if Nat.leb (length (rest s)) bucket
                 then rest s ++ repeat 0 (bucket + 1 - length (rest s)) else rest s in
    let! word := idx rest1 bucket in
    let! rest2 := put rest1 bucket (Z.lor word (Z.shiftl 1 bit)) in
    Ok (Z.testbit word bit, {| low := low s; rest := rest2 |}).

Fixpoint run_chk (s : small) (xs : list Z) : result (list bool) :=
  match xs with
  | [] => Ok []
  | x :: xs' =>
      let! '(b, s') := set_chk s x in
      let! bs := run_chk s' xs' in
      Ok (b :: bs)
  end.

(* Specification: a mathematical set of the non-negative values seen so far. *)
Fixpoint spec (seen : list Z) (xs : list Z) : list bool :=
  match xs with
  | [] => []
  | x :: xs' =>
      if x <? 0 then false :: spec seen xs'
      else existsb (Z.eqb x) seen :: spec (x :: seen) xs'
  end.

(* Observable trace for the correspondence check: the longest prefix of
   answers before a panic, and whether it panicked. *)
Fixpoint run_trace (s : small) (xs : list Z) : list bool * bool :=
  match xs with
  | [] => ([], false)
  | x :: xs' =>
      match set_chk s x with
      | Panic => ([], true)
      | Ok (b, s') => let '(bs, p) := run_trace s' xs' in (b :: bs, p)
      end
  end.
