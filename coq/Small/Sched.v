(* Interleaving semantics (C16): threads that only read shared data and write private state
   compute, under ANY schedule, what they compute when run alone. *)
From Coq Require Import List Arith Lia.
Import ListNotations.

Section Sched.
Variables (Env St : Type).
Variable step : Env -> nat -> St -> St.     (* one step of thread i on its private state, reading env *)

Fixpoint set_nth (l : list St) (i : nat) (x : St) : list St :=
  match l, i with
  | [], _ => []
  | _ :: t, O => x :: t
  | h :: t, S j => h :: set_nth t j x
  end.

(* the system runs the scheduled thread one step; the environment is never written *)
Definition run1 (env : Env) (sts : list St) (i : nat) : list St :=
  match nth_error sts i with
  | Some s => set_nth sts i (step env i s)
  | None => sts
  end.
Definition run (env : Env) (sched : list nat) (sts : list St) : list St := fold_left (run1 env) sched sts.

Fixpoint iter (n : nat) (f : St -> St) (s : St) : St := match n with O => s | S k => iter k f (f s) end.

Lemma nth_set_nth_same l i x : i < length l -> nth_error (set_nth l i x) i = Some x.
Proof. revert i; induction l as [|h t IH]; intros [|j] H; cbn in *; try lia; auto. apply IH. lia. Qed.
Lemma nth_set_nth_other l i j x : i <> j -> nth_error (set_nth l i x) j = nth_error l j.
Proof. revert i j; induction l as [|h t IH]; intros [|i] [|j] H; cbn; auto; try congruence. Qed.
Lemma set_nth_length l i x : length (set_nth l i x) = length l.
Proof. revert i; induction l as [|h t IH]; intros [|j]; cbn; auto. Qed.

(* every thread's final state depends only on how often it was scheduled *)
Theorem schedule_independent env sched : forall sts i s,
  nth_error sts i = Some s ->
  nth_error (run env sched sts) i = Some (iter (count_occ Nat.eq_dec sched i) (step env i) s).
Proof.
  induction sched as [|j sched IH]; intros sts i s H; [exact H|].
  unfold run in *. cbn [fold_left count_occ].
  destruct (Nat.eq_dec j i) as [->|Hne].
  - cbn [iter]. apply IH. unfold run1. rewrite H. apply nth_set_nth_same.
    apply nth_error_Some. congruence.
  - apply IH. unfold run1. destruct (nth_error sts j) eqn:E; [|exact H].
    rewrite nth_set_nth_other by exact Hne. exact H.
Qed.

(* two schedules that give every thread the same number of steps end in the same state per thread *)
Corollary interleavings_agree env s1 s2 sts i s :
  nth_error sts i = Some s -> count_occ Nat.eq_dec s1 i = count_occ Nat.eq_dec s2 i ->
  nth_error (run env s1 sts) i = nth_error (run env s2 sts) i.
Proof. intros H C. rewrite !(schedule_independent env _ sts i s H), C. reflexivity. Qed.
End Sched.
