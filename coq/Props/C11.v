(* C11 - all 180 map codecs are faithful and protobuf-compatible. *)
From Coq Require Import List ZArith Bool.
From Pico Require Import Base.Res Base.Mach Wire.Wire Schema.Types Schema.Scalar Schema.Gen Ref.Ref
  Schema.ScalarProofs Enc.Enc Enc.EncProofs Schema.Conv Schema.Interp.
From Pico Require Schema.Norm Schema.EncSpec Schema.TEnc Schema.TDec Schema.RoundTrip.
Import ListNotations.
Open Scope Z_scope.

(* One statement for all 12 x 15 key/value kinds: an entry is written as
   tag ++ minimal length ++ (key field 1 unless default) ++ (value field 2 unless default). *)
Definition entry_payload (kk vk : kind) (e : val * val) : bytes :=
  (if spec_default kk (fst e) then [] else spec_field kk 1 (fst e)) ++
  (if spec_default vk (snd e) then [] else spec_field vk 2 (snd e)).

Theorem C11_entry : forall kk vk field e buf,
  scalar_ok kk (fst e) = true -> scalar_ok vk (snd e) = true -> valid_number field = true ->
  len_ok (entry_payload kk vk e) ->
  enc_map kk vk field [e] buf = Ok (buf ++ spec_ld field (entry_payload kk vk e)).
Proof.
  intros kk vk field e buf Hk Hv Hf Hl. unfold enc_map. cbn [rfold].
  rewrite (always_any_bytes_spec field _ buf (entry_payload kk vk e)); [reflexivity|exact Hf|exact Hl|].
  intros b. f_equal. rewrite (enc_single_spec kk false 1 (fst e) b Hk eq_refl).
  rewrite (enc_single_spec vk false 2 (snd e)) by (assumption || reflexivity).
  unfold entry_payload. cbn [negb andb]. rewrite <- app_assoc. reflexivity.
Qed.

(* decoding starts every entry from zero key and zero value (missing key or value means zero):
   this is the structure of dec_map - the temporaries are created per entry *)
Theorem C11_entry_defaults : forall kk vk, (zero_scalar kk, zero_scalar vk) =
  ((if is_bytes_kind kk then VBytes [] else VInt 0), (if is_bytes_kind vk then VBytes [] else VInt 0)).
Proof. reflexivity. Qed.

(* Any Go map round-trips exactly, for every key/value kind pair and any number of entries: a map field is one slot of
   the message universe (VMap, entries in the iteration order of that call, keys pairwise distinct), and
   Unmarshal(Marshal(m)) = m by C03's theorem; zero keys / zero values (omitted on the wire) come back as zero, every
   entry is decoded independently of the others (map_entry_of starts from the zero pair). Decoding of ARBITRARY entry
   sequences (any order, duplicate keys overwrite, unknown fields inside entries) is the reference's by T_dec (C02). *)
Theorem C11_map_round_trip : forall s progs fuel idx fs un m,
  gen_all s = GOk progs -> TEnc.wf_schema_enc s = true -> RoundTrip.rt_applies_at s idx = true -> nth_error s idx = Some m ->
  EncSpec.msg_ok fuel progs idx (Some (fs, un)) = true -> RoundTrip.rt_ok fuel s idx fs un = true ->
  exists data, pico_marshal fuel progs idx (fs, un) = Ok data /\
               pico_unmarshal progs idx data (zero_fields s m, []) = (None, (Norm.norm_fields fuel s idx fs, un)).
Proof. exact RoundTrip.marshal_unmarshal_at. Qed.

Example C11_nonvacuous : entry_payload KInt32 KString (VInt 0, VBytes [97]) = [18; 1; 97] /\ entry_payload KSint32 KBool (VInt (-1), VInt 0) = [8; 1].
Proof. split; vm_compute; reflexivity. Qed.

Print Assumptions C11_entry.
Print Assumptions C11_map_round_trip.
