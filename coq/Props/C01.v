(* C01 - Marshal output is valid protobuf carrying exactly the message's values. *)
From Coq Require Import List ZArith Bool.
From Pico Require Import Base.Res Base.Mach Wire.Wire Schema.Types Schema.Scalar Ref.Ref
  Schema.ScalarProofs Enc.Enc Enc.EncProofs Wire.VarintProofs Wire.WireProofs
  Schema.Gen Schema.Interp Schema.EncSpec Schema.EncProgProofs Schema.TEnc Dec.SafetyProofs.
From Pico Require Schema.Norm Schema.TDec Schema.RoundTrip.
Import ListNotations.
Open Scope Z_scope.

(* Every scalar field Marshal writes is the reference encoding of its value: all 15 kinds,
   the whole range of the Go type (negative and extreme integers, NaN/Inf/-0 bit patterns,
   any string/bytes), every valid field number. *)
Theorem C01_scalar_field : forall k always num v buf,
  scalar_ok k v = true -> valid_number num = true ->
  enc_single k always num v buf = buf ++ (if negb always && spec_default k v then [] else spec_field k num v).
Proof. exact enc_single_spec. Qed.

(* ... which the specification's own reader parses back to the same integer *)
Theorem C01_varint_readable : forall v rest, u64_ok v ->
  spec_parse_varint (spec_varint v ++ rest) = Some (v, length (spec_varint v)).
Proof. exact spec_parse_spec_varint. Qed.

(* Every sub-message / packed field / map entry is framed as tag ++ minimal length ++ payload
   for EVERY payload size (all three size classes of the length patching, including >= 2^21),
   and the encoder's slice surgery never goes out of bounds (no panic). *)
Theorem C01_framing : forall field fn buf p ok,
  valid_number field = true -> len_ok p -> (forall b, fn b = Ok (b ++ p, ok)) ->
  any_bytes field fn buf = Ok ((if ok then buf ++ spec_ld field p else buf), ok).
Proof. exact any_bytes_spec. Qed.

(* C01_total + encoder half: for every schema the generator accepts and every well-typed value
   (nil pointers, nil slices and nil maps are just VMsg None / VOpt None / VList [] / VMap []),
   Marshal never panics and its output is exactly the reference encoding ref_encode of the value -
   for all 15 kinds over their whole ranges, all shapes (singular, optional, repeated, map, oneof,
   nested, always-present, picoconv casts), every depth and payload size, every map iteration order. *)
Theorem C01_marshal_is_reference_encoding : forall fuel s progs idx fs un,
  gen_all s = GOk progs -> wf_schema_enc s = true -> msg_ok fuel progs idx (Some (fs, un)) = true ->
  pico_marshal fuel progs idx (fs, un) = Ok (ref_encode fuel s idx fs un).
Proof. exact T_enc. Qed.
(* the same for arbitrary (also hand-written) programs of encoder calls: no panic, and what is
   appended does not depend on the buffer *)
Theorem C01_total : forall fuel progs idx m buf, msg_ok fuel progs idx m = true ->
  enc_msg fuel progs idx m buf = Ok (buf ++ fst (sp_msg fuel progs idx m), snd (sp_msg fuel progs idx m)).
Proof. exact enc_msg_spec. Qed.

(* the bytes carry exactly the message's values: the reference decoder reads the reference encoding (= Marshal's
   output, by the theorem above) back as the message (normal form of Schema/Norm.v), at every budget above the length *)
Theorem C01_reference_reads_the_values : forall s g idx fs un m, RoundTrip.rt_applies_at s idx = true -> nth_error s idx = Some m ->
  RoundTrip.rt_ok g s idx fs un = true ->
  bytes_ok (ref_encode g s idx fs un) /\
  forall G, (length (ref_encode g s idx fs un) < G)%nat ->
    ref_decode G s idx (ref_encode g s idx fs un) (zero_fields s m, []) = Some (Norm.norm_fields g s idx fs, un).
Proof. exact RoundTrip.ref_round_trip_at. Qed.

(* What remains outside the theorems: that the reference specification (Ref.v) is the protobuf wire format -
   ref_encode/ref_decode are compared with protobuf-go (dynamicpb) on every generated message on every run - and
   that the model is the code (correspondence). See DESIGN.md section 0. *)

Example C01_nonvacuous : enc_single KSfixed64 false 10 (VInt 3) [] = [81; 3; 0; 0; 0; 0; 0; 0; 0] /\
  enc_single KDouble false 12 (VInt 9223372036854775808) [] = [97; 0; 0; 0; 0; 0; 0; 0; 128].
Proof. split; vm_compute; reflexivity. Qed.

Print Assumptions C01_scalar_field.
Print Assumptions C01_varint_readable.
Print Assumptions C01_framing.
Print Assumptions C01_marshal_is_reference_encoding.
Print Assumptions C01_total.
Print Assumptions C01_reference_reads_the_values.
