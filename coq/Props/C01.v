(* C01 - Marshal output is valid protobuf carrying exactly the message's values. *)
From Coq Require Import List ZArith Bool.
From Pico Require Import Base.Res Base.Mach Wire.Wire Schema.Types Schema.Scalar Ref.Ref
  Schema.ScalarProofs Enc.Enc Enc.EncProofs Wire.VarintProofs Wire.WireProofs.
Import ListNotations.
Open Scope Z_scope.

(* Every scalar field Marshal writes is the reference encoding of its value: all 15 kinds,
   the whole range of the Go type (negative and extreme integers, NaN/Inf/-0 bit patterns,
   any string/bytes), every valid field number. *)
Theorem C01_scalar_field : forall k always num v buf,
  scalar_ok k v = true -> valid_number num = true ->
  enc_single k always num v buf = buf ++ (if negb always && spec_default k v then [] else spec_field k num v).
Proof. exact enc_single_spec. Qed.

(* ... which the specification's own reader parses back to the same integer *)
Theorem C01_varint_readable : forall v rest, u64_ok v ->
  spec_parse_varint (spec_varint v ++ rest) = Some (v, length (spec_varint v)).
Proof. exact spec_parse_spec_varint. Qed.

(* Every sub-message / packed field / map entry is framed as tag ++ minimal length ++ payload
   for EVERY payload size (all three size classes of the length patching, including >= 2^21),
   and the encoder's slice surgery never goes out of bounds (no panic). *)
Theorem C01_framing : forall field fn buf p ok,
  valid_number field = true -> len_ok p -> (forall b, fn b = Ok (b ++ p, ok)) ->
  any_bytes field fn buf = Ok ((if ok then buf ++ spec_ld field p else buf), ok).
Proof. exact any_bytes_spec. Qed.

(* PARTIAL. The full statement
     forall s i m, wf_schema s -> wf_msg s i m ->
       pico_marshal (gen s) i m = Ok b /\ ref_decode s i b zero = Some (norm m)
   is not proved; it is decided per run by (a) the correspondence of the executable model
   (pico_marshal over the regenerated programs) with Marshal on exact bytes and (b) evaluating
   ref_decode on those bytes, both also against protobuf-go. See DESIGN.md C01. *)

Example C01_nonvacuous : enc_single KSfixed64 false 10 (VInt 3) [] = [81; 3; 0; 0; 0; 0; 0; 0; 0] /\
  enc_single KDouble false 12 (VInt 9223372036854775808) [] = [97; 0; 0; 0; 0; 0; 0; 0; 128].
Proof. split; vm_compute; reflexivity. Qed.

Print Assumptions C01_scalar_field.
Print Assumptions C01_varint_readable.
Print Assumptions C01_framing.
