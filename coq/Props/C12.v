(* C12 - protoc-gen-pico emits correct codecs for every supported schema. *)
From Coq Require Import List ZArith Bool.
From Pico Require Import Base.Res Base.Mach Wire.Wire Schema.Types Schema.Scalar Schema.Gen Schema.GenProofs gen.Schemas
  Schema.Interp Ref.Ref Schema.EncSpec Schema.EncProgProofs Schema.TEnc Dec.Dec Dec.SafetyProofs Dec.TokenBridge Schema.Norm Schema.TDec Schema.RoundTrip.
Import ListNotations.
Open Scope Z_scope.

(* for EVERY schema: presence-carrying scalars and oneof members get Always writers *)
Theorem C12_always_selection :
  (forall s slot f k always rep ptr sl num, gen_field_encode s slot f = GOk (EScalar k always rep ptr sl num) -> ptr = true -> always = true) /\
  (forall s slot f sl k always rep ptr sl2 num, gen_field_encode s slot f = GOk (EOneof sl (EScalar k always rep ptr sl2 num)) -> always = true) /\
  (forall s slot f sl always sl2 num, gen_field_encode s slot f = GOk (EOneof sl (EEnum always sl2 num)) -> always = true).
Proof. split; [exact gen_always_ok|]. split; [exact gen_oneof_always|exact gen_oneof_enum_always]. Qed.

(* the declared boundary of the feature set is an explicit error, never a miscompilation *)
Theorem C12_boundary_optional_enum : forall s slot f,
  fty f = TEnum -> flabel f = LOptional -> foneof f = None -> f_always_present f = false -> f_custom f = CNone ->
  gen_field_encode s slot f = GError 1.
Proof. exact gen_optional_enum_rejected. Qed.

(* the schemas shipped in the repository (regenerated from the .proto files on this run by
   T-proto) are inside the feature set: the generator model terminates without error on them *)
Definition gen_ok (s : schema) : bool := match gen_all s with GOk _ => true | GError _ => false end.
Theorem C12_checked_in_total : forallb gen_ok checked_in_schemas = true.
Proof. vm_compute. reflexivity. Qed.

(* the generated Encode of EVERY accepted schema is the reference encoder (C01/C06 for all schemas) *)
Theorem C12_encode_correct : forall fuel s progs idx fs un,
  gen_all s = GOk progs -> wf_schema_enc s = true -> msg_ok fuel progs idx (Some (fs, un)) = true ->
  pico_marshal fuel progs idx (fs, un) = Ok (ref_encode fuel s idx fs un).
Proof. exact T_enc. Qed.

(* ... the generated Decode of EVERY accepted schema is the reference decoder, on every byte string (C02/C05 for all schemas) ... *)
Theorem C12_decode_correct : forall s progs idx data t0,
  gen_all s = GOk progs -> tdec_applies_at s idx = true -> bytes_ok data ->
  let r := pico_unmarshal progs idx data t0 in
  match ref_decode (S (S (S (length data)))) s idx data t0 with
  | Some t'' => fst r = None /\ snd r = t''
  | None => fst r <> None
  end.
Proof. exact T_dec_at. Qed.
(* ... and the two are inverse to each other on every well-typed value (C03/C08 for all schemas) *)
Theorem C12_round_trip : forall s progs fuel idx fs un m,
  gen_all s = GOk progs -> wf_schema_enc s = true -> rt_applies_at s idx = true -> nth_error s idx = Some m ->
  msg_ok fuel progs idx (Some (fs, un)) = true -> rt_ok fuel s idx fs un = true ->
  exists data, pico_marshal fuel progs idx (fs, un) = Ok data /\
               pico_unmarshal progs idx data (zero_fields s m, []) = (None, (norm_fields fuel s idx fs, un)).
Proof. exact marshal_unmarshal_at. Qed.

(* These are statements about the programs of the generator MODEL (Schema/Gen.v). That the real plugin emits those programs
   is decided per run: schemas drawn from a grammar over every generator branch go through the REAL plugin; its verdict
   (ok / error) and its emitted programs (parsed back by T-pico) are compared with the generator model; the emitted code is
   compiled (with and without accessors) and driven against protobuf-go like the checked-in types. That the output
   compiles, and that the same descriptor always yields the same source, are toolchain/run-time facts: checked, not proved. *)

Example C12_nonvacuous : length checked_in_schemas = 5%nat /\ gen_ok [{| mfields := [{| fnum := 64; fty := TScalar KInt32; flabel := LSingular; foneof := None; f_always_present := false; f_custom := CNone |}]; m_always_present := false; m_capture := true |}] = false.
Proof. split; vm_compute; reflexivity. Qed.

Print Assumptions C12_always_selection.
Print Assumptions C12_boundary_optional_enum.
Print Assumptions C12_checked_in_total.
Print Assumptions C12_encode_correct.
Print Assumptions C12_decode_correct.
Print Assumptions C12_round_trip.
