(* C08 - Field presence survives encoding and decoding. *)
From Coq Require Import List ZArith Bool.
From Pico Require Import Base.Res Base.Mach Wire.Wire Schema.Types Schema.Scalar Schema.Gen Schema.GenProofs Ref.Ref
  Schema.ScalarProofs Enc.Enc Enc.EncProofs Schema.Interp.
From Pico Require Schema.Norm Schema.EncSpec Schema.TEnc Schema.TDec Schema.RoundTrip.
Import ListNotations.
Open Scope Z_scope.

(* For every schema and field: a scalar that carries presence (optional pointer) is written
   by an Always writer, so the zero value is emitted ... *)
Theorem C08_optional_always : forall s slot f k always rep ptr sl num,
  gen_field_encode s slot f = GOk (EScalar k always rep ptr sl num) -> ptr = true -> always = true.
Proof. exact gen_always_ok. Qed.
(* ... every scalar and enum oneof member as well ... *)
Theorem C08_oneof_always : forall s slot f sl k always rep ptr sl2 num,
  gen_field_encode s slot f = GOk (EOneof sl (EScalar k always rep ptr sl2 num)) -> always = true.
Proof. exact gen_oneof_always. Qed.
Theorem C08_oneof_enum_always : forall s slot f sl always sl2 num,
  gen_field_encode s slot f = GOk (EOneof sl (EEnum always sl2 num)) -> always = true.
Proof. exact gen_oneof_enum_always. Qed.
(* ... a message member held by value (always_present type or field) is never written by the omit-when-empty writer
   (it was before the repair D14), but by AlwaysMessage, which frames even an empty message ... *)
Theorem C08_oneof_message_never_omitted : forall s slot f sl sl2 num idx,
  gen_field_encode s slot f <> GOk (EOneof sl (EMsgPresent sl2 num idx)).
Proof. exact gen_oneof_never_present. Qed.
Theorem C08_always_message_emits : forall field fn buf p ok,
  valid_number field = true -> len_ok p -> (forall b, fn b = Ok (b ++ p, ok)) ->
  enc_always_message field fn buf = Ok (buf ++ spec_ld field p).
Proof. exact enc_always_message_spec. Qed.
(* ... and an Always writer emits the field whatever the value *)
Theorem C08_always_emits : forall k num v buf, scalar_ok k v = true -> valid_number num = true ->
  enc_single k true num v buf = buf ++ spec_field k num v.
Proof. intros. rewrite enc_single_spec by assumption. reflexivity. Qed.
(* a present (non-nil) sub-message is framed even when empty; an absent one leaves no trace *)
Theorem C08_message_presence : forall field fn buf p ok,
  valid_number field = true -> len_ok p -> (forall b, fn b = Ok (b ++ p, ok)) ->
  enc_message field fn buf = Ok (if ok then buf ++ spec_ld field p else buf).
Proof. exact enc_message_spec. Qed.

(* Presence survives the round trip, for whole messages: Unmarshal(Marshal(m)) = m as VALUES OF THE PRESENCE-CARRYING
   UNIVERSE - VOpt None / VOpt (Some zero), VMsg None / VMsg (Some empty), the selected oneof member (also when it holds
   the zero value), the number of repeated elements (empty message elements included), always-present sub-messages -
   by C03's theorem (T_enc + reference round trip + T_dec). The only identifications are the by-design ones of
   Schema/Norm.v (zero time.Time behind a pointer / in a slice; nil element of a repeated message). *)
Theorem C08_presence_round_trip : forall s progs fuel idx fs un m,
  gen_all s = GOk progs -> TEnc.wf_schema_enc s = true -> RoundTrip.rt_applies_at s idx = true -> nth_error s idx = Some m ->
  EncSpec.msg_ok fuel progs idx (Some (fs, un)) = true -> RoundTrip.rt_ok fuel s idx fs un = true ->
  exists data, pico_marshal fuel progs idx (fs, un) = Ok data /\
               pico_unmarshal progs idx data (zero_fields s m, []) = (None, (Norm.norm_fields fuel s idx fs, un)).
Proof. exact RoundTrip.marshal_unmarshal_at. Qed.

Example C08_nonvacuous : enc_single KString true 2 (VBytes []) [] = [18; 0] /\ spec_ld 3 [] = [26; 0].
Proof. split; vm_compute; reflexivity. Qed.

Print Assumptions C08_optional_always.
Print Assumptions C08_oneof_always.
Print Assumptions C08_oneof_enum_always.
Print Assumptions C08_oneof_message_never_omitted.
Print Assumptions C08_always_message_emits.
Print Assumptions C08_always_emits.
Print Assumptions C08_message_presence.
Print Assumptions C08_presence_round_trip.
