(* C08 - Field presence survives encoding and decoding. *)
From Coq Require Import List ZArith Bool.
From Pico Require Import Base.Res Base.Mach Wire.Wire Schema.Types Schema.Scalar Schema.Gen Schema.GenProofs Ref.Ref
  Schema.ScalarProofs Enc.Enc Enc.EncProofs.
Import ListNotations.
Open Scope Z_scope.

(* For every schema and field: a scalar that carries presence (optional pointer) is written
   by an Always writer, so the zero value is emitted ... *)
Theorem C08_optional_always : forall s slot f k always rep ptr sl num,
  gen_field_encode s slot f = GOk (EScalar k always rep ptr sl num) -> ptr = true -> always = true.
Proof. exact gen_always_ok. Qed.
(* ... every scalar and enum oneof member as well ... *)
Theorem C08_oneof_always : forall s slot f sl k always rep ptr sl2 num,
  gen_field_encode s slot f = GOk (EOneof sl (EScalar k always rep ptr sl2 num)) -> always = true.
Proof. exact gen_oneof_always. Qed.
Theorem C08_oneof_enum_always : forall s slot f sl always sl2 num,
  gen_field_encode s slot f = GOk (EOneof sl (EEnum always sl2 num)) -> always = true.
Proof. exact gen_oneof_enum_always. Qed.
(* ... and an Always writer emits the field whatever the value *)
Theorem C08_always_emits : forall k num v buf, scalar_ok k v = true -> valid_number num = true ->
  enc_single k true num v buf = buf ++ spec_field k num v.
Proof. intros. rewrite enc_single_spec by assumption. reflexivity. Qed.
(* a present (non-nil) sub-message is framed even when empty; an absent one leaves no trace *)
Theorem C08_message_presence : forall field fn buf p ok,
  valid_number field = true -> len_ok p -> (forall b, fn b = Ok (b ++ p, ok)) ->
  enc_message field fn buf = Ok (if ok then buf ++ spec_ld field p else buf).
Proof. exact enc_message_spec. Qed.

(* PARTIAL: the decode half (pointer allocated / member selected when the field occurs) and the
   whole-message statement are decided per run on the presence skeleton. *)

Example C08_nonvacuous : enc_single KString true 2 (VBytes []) [] = [18; 0] /\ spec_ld 3 [] = [26; 0].
Proof. split; vm_compute; reflexivity. Qed.

Print Assumptions C08_optional_always.
Print Assumptions C08_oneof_always.
Print Assumptions C08_oneof_enum_always.
Print Assumptions C08_always_emits.
Print Assumptions C08_message_presence.
