(* C09 - decoding concatenated encodings equals decoding them one after another. *)
From Coq Require Import List ZArith Bool.
From Pico Require Import Base.Res Base.Mach Wire.Wire Schema.Types Schema.Scalar Schema.Gen Schema.Interp Ref.Ref Dec.Dec Dec.ReaderProofs
  Dec.SafetyProofs Dec.TokenApp Schema.TDec Schema.Concat.
Import ListNotations.
Open Scope Z_scope.

(* Unmarshal never resets what the input does not mention: a reader whose field is not the
   pending one leaves decoder and target untouched *)
Theorem C09_no_reset : forall k field st v, field <> pf st -> dec_single k field st v = (st, v).
Proof. exact dec_single_other. Qed.
(* consuming a value of n bytes leaves exactly the rest of the input: the cursor after the
   first encoding is the cursor at the start of the second *)
Theorem C09_cursor : forall (p rest : bytes) pf0 pw0 e,
  next_field (Z.of_nat (length p)) {| pf := pf0; pw := pw0; buf := p ++ rest; err := e |} =
  next_field 0 {| pf := pf0; pw := pw0; buf := rest; err := e |}.
Proof. exact next_field_advance. Qed.
(* later scalars overwrite earlier ones: the value read does not depend on the old value *)
Theorem C09_overwrite : forall k field v v0 v1 rest e, scalar_ok k v = true ->
  snd (dec_single k field {| pf := field; pw := wire_of k; buf := enc_payload k v ++ rest; err := e |} v0) =
  snd (dec_single k field {| pf := field; pw := wire_of k; buf := enc_payload k v ++ rest; err := e |} v1).
Proof. intros. rewrite !dec_single_value by assumption. reflexivity. Qed.

(* the tokens of a concatenation are the tokens of the pieces (groups of any depth, non-minimal varints, ... included) *)
Theorem C09_tokens : forall a b ta, bytes_ok a -> tokens a = Some ta ->
  tokens (a ++ b) = match tokens b with Some tb => Some (ta ++ tb) | None => None end.
Proof. exact tokens_app. Qed.
(* the reference decoder merges: decoding a ++ b = decoding b into the result of decoding a *)
Theorem C09_reference : forall g s idx a b x y, bytes_ok a -> ref_decode g s idx a x = Some y ->
  ref_decode g s idx (a ++ b) x = ref_decode g s idx b y.
Proof. exact ref_decode_app. Qed.
(* C09 for Unmarshal of generated code, every message type whose reachable types are in the feature set, every pair of byte strings (valid
   encodings of anything, in particular picobuf's own): if the pieces decode one after another without error into
   t1 and then t2, then the concatenation decodes in one call to exactly t2 - repeated fields appended across the
   boundary, sub-messages merged, maps overwritten per key, the last oneof member winning, nothing reset. *)
Theorem C09_unmarshal_concat : forall s progs idx a b t0 t1 t2,
  gen_all s = GOk progs -> tdec_applies_at s idx = true -> bytes_ok a -> bytes_ok b ->
  pico_unmarshal progs idx a t0 = (None, t1) -> pico_unmarshal progs idx b t1 = (None, t2) ->
  pico_unmarshal progs idx (a ++ b) t0 = (None, t2).
Proof. exact unmarshal_concat. Qed.

Example C09_nonvacuous : next_field 1 {| pf := 1; pw := 0; buf := [5; 16; 7]; err := None |} = {| pf := 2; pw := 0; buf := [7]; err := None |}.
Proof. vm_compute. reflexivity. Qed.

Print Assumptions C09_no_reset.
Print Assumptions C09_cursor.
Print Assumptions C09_overwrite.
Print Assumptions C09_tokens.
Print Assumptions C09_reference.
Print Assumptions C09_unmarshal_concat.
