(* C09 - decoding concatenated encodings equals decoding them one after another. *)
From Coq Require Import List ZArith Bool.
From Pico Require Import Base.Res Base.Mach Wire.Wire Schema.Types Schema.Scalar Ref.Ref Dec.Dec Dec.ReaderProofs.
Import ListNotations.
Open Scope Z_scope.

(* Unmarshal never resets what the input does not mention: a reader whose field is not the
   pending one leaves decoder and target untouched *)
Theorem C09_no_reset : forall k field st v, field <> pf st -> dec_single k field st v = (st, v).
Proof. exact dec_single_other. Qed.
(* consuming a value of n bytes leaves exactly the rest of the input: the cursor after the
   first encoding is the cursor at the start of the second *)
Theorem C09_cursor : forall (p rest : bytes) pf0 pw0 e,
  next_field (Z.of_nat (length p)) {| pf := pf0; pw := pw0; buf := p ++ rest; err := e |} =
  next_field 0 {| pf := pf0; pw := pw0; buf := rest; err := e |}.
Proof. exact next_field_advance. Qed.
(* later scalars overwrite earlier ones: the value read does not depend on the old value *)
Theorem C09_overwrite : forall k field v v0 v1 rest e, scalar_ok k v = true ->
  snd (dec_single k field {| pf := field; pw := wire_of k; buf := enc_payload k v ++ rest; err := e |} v0) =
  snd (dec_single k field {| pf := field; pw := wire_of k; buf := enc_payload k v ++ rest; err := e |} v1).
Proof. intros. rewrite !dec_single_value by assumption. reflexivity. Qed.

(* PARTIAL. pico_unmarshal (a ++ b) m0 = pico_unmarshal b (pico_unmarshal a m0) for whole messages
   (repeated append, sub-message merge, map overwrite, last oneof member) is decided per run on
   histories of 1-4 calls: implementation sequential = implementation one-shot = model (both ways)
   = ref_decode = protobuf-go on the concatenation. *)

Example C09_nonvacuous : next_field 1 {| pf := 1; pw := 0; buf := [5; 16; 7]; err := None |} = {| pf := 2; pw := 0; buf := [7]; err := None |}.
Proof. vm_compute. reflexivity. Qed.

Print Assumptions C09_no_reset.
Print Assumptions C09_cursor.
Print Assumptions C09_overwrite.
