(* C16 - concurrent encoding and decoding are race-free. *)
From Coq Require Import List String Arith.
From Pico Require Import Small.Sched gen.Globals.
Import ListNotations.

(* Any finite interleaving of threads that write only private state (their own Encoder /
   Decoder / target message) and only read shared data (the message being marshalled, the input
   bytes) gives every thread exactly its sequential result. *)
Theorem C16_sched : forall (Env St : Type) (step : Env -> nat -> St -> St) env sched sts i s,
  nth_error sts i = Some s ->
  nth_error (run Env St step env sched sts) i = Some (iter St (count_occ Nat.eq_dec sched i) (step env i) s).
Proof. exact schedule_independent. Qed.

(* The side condition "no step writes shared state", discharged from the package-level
   variables of the runtime packages regenerated from the source on this run (T-globals):
   none is ever assigned, incremented or has its address taken, no goroutine is started and no
   sync/unsafe package is imported. *)
Theorem C16_no_shared_mutable_state : shared_mutable = [] /\ goroutines_started = [] /\ sync_or_unsafe_imports = [].
Proof. repeat split; reflexivity. Qed.

(* PARTIAL: that the operations of the Go code are functions of their arguments and private state
   is the correspondence of the executable model with the implementation; absence of data races
   in the compiled code is observed with the Go race detector (runtime), which no Gallina model
   can exhibit. *)

Example C16_nonvacuous : List.length package_level_vars >= 1.
Proof. vm_compute. repeat constructor. Qed.

Print Assumptions C16_sched.
Print Assumptions C16_no_shared_mutable_state.
