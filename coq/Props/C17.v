(* C17 - results are independent of buffer provenance; arguments are never modified. *)
From Coq Require Import List ZArith Bool Arith.
From Pico Require Import Base.Res Base.Mach Wire.Wire Schema.Types Schema.Scalar Ref.Ref Schema.ScalarProofs Enc.Enc Enc.EncProofs Enc.CBuf Schema.Gen Schema.Interp Schema.EncSpec Schema.EncProgProofs Schema.Calls Enc.CBufProg Enc.CBufMsg.
Import ListNotations.
Open Scope nat_scope.

(* A supplied buffer is (backing array with arbitrary stale contents, len, cap = array length)
   and append may grow by any policy. MarshalBuffer/NewEncoderBuffer start from buffer[:0]: *)
Theorem C17_reset : forall b, view (reset_c b) = [] /\ (wf b -> wf (reset_c b)).
Proof. exact view_reset. Qed.
(* and every primitive the encoder performs on its buffer commutes with the view buffer[:len],
   whatever the capacity, the stale bytes beyond len and the growth policy are: *)
Theorem C17_append : forall extra b xs, wf b -> view (append_c extra b xs) = view b ++ xs /\ wf (append_c extra b xs).
Proof. exact view_append. Qed.
Theorem C17_reslice : forall b n, wf b -> n <= len b -> exists b', reslice_c b n = Ok b' /\ view b' = firstn n (view b) /\ wf b'.
Proof. exact view_reslice. Qed.
Theorem C17_copy : forall b dst src, wf b ->
  match copy_c b dst src, copy_within (view b) dst src with
  | Ok b', Ok v => view b' = v /\ wf b' | Panic, Panic => True | _, _ => False end.
Proof. exact view_copy. Qed.
Theorem C17_put : forall b pos k x, wf b ->
  match put_c b pos k x, put_uvarint_at (view b) pos k x with
  | Ok b', Ok v => view b' = v /\ wf b' | Panic, Panic => True | _, _ => False end.
Proof. exact view_put. Qed.
(* on the view, what is appended never depends on what the buffer already holds *)
Theorem C17_position_independent : forall field fn buf p ok,
  valid_number field = true -> len_ok p -> (forall b, fn b = Ok (b ++ p, ok)) ->
  any_bytes field fn buf = Ok ((if ok then buf ++ spec_ld field p else buf), ok).
Proof. exact any_bytes_spec. Qed.

(* whole messages, any program, any nesting depth: what Encode appends to a buffer is what it writes into an empty one -
   the bytes already in the buffer (a reused buffer's earlier content below len) are never read and never changed *)
Theorem C17_encode_appends_only : forall fuel progs idx m buf, msg_ok fuel progs idx m = true ->
  enc_msg fuel progs idx m buf =
  match enc_msg fuel progs idx m [] with Ok (b, ok) => Ok ((buf ++ b)%list, ok) | Panic => Panic end.
Proof. exact enc_append_only. Qed.

(* PARTIAL: composing these per-primitive refinements into "Marshal over any cbuf = pico_marshal"
   for whole encoder programs is not carried out in Coq; MarshalBuffer/NewEncoderBuffer = Marshal is
   validated over (len, cap, prior content) including tight capacities that force growth in the
   middle of the length patching. Argument immutability is true of the model by construction
   (values are immutable) and validated by before/after snapshots on every correspondence case. *)

(* PROGRAMS of Encoder calls on a CONCRETE buffer (backing array with arbitrary stale content, any length and capacity, any
   growth policy `extra` of append): typed writers, packed lists behind a patched length, RepeatedEnum, UnrecognizedFields and
   Message / AlwaysMessage / PresentMessage / AlwaysAnyBytes nested to any depth (reserve two bytes, call back, then patch,
   shift by memmove or roll back). The visible bytes of the result are the visible bytes of the start followed by the
   reference encoding: no stale byte is ever exposed, nothing depends on where the buffer came from. *)
Theorem C17_programs_on_any_buffer : forall extra fuel cs b, wf b -> forallb (call_ok fuel) cs = true ->
  exists b', run_calls_c extra fuel cs b = Ok b' /\ view b' = view b ++ flat_map (spec_call fuel) cs /\ wf b'.
Proof. exact run_calls_c_spec. Qed.

(* ... and the concrete run is, step for step, the list-level run the other theorems speak about *)
Theorem C17_concrete_refines_abstract : forall extra fuel cs b, wf b ->
  match run_calls fuel cs (view b) with
  | Ok v => exists b', run_calls_c extra fuel cs b = Ok b' /\ view b' = v /\ wf b'
  | Panic => True
  end.
Proof. intros extra fuel cs b Hw. exact (run_calls_refines extra fuel cs b Hw). Qed.

(* MarshalBuffer / NewEncoderBuffer cut the buffer to length 0 first: two buffers of any provenance give the same bytes *)
Theorem C17_encode_into_any_buffer : forall extra fuel cs b1 b2, wf b1 -> wf b2 -> forallb (call_ok fuel) cs = true ->
  exists r1 r2, run_calls_c extra fuel cs (reset_c b1) = Ok r1 /\ run_calls_c extra fuel cs (reset_c b2) = Ok r2 /\
                view r1 = view r2 /\ view r1 = flat_map (spec_call fuel) cs.
Proof. exact encode_into_any_buffer. Qed.

(* GENERATED Encode methods (the interpreter of emitted programs, every statement kind: scalars, packed lists, sub-messages
   by pointer / by value / repeated, oneof members, Timestamp / Duration / map casts, captured unrecognized fields) run on
   a concrete buffer refine the list-level run the other theorems (T_enc, C01, C03, C06) speak about, for every program
   list, message, nesting depth, backing array, capacity and growth policy *)
Theorem C17_generated_encode_refines : forall extra progs fuel idx m b, wf b ->
  match enc_msg fuel progs idx m (view b) with
  | Ok (v, ok) => exists b', enc_msg_c extra fuel progs idx m b = Ok (b', ok) /\ view b' = v /\ wf b'
  | Panic => True
  end.
Proof. intros extra progs fuel idx m b Hw. exact (enc_msg_refines extra progs fuel idx m b Hw). Qed.

(* MarshalBuffer(msg, buffer) for a buffer of ANY provenance returns exactly the bytes of Marshal(msg) *)
Theorem C17_marshal_buffer_is_marshal : forall extra fuel progs idx m b v, wf b -> pico_marshal fuel progs idx m = Ok v ->
  exists b', pico_marshal_buffer extra fuel progs idx m b = Ok b' /\ view b' = v /\ wf b'.
Proof. exact marshal_buffer_is_marshal. Qed.

Example C17_nonvacuous : view (append_c (fun _ _ => [9; 9]%Z) {| arr := [1; 2; 7; 7]%Z; len := 2 |} [5; 6; 8]%Z) = [1; 2; 5; 6; 8]%Z /\
  view (append_c (fun _ _ => []) {| arr := [1; 2; 7; 7]%Z; len := 2 |} [5]%Z) = [1; 2; 5]%Z.
Proof. split; vm_compute; reflexivity. Qed.

(* a nested message holding a packed list, into a dirty buffer with one spare byte, then into a fresh one *)
Local Open Scope Z_scope.
Definition c17_prog : list ecall := [CMessage 3 [CScalar KInt32 false true 1 [VInt 1; VInt 300]; CScalar KString false false 2 [VBytes [104; 105]]] true; CMessage 4 [CUnrec [8; 1]] false].
Example C17_program_nonvacuous :
  forallb (call_ok 4%nat) c17_prog = true /\
  (match run_calls_c (fun _ _ => [170; 170; 170]) 4%nat c17_prog (reset_c {| arr := [255; 254; 253]; len := 2%nat |}) with Ok r => view r | Panic => [] end) =
    [26; 9; 10; 3; 1; 172; 2; 18; 2; 104; 105]%Z /\
  (match run_calls_c (fun _ _ => []) 4%nat c17_prog {| arr := []; len := 0%nat |} with Ok r => view r | Panic => [] end) =
    [26; 9; 10; 3; 1; 172; 2; 18; 2; 104; 105]%Z.
Proof. repeat split; vm_compute; reflexivity. Qed.
Local Close Scope Z_scope.

(* message { int32 a = 1; Sub s = 2; repeated sint32 l = 3; }  Sub { string t = 1; }  into a dirty, too small buffer *)
Local Open Scope Z_scope.
Definition c17_progs : list prog :=
  [{| p_enc := [EScalar KInt32 false false false 0 1; EMsgPtr 1 2 1; EScalar KSint32 false true false 2 3]; p_dec := []; p_zero := [] |};
   {| p_enc := [EScalar KString false false false 0 1]; p_dec := []; p_zero := [] |}].
Definition c17_msg : msgv := ([VInt 300; VMsg (Some ([VBytes [104; 105]], [])); VList [VInt (-1); VInt 64]], []).
Example C17_marshal_buffer_nonvacuous :
  pico_marshal 4%nat c17_progs 0%nat c17_msg = Ok [8; 172; 2; 18; 4; 10; 2; 104; 105; 26; 3; 1; 128; 1] /\
  (match pico_marshal_buffer (fun _ _ => [238; 238]) 4%nat c17_progs 0%nat c17_msg {| arr := [255; 254; 253; 252; 251]; len := 4%nat |} with
   | Ok r => view r | Panic => [] end) = [8; 172; 2; 18; 4; 10; 2; 104; 105; 26; 3; 1; 128; 1].
Proof. split; vm_compute; reflexivity. Qed.
Local Close Scope Z_scope.

Print Assumptions C17_encode_appends_only.
Print Assumptions C17_append.
Print Assumptions C17_reslice.
Print Assumptions C17_copy.
Print Assumptions C17_put.
Print Assumptions C17_programs_on_any_buffer.
Print Assumptions C17_concrete_refines_abstract.
Print Assumptions C17_encode_into_any_buffer.
Print Assumptions C17_generated_encode_refines.
Print Assumptions C17_marshal_buffer_is_marshal.
