(* C10 - unknown fields never disturb known ones; captured ones are forwarded intact. *)
From Coq Require Import List ZArith Bool.
From Pico Require Import Base.Res Base.Mach Wire.Wire Schema.Types Schema.Scalar Ref.Ref
  Wire.VarintProofs Wire.WireProofs Dec.Dec Dec.ReaderProofs Dec.SafetyProofs Schema.Gen Schema.Interp Schema.TDec.
Import ListNotations.
Open Scope Z_scope.

(* a reader for a known field ignores a pending unknown field completely *)
Theorem C10_known_untouched : forall k field st v, field <> pf st -> dec_single k field st v = (st, v).
Proof. exact dec_single_other. Qed.
(* captured fields are re-tagged with the canonical tag of their number and wire type *)
Theorem C10_retag : forall num typ, 1 <= num <= 2 ^ 31 - 1 -> 0 <= typ < 8 -> pw_append_tag num typ = spec_tag num typ.
Proof. exact pw_append_tag_spec. Qed.
(* skipping an unknown varint consumes exactly its bytes *)
Theorem C10_skip_varint : forall num v rest, u64_ok v ->
  consume_field_value num VarintType (spec_varint v ++ rest) = Z.of_nat (length (spec_varint v)).
Proof.
  intros num v rest H. unfold consume_field_value. cbn [consume_field_value_d].
  change (VarintType =? VarintType) with true. cbv iota. rewrite consume_spec_varint by exact H. reflexivity.
Qed.

(* Whole messages. In the reference decoder a token whose number no field has leaves every known field as it was,
   and (only) a capturing message appends it - canonical tag, then the value bytes exactly as in the input - to
   XXX_unrecognized, in input order; Unmarshal computes that decoder's result on every input (C02 T_dec), so
   the same holds of the generated code. *)
Theorem C10_unknown_token : forall s rec m tok fs un, find_field m (t_num tok) = None ->
  apply_token s rec m tok (fs, un) =
  Some (fs, if m_capture m then un ++ spec_tag (t_num tok) (t_wt tok) ++ t_raw tok else un).
Proof. intros s rec m tok fs un H. unfold apply_token. rewrite H. cbn [fst snd]. destruct (m_capture m); reflexivity. Qed.
Theorem C10_unmarshal_is_reference_decoder : forall s progs idx data t0,
  gen_all s = GOk progs -> tdec_applies_at s idx = true -> Dec.SafetyProofs.bytes_ok data ->
  let r := pico_unmarshal progs idx data t0 in
  match ref_decode (S (S (S (length data)))) s idx data t0 with
  | Some t'' => fst r = None /\ snd r = t''
  | None => fst r <> None
  end.
Proof. exact T_dec_at. Qed.

Example C10_nonvacuous : consume_field_value 5 StartGroupType [8; 1; 44] = 3 /\ consume_field_value 5 StartGroupType [8; 1; 52] = errEndGroup.
Proof. split; vm_compute; reflexivity. Qed.

Print Assumptions C10_known_untouched.
Print Assumptions C10_retag.
Print Assumptions C10_skip_varint.
Print Assumptions C10_unknown_token.
Print Assumptions C10_unmarshal_is_reference_decoder.
