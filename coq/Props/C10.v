(* C10 - unknown fields never disturb known ones; captured ones are forwarded intact. *)
From Coq Require Import List ZArith Bool.
From Pico Require Import Base.Res Base.Mach Wire.Wire Schema.Types Schema.Scalar Ref.Ref
  Wire.VarintProofs Wire.WireProofs Dec.Dec Dec.ReaderProofs Dec.SafetyProofs.
Import ListNotations.
Open Scope Z_scope.

(* a reader for a known field ignores a pending unknown field completely *)
Theorem C10_known_untouched : forall k field st v, field <> pf st -> dec_single k field st v = (st, v).
Proof. exact dec_single_other. Qed.
(* captured fields are re-tagged with the canonical tag of their number and wire type *)
Theorem C10_retag : forall num typ, 1 <= num <= 2 ^ 31 - 1 -> 0 <= typ < 8 -> pw_append_tag num typ = spec_tag num typ.
Proof. exact pw_append_tag_spec. Qed.
(* skipping an unknown varint consumes exactly its bytes *)
Theorem C10_skip_varint : forall num v rest, u64_ok v ->
  consume_field_value num VarintType (spec_varint v ++ rest) = Z.of_nat (length (spec_varint v)).
Proof.
  intros num v rest H. unfold consume_field_value. cbn [consume_field_value_d].
  change (VarintType =? VarintType) with true. cbv iota. rewrite consume_spec_varint by exact H. reflexivity.
Qed.

(* PARTIAL. The whole-message statements (known fields unchanged by injected unknown fields of any
   wire type incl. nested groups; captured bytes = the unknown fields in order; forwarding through
   a narrow schema) are decided per run on the unknown-injection rewrites and on captured bytes. *)

Example C10_nonvacuous : consume_field_value 5 StartGroupType [8; 1; 44] = 3 /\ consume_field_value 5 StartGroupType [8; 1; 52] = errEndGroup.
Proof. split; vm_compute; reflexivity. Qed.

Print Assumptions C10_known_untouched.
Print Assumptions C10_retag.
Print Assumptions C10_skip_varint.
