(* C14 - Time and Duration conversions match google.protobuf Timestamp/Duration. *)
From Coq Require Import List ZArith Bool Lia.
From Pico Require Import Base.Res Base.Mach Wire.Wire Schema.Types Schema.Scalar Ref.Ref Schema.Conv Schema.ConvProofs Schema.Interp Schema.EncSpec Schema.EncProgProofs.
Import ListNotations.
Open Scope Z_scope.

(* every time.Duration is split into (d quot 10^9, d rem 10^9): same sign, |nanos| < 10^9 *)
Theorem C14_dur_enc : forall d, int64 d ->
  dur_split d = (Z.quot d 1000000000, Z.rem d 1000000000) /\
  Z.abs (Z.rem d 1000000000) < 1000000000 /\ int32 (Z.rem d 1000000000) /\
  (0 <= d -> 0 <= Z.quot d 1000000000 /\ 0 <= Z.rem d 1000000000) /\
  (d <= 0 -> Z.quot d 1000000000 <= 0 /\ Z.rem d 1000000000 <= 0).
Proof. exact dur_split_spec. Qed.

(* any (int64 seconds, int32 nanos) pair: exact when it fits ... *)
Theorem C14_dur_fits : forall sec nanos, int64 sec -> int32 nanos -> fits sec nanos ->
  dur_join sec nanos = sec * 1000000000 + nanos.
Proof. exact dur_join_fits. Qed.
(* ... saturated to Min/MaxInt64 by the sign of seconds otherwise: never a wrapped value
   (in particular the d/Second != seconds test detects every overflow of the product) *)
Theorem C14_dur_sat : forall sec nanos, int64 sec -> int32 nanos -> ~ fits sec nanos ->
  dur_join sec nanos = if sec <? 0 then MinInt64 else MaxInt64.
Proof. exact dur_join_saturates. Qed.

Theorem C14_dur_rt : forall d, int64 d -> let '(s, n) := dur_split d in dur_join s n = d.
Proof. exact dur_roundtrip. Qed.

(* Timestamp: normalisation of (seconds, nanos) for every int32 nanos, and identity on instants *)
Theorem C14_ts_norm : forall sec nanos, int64 sec -> int32 nanos -> int64 (sec + nanos / 1000000000) ->
  time_unix sec nanos = (sec + nanos / 1000000000, nanos mod 1000000000).
Proof. exact time_unix_norm. Qed.
Theorem C14_ts_rt : forall sec nsec, int64 sec -> 0 <= nsec < 1000000000 -> time_unix sec (s32 nsec) = (sec, nsec).
Proof. exact time_roundtrip. Qed.

(* the BYTES (whole PicoEncode call, appended to any buffer): a zero Time writes nothing; any other instant writes the
   length-delimited reference sub-message {seconds = 1 (int64), nanos = 2 (int32)} with default-valued members omitted;
   a Duration always writes the sub-message of its (seconds, nanos) split *)
Theorem C14_zero_time_absent : forall num buf, enc_timestamp num zero_time_sec 0 buf = Ok buf.
Proof. intros. reflexivity. Qed.
Theorem C14_time_bytes : forall num sec nsec buf, int64 sec -> 0 <= nsec < 1000000000 -> valid_number num = true ->
  enc_timestamp num sec nsec buf =
  Ok (buf ++ (if time_is_zero sec nsec then [] else spec_ld num (sp_sec_nanos sec (s32 nsec)))).
Proof.
  intros num sec nsec buf Hs Hn Hv.
  apply (enc_cast_elem_sp CastTs num (VTime sec nsec) buf); [|exact Hv|reflexivity].
  cbn [cast_elem_ok]. unfold in_sb. unfold int64, in_s in Hs. change (64 - 1) with 63 in *.
  repeat (apply andb_true_iff; split); try apply Z.leb_le; try apply Z.ltb_lt; lia.
Qed.
Theorem C14_duration_bytes : forall num d buf, int64 d -> valid_number num = true ->
  enc_duration num d buf = Ok (buf ++ (let '(s, n) := dur_split d in spec_ld num (sp_sec_nanos s n))).
Proof.
  intros num d buf Hd Hv.
  apply (enc_cast_elem_sp CastDur num (VDur d) buf); [|exact Hv|reflexivity].
  cbn [cast_elem_ok]. unfold in_sb. unfold int64, in_s in Hd. change (64 - 1) with 63 in *. apply andb_true_iff; split; [apply Z.leb_le|apply Z.ltb_lt]; lia.
Qed.

(* PARTIAL: that the bytes are those of durationpb.New/timestamppb.New follows from C13's writer
   theorems for the two Int64/Int32 fields inside Message; equality with the protobuf-go
   conversions themselves (AsDuration/AsTime, time.Unix) is validated by correspondence, the
   Go standard library's time package being modelled, not verified. *)

Example C14_nonvacuous :
  int64 9223372036 /\ int32 999999999 /\ ~ fits 9223372036 999999999 /\
  dur_join 9223372036 999999999 = MaxInt64 /\ dur_join (-9223372037) 999999999 = MinInt64 /\
  dur_split (-1500000000) = (-1, -500000000) /\ time_unix 5 (-1) = (4, 999999999).
Proof.
  repeat split; try (vm_compute; congruence); try reflexivity.
  intros [F1 F2]. unfold int64 in *. vm_compute in F2. destruct F2 as [_ F2]. discriminate F2.
Qed.

Print Assumptions C14_dur_enc.
Print Assumptions C14_dur_fits.
Print Assumptions C14_dur_sat.
Print Assumptions C14_dur_rt.
Print Assumptions C14_ts_norm.
Print Assumptions C14_zero_time_absent.
Print Assumptions C14_time_bytes.
Print Assumptions C14_duration_bytes.
Print Assumptions C14_ts_rt.
