(* C13 - each low-level Encoder/Decoder call handles exactly one reference-encoded field. *)
From Coq Require Import List ZArith Bool.
From Pico Require Import Base.Res Base.Mach Wire.Wire Schema.Types Schema.Scalar Ref.Ref
  Schema.ScalarProofs Enc.Enc Enc.EncProofs Dec.Dec Dec.ReaderProofs gen.ConvGen gen.TypesTable.
Import ListNotations.
Open Scope Z_scope.

(* Writers: for each of the 15 kinds, Always or not, every value of the Go type and every
   valid field number 1..2^29-1, whatever the buffer holds: the method appends exactly
   tag ++ payload of the specification, or nothing for a non-Always writer on the default. *)
Theorem C13_writer : forall k always num v buf,
  scalar_ok k v = true -> valid_number num = true ->
  enc_single k always num v buf = buf ++ (if negb always && spec_default k v then [] else spec_field k num v).
Proof. exact enc_single_spec. Qed.

(* Nesting: Message / AlwaysMessage / PresentMessage / AlwaysAnyBytes around a callback that
   appends p compose to tag ++ minimal length ++ p for every payload length, never panic,
   and leave no trace when the callback reports absence. *)
Theorem C13_nest_message : forall field fn buf p ok,
  valid_number field = true -> len_ok p -> (forall b, fn b = Ok (b ++ p, ok)) ->
  enc_message field fn buf = Ok (if ok then buf ++ spec_ld field p else buf).
Proof. exact enc_message_spec. Qed.
Theorem C13_nest_always : forall field fn buf p,
  valid_number field = true -> len_ok p -> (forall b, fn b = Ok (b ++ p)) ->
  always_any_bytes field fn buf = Ok (buf ++ spec_ld field p).
Proof. exact always_any_bytes_spec. Qed.
Theorem C13_nest_present : forall field fn buf p ok,
  valid_number field = true -> len_ok p -> (forall b, fn b = Ok (b ++ p, ok)) ->
  enc_present_message field fn buf = Ok (match p with [] => buf | _ => buf ++ spec_ld field p end).
Proof. exact enc_present_message_spec. Qed.

(* Readers (single typed readers of all 15 kinds): *)
Theorem C13_reader_other : forall k field st v, field <> pf st -> dec_single k field st v = (st, v).
Proof. exact dec_single_other. Qed.
Theorem C13_reader_wrong_wire : forall k field st v, field = pf st -> pw st <> wire_of k ->
  dec_single k field st v = (fail field EWire st, v).
Proof. exact dec_single_wrong_wire. Qed.
Theorem C13_reader_value : forall k field v v0 rest e, scalar_ok k v = true ->
  dec_single k field {| pf := field; pw := wire_of k; buf := enc_payload k v ++ rest; err := e |} v0 =
  (next_field 0 {| pf := field; pw := wire_of k; buf := rest; err := e |}, v).
Proof. exact dec_single_value. Qed.
(* after the value, the cursor stands on the next reference tag *)
Theorem C13_reader_next : forall num wt rest pf0 pw0 e, valid_number num = true -> 0 <= wt < 8 ->
  next_field 0 {| pf := pf0; pw := pw0; buf := spec_tag num wt ++ rest; err := e |} =
  {| pf := num; pw := wt; buf := rest; err := e |}.
Proof. exact next_field_tag. Qed.

(* PARTIAL: the contracts of Repeated* readers (all consecutive occurrences, packed and
   unpacked), of Message/PresentMessage/RepeatedMessage/RepeatedEnum/UnrecognizedFields and
   of arbitrary *programs* of writer calls are tied to the code by the exhaustive
   correspondence grids only; see DESIGN.md (C13). *)

(* tie to the source by translation: the zig-zag terms regenerated from conv.go/wire.go are the
   model's, and the generator's types table is the one the model mirrors *)
Theorem C13_source_conv : (forall x, gen_encode_zigzag32 x = encode_zigzag32 x) /\ (forall x, gen_decode_zigzag32 x = decode_zigzag32 x) /\
  (forall x, gen_encode_zigzag64 x = encode_zigzag64 x) /\ (forall x, gen_decode_zigzag64 x = decode_zigzag64 x) /\
  gen_types_table = Schema.TableSpec.expected_types_table.
Proof.
  split; [exact gen_encode_zigzag32_ok|]. split; [exact gen_decode_zigzag32_ok|].
  split; [exact gen_encode_zigzag64_ok|]. split; [exact gen_decode_zigzag64_ok|exact types_table_ok].
Qed.

Example C13_nonvacuous :
  scalar_ok KSint32 (VInt (-1)) = true /\ valid_number 536870911 = true /\
  enc_single KSint32 false 536870911 (VInt (-1)) [9] = [9; 248; 255; 255; 255; 15; 1].
Proof. repeat split; vm_compute; reflexivity. Qed.

Print Assumptions C13_writer.
Print Assumptions C13_nest_message.
Print Assumptions C13_nest_always.
Print Assumptions C13_nest_present.
Print Assumptions C13_reader_value.
Print Assumptions C13_reader_next.
