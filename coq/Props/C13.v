(* C13 - each low-level Encoder/Decoder call handles exactly one reference-encoded field. *)
From Coq Require Import List ZArith Bool.
From Pico Require Import Base.Res Base.Mach Wire.Wire Schema.Types Schema.Scalar Ref.Ref
  Schema.ScalarProofs Enc.Enc Enc.EncProofs Dec.Dec Dec.ReaderProofs Dec.SafetyProofs Dec.LoopInst Dec.TokenBridge Dec.StreamLoop Dec.ReaderBridge Schema.TDec Schema.Interp Schema.EncSpec Schema.Calls gen.ConvGen gen.TypesTable.
From Pico Require Import Dec.Dec Schema.ErrName.
Import ListNotations.
Open Scope Z_scope.

(* Writers: for each of the 15 kinds, Always or not, every value of the Go type and every
   valid field number 1..2^29-1, whatever the buffer holds: the method appends exactly
   tag ++ payload of the specification, or nothing for a non-Always writer on the default. *)
Theorem C13_writer : forall k always num v buf,
  scalar_ok k v = true -> valid_number num = true ->
  enc_single k always num v buf = buf ++ (if negb always && spec_default k v then [] else spec_field k num v).
Proof. exact enc_single_spec. Qed.

(* Nesting: Message / AlwaysMessage / PresentMessage / AlwaysAnyBytes around a callback that
   appends p compose to tag ++ minimal length ++ p for every payload length, never panic,
   and leave no trace when the callback reports absence. *)
Theorem C13_nest_message : forall field fn buf p ok,
  valid_number field = true -> len_ok p -> (forall b, fn b = Ok (b ++ p, ok)) ->
  enc_message field fn buf = Ok (if ok then buf ++ spec_ld field p else buf).
Proof. exact enc_message_spec. Qed.
Theorem C13_nest_always : forall field fn buf p,
  valid_number field = true -> len_ok p -> (forall b, fn b = Ok (b ++ p)) ->
  always_any_bytes field fn buf = Ok (buf ++ spec_ld field p).
Proof. exact always_any_bytes_spec. Qed.
Theorem C13_nest_present : forall field fn buf p ok,
  valid_number field = true -> len_ok p -> (forall b, fn b = Ok (b ++ p, ok)) ->
  enc_present_message field fn buf = Ok (match p with [] => buf | _ => buf ++ spec_ld field p end).
Proof. exact enc_present_message_spec. Qed.

(* Readers (single typed readers of all 15 kinds): *)
Theorem C13_reader_other : forall k field st v, field <> pf st -> dec_single k field st v = (st, v).
Proof. exact dec_single_other. Qed.
Theorem C13_reader_wrong_wire : forall k field st v, field = pf st -> pw st <> wire_of k ->
  dec_single k field st v = (fail field EWire st, v).
Proof. exact dec_single_wrong_wire. Qed.
Theorem C13_reader_value : forall k field v v0 rest e, scalar_ok k v = true ->
  dec_single k field {| pf := field; pw := wire_of k; buf := enc_payload k v ++ rest; err := e |} v0 =
  (next_field 0 {| pf := field; pw := wire_of k; buf := rest; err := e |}, v).
Proof. exact dec_single_value. Qed.
(* after the value, the cursor stands on the next reference tag *)
Theorem C13_reader_next : forall num wt rest pf0 pw0 e, valid_number num = true -> 0 <= wt < 8 ->
  next_field 0 {| pf := pf0; pw := pw0; buf := spec_tag num wt ++ rest; err := e |} =
  {| pf := num; pw := wt; buf := rest; err := e |}.
Proof. exact next_field_tag. Qed.

(* Readers on ARBITRARY input: a typed single reader on its pending field consumes exactly one value of the wire
   grammar and stores the protobuf conversion of it, or fails (sticky error) exactly where the grammar has no such
   value or the wire type is not the kind's *)
Theorem C13_reader_any_input : forall k num rest, bytes_ok rest ->
  match parse_value num (wire_of k) rest with
  | Some (p, kk) => exists x, tok_scalar k {| t_num := num; t_wt := wire_of k; t_pay := p; t_raw := firstn kk rest |} = Some x /\
                              dec_payload k rest = (x, Z.of_nat kk)
  | None => snd (dec_payload k rest) < 0
  end.
Proof. exact dec_payload_parse. Qed.
(* one iteration of a Repeated<K> reader on its pending field: one packed record (all its elements, = the reference
   unpacker) or one unpacked element is appended and the cursor moves to the next tag; otherwise a sticky error *)
Theorem C13_repeated_reader_iteration : forall k f fuel st vs, err st = None -> bytes_ok (buf st) -> pf st = f ->
  match parse_value f (pw st) (buf st) with
  | None => err (fst (dec_repeated (S fuel) k f st vs)) <> None /\ bytes_ok (buf (fst (dec_repeated (S fuel) k f st vs)))
  | Some (p, kk) =>
      match rep_elems k (tok_of st p kk) with
      | None => err (fst (dec_repeated (S fuel) k f st vs)) <> None /\ bytes_ok (buf (fst (dec_repeated (S fuel) k f st vs)))
      | Some xs => dec_repeated (S fuel) k f st vs = dec_repeated fuel k f (next_field (Z.of_nat kk) st) (vs ++ xs)
      end
  end.
Proof. exact rep_iter. Qed.
Theorem C13_packed_is_reference_unpack : forall k, is_scalar_wire k = true -> forall fuel b acc, bytes_ok b -> (length b < fuel)%nat ->
  match unpack fuel k b with
  | Some xs => dec_packed fuel k b acc = (acc ++ xs, true)
  | None => snd (dec_packed fuel k b acc) = false
  end.
Proof. exact dec_packed_unpack. Qed.
(* a Repeated* reader only appends: on ANY input (valid or not, packed or not, however many records, error half-way or
   not) the list it leaves is the list it found followed by new elements - nothing decoded earlier is lost or rewritten *)
Theorem C13_repeated_reader_appends : forall k f fuel st vs, exists xs, snd (dec_repeated fuel k f st vs) = vs ++ xs.
Proof. intros k f fuel st vs. exact (repeated_reader_appends k f fuel st vs). Qed.

(* Message / PresentMessage / RepeatedMessage / UnrecognizedFields and arbitrary generated programs of calls: their
   contracts are the lemmas dec_message_step, repmsg_iter, unrec_loop of Schema/TDec.v, composed into T_dec (C02). *)

(* PROGRAMS of Encoder calls, as a hand-written custom type may issue them - any sequence of typed writers, RepeatedEnum,
   UnrecognizedFields and Message / AlwaysMessage / PresentMessage / AlwaysAnyBytes nested to any depth, whose callbacks may
   write anything and then report presence or absence: the buffer receives exactly the concatenation of the reference
   encodings (length prefixes minimal at every level), whatever it held before *)
Theorem C13_encoder_programs : forall fuel cs buf, forallb (call_ok fuel) cs = true ->
  run_calls fuel cs buf = Ok (buf ++ flat_map (spec_call fuel) cs).
Proof. exact run_calls_spec. Qed.
(* ... and a Message whose callback reports absence leaves no trace, whatever it wrote before *)
Theorem C13_absent_message_no_trace : forall fuel field cs buf, call_ok fuel (CMessage field cs false) = true ->
  run_call fuel (CMessage field cs false) buf = Ok buf.
Proof. exact absent_message_no_trace. Qed.
Example C13_program_example :
  let p := [CMessage 1 [CScalar KInt32 false false 2 [VInt 7]; CMessage 3 [CScalar KString true false 1 [VBytes [104; 105]]] false] true; CUnrec [8; 1]] in
  forallb (call_ok 5) p = true /\ run_calls 5 p [9] = Ok [9; 10; 2; 16; 7; 8; 1].
Proof. split; vm_compute; reflexivity. Qed.

(* tie to the source by translation: the zig-zag terms regenerated from conv.go/wire.go are the
   model's, and the generator's types table is the one the model mirrors *)
Theorem C13_source_conv : (forall x, gen_encode_zigzag32 x = encode_zigzag32 x) /\ (forall x, gen_decode_zigzag32 x = decode_zigzag32 x) /\
  (forall x, gen_encode_zigzag64 x = encode_zigzag64 x) /\ (forall x, gen_decode_zigzag64 x = decode_zigzag64 x) /\
  gen_types_table = Schema.TableSpec.expected_types_table.
Proof.
  split; [exact gen_encode_zigzag32_ok|]. split; [exact gen_decode_zigzag32_ok|].
  split; [exact gen_encode_zigzag64_ok|]. split; [exact gen_decode_zigzag64_ok|exact types_table_ok].
Qed.

Example C13_nonvacuous :
  scalar_ok KSint32 (VInt (-1)) = true /\ valid_number 536870911 = true /\
  enc_single KSint32 false 536870911 (VInt (-1)) [9] = [9; 248; 255; 255; 255; 15; 1].
Proof. repeat split; vm_compute; reflexivity. Qed.

Print Assumptions C13_writer.
Print Assumptions C13_nest_message.
Print Assumptions C13_nest_always.
Print Assumptions C13_nest_present.
Print Assumptions C13_reader_value.
Print Assumptions C13_reader_next.
Print Assumptions C13_reader_any_input.
Print Assumptions C13_repeated_reader_iteration.
Print Assumptions C13_packed_is_reference_unpack.
Print Assumptions C13_encoder_programs.
Print Assumptions C13_repeated_reader_appends.
Print Assumptions C13_absent_message_no_trace.
