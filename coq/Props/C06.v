(* C06 - Marshal emits the canonical deterministic protobuf bytes. *)
From Coq Require Import List ZArith Bool.
From Pico Require Import Base.Res Base.Mach Wire.Wire Schema.Types Schema.Scalar Ref.Ref
  Schema.ScalarProofs Enc.Enc Enc.EncProofs Wire.VarintProofs Wire.WireProofs.
Import ListNotations.
Open Scope Z_scope.

(* minimal-length varints for every value ... *)
Theorem C06_minimal_varint : forall v, u64_ok v -> append_varint v = spec_varint v.
Proof. exact append_varint_spec. Qed.
(* ... every tag ... *)
Theorem C06_minimal_tag : forall num typ, 1 <= num <= MaxValidNumber -> 0 <= typ < 8 -> append_tag num typ = spec_tag num typ.
Proof. exact append_tag_spec. Qed.
(* ... and every length prefix at every nesting level and payload size: the two reserved
   bytes are replaced by the minimal encoding of the length (1, 2, or 3..10 bytes) *)
Theorem C06_minimal_length : forall pre p, len_ok p ->
  patch_length ((pre ++ Z2) ++ p) (length pre) (length (pre ++ Z2)) = Ok (pre ++ spec_varint (Z.of_nat (length p)) ++ p).
Proof. exact patch_length_spec. Qed.
(* default-valued singular fields are omitted, everything else is the canonical field *)
Theorem C06_field : forall k always num v buf, scalar_ok k v = true -> valid_number num = true ->
  enc_single k always num v buf = buf ++ (if negb always && spec_default k v then [] else spec_field k num v).
Proof. exact enc_single_spec. Qed.

(* PARTIAL: field order (ascending numbers), packing of repeated scalars and "unknown last"
   are properties of the generated programs; pico_marshal = ref_encode for whole messages is
   decided per run (model = implementation = ref_encode = protobuf-go deterministic output,
   and the literal fixpoint test bytes = remarshal(parse(bytes)) on the implementation). *)

Example C06_nonvacuous : len_ok (repeat 7 16384) /\ spec_varint 16384 = [128; 128; 1] /\ spec_varint 2097152 = [128; 128; 128; 1].
Proof. repeat split; vm_compute; reflexivity. Qed.

Print Assumptions C06_minimal_varint.
Print Assumptions C06_minimal_tag.
Print Assumptions C06_minimal_length.
Print Assumptions C06_field.
