(* C06 - Marshal emits the canonical deterministic protobuf bytes. *)
From Coq Require Import List ZArith Bool Sorted.
From Pico Require Import Base.Res Base.Mach Wire.Wire Schema.Types Schema.Scalar Ref.Ref
  Schema.ScalarProofs Enc.Enc Enc.EncProofs Wire.VarintProofs Wire.WireProofs
  Schema.Gen Schema.Interp Schema.EncSpec Schema.EncProgProofs Schema.TEnc Dec.TokenBridge Schema.RoundTrip Schema.Order gen.Schemas.
Import ListNotations.
Open Scope Z_scope.

(* minimal-length varints for every value ... *)
Theorem C06_minimal_varint : forall v, u64_ok v -> append_varint v = spec_varint v.
Proof. exact append_varint_spec. Qed.
(* ... every tag ... *)
Theorem C06_minimal_tag : forall num typ, 1 <= num <= MaxValidNumber -> 0 <= typ < 8 -> append_tag num typ = spec_tag num typ.
Proof. exact append_tag_spec. Qed.
(* ... and every length prefix at every nesting level and payload size: the two reserved
   bytes are replaced by the minimal encoding of the length (1, 2, or 3..10 bytes) *)
Theorem C06_minimal_length : forall pre p, len_ok p ->
  patch_length ((pre ++ Z2) ++ p) (length pre) (length (pre ++ Z2)) = Ok (pre ++ spec_varint (Z.of_nat (length p)) ++ p).
Proof. exact patch_length_spec. Qed.
(* default-valued singular fields are omitted, everything else is the canonical field *)
Theorem C06_field : forall k always num v buf, scalar_ok k v = true -> valid_number num = true ->
  enc_single k always num v buf = buf ++ (if negb always && spec_default k v then [] else spec_field k num v).
Proof. exact enc_single_spec. Qed.

(* C06_strong: for EVERY schema the generator accepts (oneof members not repeated/maps, as protobuf
   itself demands) and EVERY well-typed value - any nesting depth, any payload size, any number of
   fields - Marshal of the generated code never panics and returns exactly ref_encode: fields in
   ascending number order, repeated scalars packed, minimal varints for every tag/length/value,
   default-valued singular fields omitted, presence-carrying fields always written, captured
   unknown fields last. (Map entries appear in the iteration order, which is a parameter.) *)
Theorem C06_strong : forall fuel s progs idx fs un,
  gen_all s = GOk progs -> wf_schema_enc s = true -> msg_ok fuel progs idx (Some (fs, un)) = true ->
  pico_marshal fuel progs idx (fs, un) = Ok (ref_encode fuel s idx fs un).
Proof. exact T_enc. Qed.

(* the order clause, explicitly: Marshal's output is a sequence of complete records; those of the known fields come first,
   their field numbers ascend (records of one repeated or map field stay together), and the captured unrecognized
   fields of a capturing message follow *)
Theorem C06_ascending_order : forall s progs fuel idx fs un m,
  gen_all s = GOk progs -> wf_schema_enc s = true -> rt_applies_at s idx = true -> nth_error s idx = Some m ->
  msg_ok fuel progs idx (Some (fs, un)) = true -> rt_ok fuel s idx fs un = true ->
  exists data tk tu, pico_marshal fuel progs idx (fs, un) = Ok data /\ tokens data = Some (tk ++ tu) /\
    StronglySorted Z.le (map t_num tk) /\ Forall (fun t => find_field m (t_num t) <> None) tk /\
    tokens (if m_capture m then un else []) = Some tu /\ Forall (fun t => find_field m (t_num t) = None) tu.
Proof. exact marshal_ascending. Qed.

(* PARTIAL: C06 itself is the fixpoint form "bytes = reference serialisation of the message those
   bytes denote"; with C06_strong it reduces to the spec-level fact ref_encode (ref_decode b) = b on
   the image of ref_encode, which is not proved here: ref_encode is validated against protobuf-go's
   deterministic Marshal on every run, and the implementation is tested with the literal fixpoint
   oracle (bytes == remarshal(parse(bytes))). *)

(* the premises are inhabited by the shipped schemas and by real values: AllTypes with content *)
Definition demo_progs := match gen_all schema_test with GOk p => p | GError _ => [] end.
Definition demo_alltypes : list val :=
  [VInt (-1); VInt 2; VInt 3; VInt 4; VInt (-5); VInt (-6); VInt 7; VInt 8; VInt (-9); VInt (-10); VInt 2147483648; VInt 9223372036854775808;
   VInt 1; VBytes [104; 105]; VBytes [0]; VMsg (Some ([VInt 7], []));
   VList [VInt 1; VInt (-1)]; VList []; VList []; VList []; VList [VInt (-64)]; VList []; VList []; VList []; VList []; VList []; VList []; VList []; VList [VInt 1; VInt 0]; VList [VBytes [97]]; VList [];
   VList [VMsg (Some ([VInt 0], [])); VMsg None]].
Example C06_premises_inhabited :
  wf_schema_enc schema_test = true /\ msg_ok 5 demo_progs 3 (Some (demo_alltypes, [])) = true /\
  pico_marshal 5 demo_progs 3 (demo_alltypes, []) = Ok (ref_encode 5 schema_test 3 demo_alltypes []).
Proof. repeat split; vm_compute; reflexivity. Qed.

Example C06_nonvacuous : len_ok (repeat 7 16384) /\ spec_varint 16384 = [128; 128; 1] /\ spec_varint 2097152 = [128; 128; 128; 1].
Proof. repeat split; vm_compute; reflexivity. Qed.

Print Assumptions C06_ascending_order.
Print Assumptions C06_minimal_varint.
Print Assumptions C06_minimal_tag.
Print Assumptions C06_minimal_length.
Print Assumptions C06_field.
Print Assumptions C06_strong.
