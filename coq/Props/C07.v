(* C07 - linking picobuf never pulls in reflection or fmt. *)
From Coq Require Import List String Arith Bool.
From Pico Require Import Small.Graph gen.ImportGraph.
Import ListNotations.

(* In the import graph regenerated from `go list -deps` on this run, for both build
   configurations (without and with the verification tag, the latter including the injected
   accessor file of package picobuf): from every runtime package (picobuf, picowire, picoconv,
   internal/protowire) and every generated package, every transitively imported package is
   standard library or part of the module, and none is reflect or fmt. Since the set is closed
   under imports, excluding reflect and fmt excludes everything that imports them. *)
Theorem C07_plain : forall r p, In r roots_plain -> reachable g_plain r p -> ~ In p bad_nodes.
Proof.
  intros r p Hr Hp Hb. destruct imports_plain_ok as [Hc [Hroots Hok]].
  rewrite forallb_forall in Hroots. apply Hroots in Hr. apply mem_In in Hr.
  pose proof (closed_sound g_plain S_plain r p Hc Hr Hp) as Hin.
  rewrite forallb_forall in Hok. specialize (Hok p Hin). apply negb_true_iff in Hok.
  apply mem_In in Hb. congruence.
Qed.
Theorem C07_verif : forall r p, In r roots_verif -> reachable g_verif r p -> ~ In p bad_nodes.
Proof.
  intros r p Hr Hp Hb. destruct imports_verif_ok as [Hc [Hroots Hok]].
  rewrite forallb_forall in Hroots. apply Hroots in Hr. apply mem_In in Hr.
  pose proof (closed_sound g_verif S_verif r p Hc Hr Hp) as Hin.
  rewrite forallb_forall in Hok. specialize (Hok p Hin). apply negb_true_iff in Hok.
  apply mem_In in Hb. congruence.
Qed.

(* Not a theorem: that the Go linker keeps dead-code elimination enabled is toolchain behaviour;
   the harness links a program referencing the whole runtime API and scans `go tool nm`. *)

Example C07_nonvacuous : (9 <= List.length roots_plain) /\ (2 <= List.length bad_nodes) /\ In 0%nat (0%nat :: roots_plain).
Proof. repeat split; [vm_compute; repeat constructor|vm_compute; repeat constructor|left; reflexivity]. Qed.

Print Assumptions C07_plain.
Print Assumptions C07_verif.
