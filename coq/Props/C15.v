(* C15 - every 32-bit scalar value encodes to reference bytes and decodes to itself. *)
From Coq Require Import List ZArith Bool Lia.
From Pico Require Import Base.Res Base.Mach Wire.Wire Schema.Types Schema.Scalar Ref.Ref
  Wire.ZigZagProofs Schema.ScalarProofs Enc.Enc Dec.Dec Dec.ReaderProofs gen.ConvGen gen.TypesTable.
From Pico Require Import Dec.Dec Schema.ErrName.
Import ListNotations.
Open Scope Z_scope.

(* the 32-bit kinds (an enum field is written by the Int32 writer) *)
Definition is32 (k : kind) : bool :=
  match k with KInt32 | KSint32 | KSfixed32 | KUint32 | KFixed32 | KFloat | KBool => true | _ => false end.

(* the closed forms of the encoding document, spelled out for the 32-bit kinds *)
Definition closed_form (k : kind) (v : Z) : bytes :=
  match k with
  | KBool => [v]
  | KInt32 => spec_varint (if v <? 0 then v + 2 ^ 64 else v)       (* 64-bit sign extension *)
  | KSint32 => spec_varint (if v <? 0 then - 2 * v - 1 else 2 * v) (* zig-zag *)
  | KUint32 => spec_varint v
  | KSfixed32 => le_bytes 4 (if v <? 0 then v + 2 ^ 32 else v)     (* two's complement, 4 bytes LE *)
  | _ => le_bytes 4 v
  end.

Lemma closed_form_ok k v : is32 k = true -> scalar_ok k (VInt v) = true -> spec_payload k (VInt v) = closed_form k v.
Proof.
  intros H32 Hok. destruct k; try discriminate H32; cbn [spec_payload closed_form as_int scalar_ok] in *.
  - apply orb_true_iff in Hok. destruct Hok as [E|E]; apply Z.eqb_eq in E; subst; reflexivity.
  - apply in_sb_spec in Hok. change (2 ^ (32 - 1)) with 2147483648 in Hok. f_equal.
    destruct (Z.ltb_spec v 0).
    + symmetry. apply Z.mod_unique with (q := -1); change (2 ^ 64) with 18446744073709551616; lia.
    + apply Z.mod_small. change (2 ^ 64) with 18446744073709551616. lia.
  - reflexivity.
  - reflexivity.
  - reflexivity.
  - apply in_sb_spec in Hok. change (2 ^ (32 - 1)) with 2147483648 in Hok. f_equal.
    destruct (Z.ltb_spec v 0).
    + symmetry. apply Z.mod_unique with (q := -1); change (2 ^ 32) with 4294967296; lia.
    + apply Z.mod_small. change (2 ^ 32) with 4294967296. lia.
  - reflexivity.
Qed.

(* Encoding, all three shapes go through the same payload function:
   singular field (non-Always writer), oneof member (Always writer) - no exceptional value. *)
Theorem C15_enc : forall k always num v buf,
  is32 k = true -> scalar_ok k (VInt v) = true -> valid_number num = true ->
  enc_single k always num (VInt v) buf =
  buf ++ (if negb always && (v =? 0) then [] else spec_tag num (wire_of k) ++ closed_form k v).
Proof.
  intros k always num v buf H32 Hok Hn. rewrite enc_single_spec by assumption.
  unfold spec_field. rewrite closed_form_ok by assumption.
  replace (spec_default k (VInt v)) with (v =? 0) by (destruct k; try discriminate H32; reflexivity).
  reflexivity.
Qed.

(* payload bytes, as used for every element of a packed repeated field *)
Theorem C15_enc_element : forall k v, is32 k = true -> scalar_ok k (VInt v) = true ->
  enc_payload k (VInt v) = closed_form k v.
Proof. intros k v H32 Hok. rewrite enc_payload_spec by exact Hok. apply closed_form_ok; assumption. Qed.

(* Decoding gives back exactly the value, over the complete domain of every kind *)
Theorem C15_dec : forall k field v v0 rest e, scalar_ok k (VInt v) = true ->
  dec_single k field {| pf := field; pw := wire_of k; buf := enc_payload k (VInt v) ++ rest; err := e |} v0 =
  (next_field 0 {| pf := field; pw := wire_of k; buf := rest; err := e |}, VInt v).
Proof. intros. apply dec_single_value. assumption. Qed.

Theorem C15_dec_element : forall k v rest, scalar_ok k (VInt v) = true ->
  dec_payload k (enc_payload k (VInt v) ++ rest) = (VInt v, Z.of_nat (length (enc_payload k (VInt v)))).
Proof. intros. apply dec_enc_payload. assumption. Qed.

(* The same closed forms hold of the terms REGENERATED from conv.go / wire.go on this run
   (T-conv), and the scalar table in the generator source is the one the model mirrors (T-table). *)
Theorem C15_source_zigzag32 : forall v, in_s 32 v -> gen_encode_zigzag32 v = (if v <? 0 then - 2 * v - 1 else 2 * v).
Proof. intros v H. rewrite gen_encode_zigzag32_ok. exact (encode_zigzag32_spec v H). Qed.
Theorem C15_source_unzigzag32 : forall y, 0 <= y < 2 ^ 32 -> gen_decode_zigzag32 y = unzz y.
Proof. intros y H. rewrite gen_decode_zigzag32_ok. exact (decode_zigzag32_spec y H). Qed.
Theorem C15_source_table : gen_types_table = Schema.TableSpec.expected_types_table.
Proof. exact types_table_ok. Qed.

(* a Repeated* reader only appends: on ANY input (valid or not, packed or not, however many records, error half-way or
   not) the list it leaves is the list it found followed by new elements - nothing decoded earlier is lost or rewritten *)
Theorem C15_repeated_keeps_earlier : forall k f fuel st vs, exists xs, snd (dec_repeated fuel k f st vs) = vs ++ xs.
Proof. intros k f fuel st vs. exact (repeated_reader_appends k f fuel st vs). Qed.

Example C15_nonvacuous :
  scalar_ok KSint32 (VInt (-2147483648)) = true /\ closed_form KSint32 (-2147483648) = [255; 255; 255; 255; 15] /\
  scalar_ok KSfixed32 (VInt (-1)) = true /\ closed_form KSfixed32 (-1) = [255; 255; 255; 255] /\
  closed_form KFloat 2147483648 = [0; 0; 0; 128].
Proof. repeat split; vm_compute; reflexivity. Qed.

Print Assumptions C15_enc.
Print Assumptions C15_enc_element.
Print Assumptions C15_dec.
Print Assumptions C15_dec_element.
Print Assumptions C15_source_zigzag32.
Print Assumptions C15_repeated_keeps_earlier.
Print Assumptions C15_source_unzigzag32.
