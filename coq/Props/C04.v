(* C04 - Unmarshal is total and memory-safe on arbitrary bytes. *)
From Coq Require Import List ZArith Bool.
From Pico Require Import Base.Res Base.Mach Wire.Wire Schema.Types Schema.Scalar Schema.Gen Schema.Interp Ref.Ref Dec.Dec Dec.SafetyProofs Dec.LoopEquiv Dec.LoopInst
  Dec.TokenBridge Schema.DecOps Schema.TDec.
Import ListNotations.
Open Scope Z_scope.

(* On ARBITRARY input the varint reader returns an error code or a length of 1..10 bytes
   that lies inside the input: every slice `b[n:]` taken after it is in bounds. *)
Theorem C04_varint_in_bounds : forall b, let '(v, n) := consume_varint b in
  n = errTruncated \/ n = errOverflow \/ (1 <= n <= 10 /\ n <= Z.of_nat (length b)).
Proof. exact consume_varint_bounds. Qed.
(* the length-delimited reader never hands out a slice that extends beyond the input *)
Theorem C04_bytes_in_bounds : forall b, let '(p, n) := consume_bytes b in n < 0 \/ n <= Z.of_nat (length b).
Proof. exact consume_bytes_bounds. Qed.

(* "never loops without progress": every cursor move (nextField after a value, and the skip of an
   unconsumed field in Loop) strictly shortens the remaining input or invalidates the pending
   field, which ends the loop - for EVERY state and advance, valid or not *)
Theorem C04_cursor_progress : forall a st,
  (blen (next_field a st) < blen st)%nat \/ (pfv (next_field a st) = false /\ (blen (next_field a st) <= blen st)%nat).
Proof. exact next_field_progress. Qed.
Theorem C04_skip_progress : forall st, pfv st = true -> (blen (skip st) < blen st)%nat \/ pfv (skip st) = false.
Proof. exact skip_progress. Qed.
(* a single typed reader that matches consumes input or fails - so a pass that matched never
   leaves the buffer length unchanged with a valid pending field (Loop's progress test is sound) *)
Theorem C04_reader_progress : forall k num slot st fs, rmatch _ _ (scalar_reader k num slot) st = true ->
  let '(st', _) := rrun _ _ (scalar_reader k num slot) st fs in
  (blen st' < blen st)%nat \/ (pfv st' = false /\ (blen st' <= blen st)%nat).
Proof. exact scalar_reader_progress. Qed.

(* the field skipper (ConsumeFieldValue, groups of any nesting) never reports more bytes than the input holds *)
Theorem C04_skipper_in_bounds : forall fuel num typ b depth,
  consume_field_value_d fuel num typ b depth < 0 \/ 0 <= consume_field_value_d fuel num typ b depth <= Z.of_nat (length b).
Proof. exact cfv_d_bound. Qed.
(* every emitted Decode statement whose pending-field test succeeds keeps the cursor invariant, strictly shortens the
   remaining input or invalidates the pending field, and never clears dec.err - whatever the nested Decode methods do *)
Theorem C04_statement_progress : forall progs F' rec, (forall idx, sticky_fn (rec idx)) -> forall op st t,
  op_num_ok op = true -> op_match op st = true ->
  (pf_inv st -> pf_inv (fst (dec_op_run progs (S F') rec op st t))) /\
  (pf_inv st -> adv st (fst (dec_op_run progs (S F') rec op st t))) /\
  (err st <> None -> err (fst (dec_op_run progs (S F') rec op st t)) <> None).
Proof. exact op_run_facts. Qed.
(* Termination with the budget the entry point passes (input length + 3): Unmarshal's result on ARBITRARY bytes is the
   reference decoder's - a value or an error, never "out of fuel" - for every schema of the feature set. The Loop
   theorem behind it (C02_every_decode_body) shows that length + 2 iterations of the single-pass parser suffice. *)
Theorem C04_total_on_arbitrary_bytes : forall s progs idx data t0,
  gen_all s = GOk progs -> tdec_applies_at s idx = true -> bytes_ok data ->
  let r := pico_unmarshal progs idx data t0 in
  match ref_decode (S (S (S (length data)))) s idx data t0 with
  | Some t'' => fst r = None /\ snd r = t''
  | None => fst r <> None
  end.
Proof. exact T_dec_at. Qed.

(* Runtime facts no Gallina model expresses - absence of panics in the Go code, stack growth, wall-clock bounds, the input
   slice left unmodified - are observed by the harness (recover(), watchdog, 10 001-deep nesting, input bytes before/after). *)

Example C04_nonvacuous : consume_varint [255;255;255;255;255;255;255;255;255;2] = (0, errOverflow) /\ consume_bytes [5; 10] = ([], errTruncated).
Proof. split; vm_compute; reflexivity. Qed.

Print Assumptions C04_varint_in_bounds.
Print Assumptions C04_bytes_in_bounds.
Print Assumptions C04_cursor_progress.
Print Assumptions C04_skip_progress.
Print Assumptions C04_skipper_in_bounds.
Print Assumptions C04_statement_progress.
Print Assumptions C04_total_on_arbitrary_bytes.
