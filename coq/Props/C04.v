(* C04 - Unmarshal is total and memory-safe on arbitrary bytes. *)
From Coq Require Import List ZArith Bool.
From Pico Require Import Base.Res Base.Mach Wire.Wire Schema.Types Schema.Scalar Dec.Dec Dec.SafetyProofs.
Import ListNotations.
Open Scope Z_scope.

(* On ARBITRARY input the varint reader returns an error code or a length of 1..10 bytes
   that lies inside the input: every slice `b[n:]` taken after it is in bounds. *)
Theorem C04_varint_in_bounds : forall b, let '(v, n) := consume_varint b in
  n = errTruncated \/ n = errOverflow \/ (1 <= n <= 10 /\ n <= Z.of_nat (length b)).
Proof. exact consume_varint_bounds. Qed.
(* the length-delimited reader never hands out a slice that extends beyond the input *)
Theorem C04_bytes_in_bounds : forall b, let '(p, n) := consume_bytes b in n < 0 \/ n <= Z.of_nat (length b).
Proof. exact consume_bytes_bounds. Qed.

(* PARTIAL. Termination: every loop of the decoder model is structurally recursive on a fuel
   argument that the entry point sets to (input length + 2); that this fuel is never exhausted
   on the way to the result (i.e. each iteration makes progress) is validated by correspondence
   (the model's verdicts agree with the implementation on the malformed stream, including
   10 000-deep nesting), not proved. Absence of panics in the implementation, Go stack growth
   and wall-clock bounds are runtime facts observed by the harness (recover(), watchdog,
   input bytes before/after). See DESIGN.md C04. *)

Example C04_nonvacuous : consume_varint [255;255;255;255;255;255;255;255;255;2] = (0, errOverflow) /\ consume_bytes [5; 10] = ([], errTruncated).
Proof. split; vm_compute; reflexivity. Qed.

Print Assumptions C04_varint_in_bounds.
Print Assumptions C04_bytes_in_bounds.
