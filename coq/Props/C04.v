(* C04 - Unmarshal is total and memory-safe on arbitrary bytes. *)
From Coq Require Import List ZArith Bool.
From Pico Require Import Base.Res Base.Mach Wire.Wire Schema.Types Schema.Scalar Dec.Dec Dec.SafetyProofs Dec.LoopEquiv Dec.LoopInst.
Import ListNotations.
Open Scope Z_scope.

(* On ARBITRARY input the varint reader returns an error code or a length of 1..10 bytes
   that lies inside the input: every slice `b[n:]` taken after it is in bounds. *)
Theorem C04_varint_in_bounds : forall b, let '(v, n) := consume_varint b in
  n = errTruncated \/ n = errOverflow \/ (1 <= n <= 10 /\ n <= Z.of_nat (length b)).
Proof. exact consume_varint_bounds. Qed.
(* the length-delimited reader never hands out a slice that extends beyond the input *)
Theorem C04_bytes_in_bounds : forall b, let '(p, n) := consume_bytes b in n < 0 \/ n <= Z.of_nat (length b).
Proof. exact consume_bytes_bounds. Qed.

(* "never loops without progress": every cursor move (nextField after a value, and the skip of an
   unconsumed field in Loop) strictly shortens the remaining input or invalidates the pending
   field, which ends the loop - for EVERY state and advance, valid or not *)
Theorem C04_cursor_progress : forall a st,
  (blen (next_field a st) < blen st)%nat \/ (pfv (next_field a st) = false /\ (blen (next_field a st) <= blen st)%nat).
Proof. exact next_field_progress. Qed.
Theorem C04_skip_progress : forall st, pfv st = true -> (blen (skip st) < blen st)%nat \/ pfv (skip st) = false.
Proof. exact skip_progress. Qed.
(* a single typed reader that matches consumes input or fails - so a pass that matched never
   leaves the buffer length unchanged with a valid pending field (Loop's progress test is sound) *)
Theorem C04_reader_progress : forall k num slot st fs, rmatch _ _ (scalar_reader k num slot) st = true ->
  let '(st', _) := rrun _ _ (scalar_reader k num slot) st fs in
  (blen st' < blen st)%nat \/ (pfv st' = false /\ (blen st' <= blen st)%nat).
Proof. exact scalar_reader_progress. Qed.

(* PARTIAL. Termination: every loop of the decoder model is structurally recursive on a fuel
   argument that the entry point sets to (input length + 2); that this fuel is never exhausted
   on the way to the result (i.e. each iteration makes progress) is validated by correspondence
   (the model's verdicts agree with the implementation on the malformed stream, including
   10 000-deep nesting), not proved. Absence of panics in the implementation, Go stack growth
   and wall-clock bounds are runtime facts observed by the harness (recover(), watchdog,
   input bytes before/after). See DESIGN.md C04. *)

Example C04_nonvacuous : consume_varint [255;255;255;255;255;255;255;255;255;2] = (0, errOverflow) /\ consume_bytes [5; 10] = ([], errTruncated).
Proof. split; vm_compute; reflexivity. Qed.

Print Assumptions C04_varint_in_bounds.
Print Assumptions C04_bytes_in_bounds.
Print Assumptions C04_cursor_progress.
Print Assumptions C04_skip_progress.
