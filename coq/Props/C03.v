(* C03 - Unmarshal(Marshal(m)) reproduces m for every message. *)
From Coq Require Import List ZArith Bool.
From Pico Require Import Base.Res Base.Mach Wire.Wire Schema.Types Schema.Scalar Ref.Ref
  Schema.ScalarProofs Enc.Enc Dec.Dec Dec.ReaderProofs Dec.SafetyProofs Schema.Conv Schema.ConvProofs Schema.Gen Schema.Interp Schema.Norm Schema.EncSpec
  Schema.TEnc Schema.TDec Schema.RoundTrip gen.Schemas.
Import ListNotations.
Open Scope Z_scope.

(* bit-for-bit round trip of every scalar value of every kind (NaN payloads and -0 are
   bit patterns like any other) *)
Theorem C03_scalar : forall k v rest, scalar_ok k v = true ->
  dec_payload k (enc_payload k v ++ rest) = (v, Z.of_nat (length (enc_payload k v))).
Proof. exact dec_enc_payload. Qed.

Theorem C03_transform : forall k z, scalar_ok k (VInt z) = true -> dec_tr k (enc_tr k z) = z.
Proof. exact dec_enc_tr. Qed.

(* the picoconv-based custom fields *)
Theorem C03_duration : forall d, int64 d -> let '(s, n) := dur_split d in dur_join s n = d.
Proof. exact dur_roundtrip. Qed.
Theorem C03_time : forall sec nsec, int64 sec -> 0 <= nsec < 1000000000 -> time_unix sec (s32 nsec) = (sec, nsec).
Proof. exact time_roundtrip. Qed.

(* the reference decoder reads the reference encoding back, for every schema of the feature set, every
   well-typed value (msg/rt typing: Go ranges, at most one member per oneof, distinct map keys, captured bytes
   as UnrecognizedFields stores them), any size and nesting depth *)
Theorem C03_reference_round_trip : forall s g idx fs un m, rt_applies_at s idx = true -> nth_error s idx = Some m -> rt_ok g s idx fs un = true ->
  bytes_ok (ref_encode g s idx fs un) /\
  forall G, (length (ref_encode g s idx fs un) < G)%nat ->
    ref_decode G s idx (ref_encode g s idx fs un) (zero_fields s m, []) = Some (norm_fields g s idx fs, un).
Proof. exact ref_round_trip_at. Qed.

(* C03 for generated code: Marshal succeeds and Unmarshal of its output into a fresh message returns no error
   and the message itself - every scalar bit for bit, presence, oneof selection, repeated order, nested messages,
   map contents, unrecognized bytes - up to the by-design normal form of Schema/Norm.v (a pointer to the zero
   time.Time and zero/nil time elements are not written; a nil element of a repeated message comes back empty).
   Composition of T_enc (Marshal = reference encoder), the reference round trip and T_dec (Unmarshal = reference decoder). *)
Theorem C03_marshal_unmarshal : forall s progs fuel idx fs un m,
  gen_all s = GOk progs -> wf_schema_enc s = true -> rt_applies_at s idx = true -> nth_error s idx = Some m ->
  msg_ok fuel progs idx (Some (fs, un)) = true -> rt_ok fuel s idx fs un = true ->
  exists data, pico_marshal fuel progs idx (fs, un) = Ok data /\
               pico_unmarshal progs idx data (zero_fields s m, []) = (None, (norm_fields fuel s idx fs, un)).
Proof. exact marshal_unmarshal_at. Qed.

(* the schema-level side condition on the checked-in schemas (test.proto contains messages with custom types whose
   codecs are user code) *)
Example C03_applies_to_checked_in :
  map (fun s => length (filter (rt_applies_at s) (seq 0 (length s)))) checked_in_schemas = [12; 8; 3; 5; 4]%nat.
Proof. vm_compute. reflexivity. Qed.

Example C03_nonvacuous : scalar_ok KFloat (VInt 2139095041) = true /\ scalar_ok KSint64 (VInt (-9223372036854775808)) = true /\
  dec_tr KSint64 (enc_tr KSint64 (-9223372036854775808)) = -9223372036854775808.
Proof. repeat split; vm_compute; reflexivity. Qed.

Print Assumptions C03_scalar.
Print Assumptions C03_transform.
Print Assumptions C03_duration.
Print Assumptions C03_time.
Print Assumptions C03_reference_round_trip.
Print Assumptions C03_marshal_unmarshal.
