(* C03 - Unmarshal(Marshal(m)) reproduces m for every message. *)
From Coq Require Import List ZArith Bool.
From Pico Require Import Base.Res Base.Mach Wire.Wire Schema.Types Schema.Scalar Ref.Ref
  Schema.ScalarProofs Enc.Enc Dec.Dec Dec.ReaderProofs Schema.Conv Schema.ConvProofs.
Import ListNotations.
Open Scope Z_scope.

(* bit-for-bit round trip of every scalar value of every kind (NaN payloads and -0 are
   bit patterns like any other) *)
Theorem C03_scalar : forall k v rest, scalar_ok k v = true ->
  dec_payload k (enc_payload k v ++ rest) = (v, Z.of_nat (length (enc_payload k v))).
Proof. exact dec_enc_payload. Qed.

Theorem C03_transform : forall k z, scalar_ok k (VInt z) = true -> dec_tr k (enc_tr k z) = z.
Proof. exact dec_enc_tr. Qed.

(* the picoconv-based custom fields *)
Theorem C03_duration : forall d, int64 d -> let '(s, n) := dur_split d in dur_join s n = d.
Proof. exact dur_roundtrip. Qed.
Theorem C03_time : forall sec nsec, int64 sec -> 0 <= nsec < 1000000000 -> time_unix sec (s32 nsec) = (sec, nsec).
Proof. exact time_roundtrip. Qed.

(* PARTIAL. The message-level statement pico_unmarshal (pico_marshal m) = norm m for all
   schemas/values/map orders is decided per run by the executable model (evaluated on every
   generated message) in correspondence with the implementation. See DESIGN.md C03. *)

Example C03_nonvacuous : scalar_ok KFloat (VInt 2139095041) = true /\ scalar_ok KSint64 (VInt (-9223372036854775808)) = true /\
  dec_tr KSint64 (enc_tr KSint64 (-9223372036854775808)) = -9223372036854775808.
Proof. repeat split; vm_compute; reflexivity. Qed.

Print Assumptions C03_scalar.
Print Assumptions C03_transform.
Print Assumptions C03_duration.
Print Assumptions C03_time.
