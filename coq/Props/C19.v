(* C19 - decoding errors name the offending field, in decimal, for every number. *)
From Coq Require Import List ZArith Bool.
From Pico Require Import Base.Res Base.Mach Wire.Wire Small.FieldNumStr Small.FieldNumStrProofs
  Schema.Types Schema.Scalar Dec.Dec Dec.ReaderProofs.
Import ListNotations.
Open Scope Z_scope.

(* FieldNumber.String never panics and returns the canonical decimal numeral of the
   number (optional '-', no leading zeros, "0" for zero), for every int32. *)
Theorem C19_str : forall f, int32 f ->
  exists s, fn_string f = Ok s /\ parse_int s = f /\ canon_int s = true.
Proof. exact fn_string_spec. Qed.

(* a known field that arrives with a wrong wire type is reported with its own number *)
Theorem C19_err_wire : forall k field st v, field = pf st -> pw st <> wire_of k ->
  err (fst (dec_single k field st v)) = Some (field, EWire).
Proof. intros. rewrite dec_single_wrong_wire by assumption. reflexivity. Qed.

(* PARTIAL: "unparsable value" errors and errors of the Repeated*/Message readers carry
   the field number by construction of the model (every `fail field ...`); they are tied
   to the code by comparing (field, class) of model and implementation on the malformed
   stream. *)

Example C19_nonvacuous : fn_string (-2147483647) = Ok [45;50;49;52;55;52;56;51;54;52;55] /\ fn_string 1000000 = Ok [49;48;48;48;48;48;48].
Proof. split; vm_compute; reflexivity. Qed.

Print Assumptions C19_str.
Print Assumptions C19_err_wire.
