(* C19 - decoding errors name the offending field, in decimal, for every number. *)
From Coq Require Import List ZArith Bool.
From Pico Require Import Base.Res Base.Mach Wire.Wire Small.FieldNumStr Small.FieldNumStrProofs
  Schema.Types Schema.Scalar Schema.Gen Schema.Interp Dec.Dec Dec.ReaderProofs Schema.ErrName Schema.ErrSchema gen.Schemas.
Import ListNotations.
Open Scope Z_scope.

(* FieldNumber.String never panics and returns the canonical decimal numeral of the
   number (optional '-', no leading zeros, "0" for zero), for every int32. *)
Theorem C19_str : forall f, int32 f ->
  exists s, fn_string f = Ok s /\ parse_int s = f /\ canon_int s = true.
Proof. exact fn_string_spec. Qed.

(* a known field that arrives with a wrong wire type is reported with its own number *)
Theorem C19_err_wire : forall k field st v, field = pf st -> pw st <> wire_of k ->
  err (fst (dec_single k field st v)) = Some (field, EWire).
Proof. intros. rewrite dec_single_wrong_wire by assumption. reflexivity. Qed.

(* a typed reader that starts without error reports nothing but the number it was called for, and only when that number is
   the pending one, i.e. the number in the tag of the offending record: wrong wire type or unparsable value alike *)
Theorem C19_reader_names_itself : forall k field st v f c, err st = None ->
  err (fst (dec_single k field st v)) = Some (f, c) -> field_class c -> f = field /\ pf st = f.
Proof.
  intros k field st v f c E0 E Hc. split; [exact (single_reader_names_itself k field st v f c E0 E Hc)|exact (single_reader_error_is_pending k field st v f c E0 E Hc)].
Qed.
Theorem C19_repeated_reader_names_itself : forall fuel k field st vs f c, err st = None ->
  err (fst (dec_repeated fuel k field st vs)) = Some (f, c) -> field_class c -> f = field.
Proof. exact repeated_reader_names_itself. Qed.

(* whole messages: picobuf.Unmarshal with the Decode methods of ANY program list, on ANY input, into ANY starting message.
   An error of class "expected wire type ..." / "unable to parse ..." carries a field number declared in the schema (at some
   nesting level), or the sub-field 1/2 of a map entry / Timestamp / Duration, or - only if some message captures unrecognized
   fields - the own number of an unknown field whose value cannot be parsed. Never an arbitrary number, never a stale one. *)
Theorem C19_unmarshal_error_names_field : forall progs idx data m0 f c m,
  pico_unmarshal progs idx data m0 = (Some (f, c), m) -> field_class c -> allowed progs f.
Proof. exact unmarshal_error_names_field. Qed.

(* the same in terms of the SCHEMA, for the Decode methods the generator emits (gen_all s): the number is a field number
   declared in s, or 1 / 2 (sub-fields of map entries, Timestamp, Duration), or - only if a message of s captures
   unrecognized fields - an unknown field's own number *)
Theorem C19_unmarshal_error_names_schema_field : forall s progs idx data m0 f c m, gen_all s = GOk progs ->
  pico_unmarshal progs idx data m0 = (Some (f, c), m) -> field_class c ->
  In f (schema_numbers s) \/ f = 1 \/ f = 2 \/ (schema_captures s = true /\ 0 <= f).
Proof. exact unmarshal_error_names_schema_field. Qed.
(* non-vacuous on the checked-in schemas (regenerated from /repo on every run): every one declares field numbers, and the
   capturing case exists *)
Example C19_checked_in_schemas : forallb (fun s => negb (Nat.eqb (length (schema_numbers s)) 0)) checked_in_schemas = true /\
  existsb schema_captures checked_in_schemas = true.
Proof. vm_compute. split; reflexivity. Qed.

(* PARTIAL: that the number is the one of the FIRST offending record of the input (not merely a declared one) is stated at
   reader level above; for whole messages it is tied to the code by comparing (field, class) of model and implementation on
   the malformed stream, and to protobuf-go's tokenizer by the reader grids. *)

Example C19_nonvacuous : fn_string (-2147483647) = Ok [45;50;49;52;55;52;56;51;54;52;55] /\ fn_string 1000000 = Ok [49;48;48;48;48;48;48].
Proof. split; vm_compute; reflexivity. Qed.

(* message { int32 a = 3; fixed64 b = 12; }: field 3 arriving as fixed64, field 12 arriving truncated *)
Definition c19_progs : list prog :=
  [{| p_enc := []; p_dec := [DScalar KInt32 false false 0 3; DScalar KFixed64 false false 1 12]; p_zero := [VInt 0; VInt 0] |}].
Example C19_unmarshal_nonvacuous :
  fst (pico_unmarshal c19_progs 0 [25; 1; 2; 3; 4; 5; 6; 7; 8] ([VInt 0; VInt 0], [])) = Some (3, EWire) /\
  fst (pico_unmarshal c19_progs 0 [24; 5; 97; 1; 2; 3] ([VInt 0; VInt 0], [])) = Some (12, EParse) /\
  declared c19_progs = [3; 12] /\ captures c19_progs = false.
Proof. repeat split; vm_compute; reflexivity. Qed.

Print Assumptions C19_str.
Print Assumptions C19_err_wire.
Print Assumptions C19_reader_names_itself.
Print Assumptions C19_repeated_reader_names_itself.
Print Assumptions C19_unmarshal_error_names_field.
Print Assumptions C19_unmarshal_error_names_schema_field.
