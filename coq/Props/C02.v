(* C02 - Unmarshal reads every valid protobuf encoding of a message to the same values. *)
From Coq Require Import List ZArith Bool.
From Pico Require Import Base.Res Base.Mach Wire.Wire Schema.Types Schema.Scalar Ref.Ref
  Schema.ScalarProofs Dec.Dec Dec.ReaderProofs Wire.VarintProofs Wire.WireProofs
  Schema.Gen Schema.Interp Dec.LoopEquiv Dec.LoopInst Schema.DecFlat Dec.SafetyProofs Dec.TokenBridge Dec.StreamLoop Schema.DecOps Schema.TDec Schema.Concat Schema.Rewrites Schema.EncSpec Schema.Packed gen.Schemas.
Import ListNotations.
Open Scope Z_scope.

(* Integer narrowing, zig-zag and bool rules are the protobuf rules for EVERY wire value (not
   only those picobuf writes): int32 keeps the low 32 bits as two's complement, sint uses
   zig-zag on the (truncated) unsigned value, any non-zero varint is true. *)
Theorem C02_value_rules : forall k x, 0 <= x < 2 ^ 64 -> dec_tr k x = spec_conv k x.
Proof. exact dec_tr_spec. Qed.

(* Reading a reference-encoded field gives its value and leaves the cursor on the next tag. *)
Theorem C02_field : forall k field v v0 rest e, scalar_ok k v = true ->
  dec_single k field {| pf := field; pw := wire_of k; buf := enc_payload k v ++ rest; err := e |} v0 =
  (next_field 0 {| pf := field; pw := wire_of k; buf := rest; err := e |}, v).
Proof. exact dec_single_value. Qed.
Theorem C02_tag : forall num wt rest pf0 pw0 e, valid_number num = true -> 0 <= wt < 8 ->
  next_field 0 {| pf := pf0; pw := pw0; buf := spec_tag num wt ++ rest; err := e |} =
  {| pf := num; pw := wt; buf := rest; err := e |}.
Proof. exact next_field_tag. Qed.

(* "Fields in any order": picobuf's Loop re-runs the whole Decode body until the input is used up
   and skips a field nobody consumed. For ANY list of readers with pairwise disjoint match
   predicates that satisfy the reader contracts this multi-pass loop equals the single-pass
   parser that dispatches on the pending field (order-insensitive by construction): *)
Theorem C02_loop_is_dispatch : forall (T dstate : Type) (pfv : dstate -> bool) (blen : dstate -> nat) (skip : dstate -> dstate)
    (readers : list (reader T dstate)) (Inv : dstate -> Prop),
  (forall r st t, In r readers -> Inv st -> Inv (fst (rrun T dstate r st t))) ->
  (forall st, Inv st -> Inv (skip st)) ->
  (forall r st, In r readers -> Inv st -> rmatch T dstate r st = true -> pfv st = true) ->
  (forall r st t, In r readers -> Inv st -> rmatch T dstate r st = false -> rrun T dstate r st t = (st, t)) ->
  (forall r st t, In r readers -> Inv st -> rmatch T dstate r st = true ->
     let '(st', _) := rrun T dstate r st t in (blen st' < blen st)%nat \/ (pfv st' = false /\ (blen st' <= blen st)%nat)) ->
  (forall i j ri rj st, Inv st -> nth_error readers i = Some ri -> nth_error readers j = Some rj ->
     rmatch T dstate ri st = true -> rmatch T dstate rj st = true -> i = j) ->
  (forall st, Inv st -> pfv st = true -> (blen (skip st) < blen st)%nat \/ pfv (skip st) = false) ->
  forall st t n n', Inv st -> (blen st + 3 <= n)%nat -> (blen st + 2 <= n')%nat ->
  LoopEquiv.loop T dstate pfv blen skip readers n st t = loop1 T dstate pfv skip readers n' st t.
Proof. exact loop_equiv. Qed.
(* instance on emitted programs: the Decode of a message of singular scalar fields (all 15 kinds,
   distinct valid numbers) under Unmarshal's Loop IS the single-pass dispatch parser *)
Theorem C02_flat_message : forall progs F rec fields st fs un n n',
  NoDup (map (fun f => snd (fst f)) fields) -> Forall (fun f => valid_number (snd (fst f)) = true) fields ->
  (blen st + 3 <= n)%nat -> (blen st + 2 <= n')%nat ->
  Dec.loop n (dec_body progs F rec (map flat_op fields)) st (fs, un) =
  let '(st', fs') := loop1 _ _ pfv skip (flat_readers fields) n' st fs in (st', (fs', un)).
Proof. exact flat_unmarshal_single_pass. Qed.

(* the same for the Decode body of EVERY accepted message (all statement kinds: repeated, nested
   messages, oneofs, casts, maps, UnrecognizedFields): under Loop it is the single-pass parser *)
Theorem C02_every_decode_body : forall progs F' rec, (forall idx, sticky_fn (rec idx)) ->
  forall ops, (forall op, In op ops -> op_num_ok op = true) -> ops_disjoint ops ->
  forall st t n n', pf_inv st -> (blen st + 3 <= n)%nat -> (blen st + 2 <= n')%nat ->
  Dec.loop n (dec_body progs (S F') rec ops) st t = loop1 _ _ pfv skip (map (op_reader progs (S F') rec) ops) n' st t.
Proof. exact body_loop_single_pass. Qed.

(* The decoder's cursor primitives read exactly the tokens of the protobuf wire grammar, on ARBITRARY bytes
   (non-minimal varints, truncations and garbage included) *)
Theorem C02_varint_reader : forall b, bytes_ok b ->
  match spec_parse_varint b with
  | Some (v, k) => consume_varint b = (v, Z.of_nat k) /\ (1 <= k <= length b)%nat /\ 0 <= v < 2 ^ 64
  | None => snd (consume_varint b) < 0
  end.
Proof. exact consume_varint_parse. Qed.

(* T_dec. For every message type all of whose reachable message types are in the generator's feature set
   (tdec_applies_at: valid distinct numbers, no opaque custom type) and EVERY byte string: Unmarshal of the generated code returns exactly the value the
   reference decoder computes by merging the tokens of the input in order (fields in any order, packed or not,
   split repeated fields, non-minimal varints, unknown fields skipped or captured, duplicate map keys, nested
   messages merged), and returns an error exactly when the reference decoder rejects the input. *)
Theorem C02_unmarshal_is_reference_decoder : forall s progs idx data t0,
  gen_all s = GOk progs -> tdec_applies_at s idx = true -> bytes_ok data ->
  let r := pico_unmarshal progs idx data t0 in
  match ref_decode (S (S (S (length data)))) s idx data t0 with
  | Some t'' => fst r = None /\ snd r = t''
  | None => fst r <> None
  end.
Proof. exact T_dec_at. Qed.

(* Invariance under the wire rewrites, as statements about TWO inputs (reference decoder, and Unmarshal through T_dec):
   - two adjacent records of different fields outside oneofs, or a known and an unknown record, can be exchanged
     anywhere in the input (iterated: every reordering that keeps each field's own records in order);
   - a singular sub-message split into several occurrences is the concatenation of the occurrences (merge);
   - the packed record of a repeated scalar/enum field equals one record per element, and a packed record may be cut
     into several packed records (mixed forms follow by iterating the two);
   - a record re-spelt with redundant varint groups (tag and value) is the same record;
   - any run of complete records may be replaced by a run with the same effect on every target (the general principle). *)
Theorem C02_exchange_records_reference : forall g s idx m a r1 r2 c ta t1 t2 x, nth_error s idx = Some m ->
  bytes_ok a -> bytes_ok r1 -> bytes_ok r2 -> tokens a = Some ta -> tokens r1 = Some [t1] -> tokens r2 = Some [t2] ->
  commuting s m t1 t2 ->
  ref_decode (S g) s idx (a ++ r1 ++ r2 ++ c) x = ref_decode (S g) s idx (a ++ r2 ++ r1 ++ c) x.
Proof. exact exchange_adjacent_records. Qed.
Theorem C02_exchange_records_unmarshal : forall s progs idx m a r1 r2 c ta t1 t2 t0,
  gen_all s = GOk progs -> tdec_applies_at s idx = true -> nth_error s idx = Some m ->
  bytes_ok a -> bytes_ok r1 -> bytes_ok r2 -> bytes_ok c -> tokens a = Some ta -> tokens r1 = Some [t1] -> tokens r2 = Some [t2] ->
  commuting s m t1 t2 ->
  let u1 := pico_unmarshal progs idx (a ++ r1 ++ r2 ++ c) t0 in
  let u2 := pico_unmarshal progs idx (a ++ r2 ++ r1 ++ c) t0 in
  (fst u1 = None <-> fst u2 = None) /\ (fst u1 = None -> snd u1 = snd u2).
Proof. exact unmarshal_exchange. Qed.
Theorem C02_split_submessage : forall g s idx p1 p2 x y, bytes_ok p1 -> ref_decode g s idx p1 x = Some y ->
  ref_decode g s idx (p1 ++ p2) x = ref_decode g s idx p2 y.
Proof. exact split_submessage_merges. Qed.

Theorem C02_replace_records : forall g s idx m a X1 X2 c ta ts1 ts2 x, nth_error s idx = Some m ->
  bytes_ok a -> bytes_ok X1 -> bytes_ok X2 -> tokens a = Some ta -> tokens X1 = Some ts1 -> tokens X2 = Some ts2 ->
  (forall o, fold_opt (apply_token s (ref_decode g s) m) ts1 o = fold_opt (apply_token s (ref_decode g s) m) ts2 o) ->
  ref_decode (S g) s idx (a ++ X1 ++ c) x = ref_decode (S g) s idx (a ++ X2 ++ c) x.
Proof. exact ref_decode_middle. Qed.
Theorem C02_packed_unpacked_reference : forall s g idx m, nth_error s idx = Some m -> NoDup (map fnum (mfields m)) ->
  forall k slot f, In (slot, f) (number_from 0 (mfields m)) -> f_custom f = CNone -> (fty f = TScalar k \/ (fty f = TEnum /\ k = KInt32)) ->
  i_repeated (field_info s f) = true -> foneof f = None -> valid_number (fnum f) = true -> is_bytes_kind k = false ->
  forall a c ta l x, bytes_ok a -> tokens a = Some ta ->
  forallb (scalar_ok k) l = true -> lenb (flat_map (spec_payload k) l) = true -> l <> [] ->
  ref_decode (S g) s idx (a ++ spec_ld (fnum f) (flat_map (spec_payload k) l) ++ c) x =
  ref_decode (S g) s idx (a ++ flat_map (spec_field k (fnum f)) l ++ c) x.
Proof. exact packed_unpacked_same. Qed.
Theorem C02_packed_unpacked_unmarshal : forall s progs idx m k slot f a c ta l t0,
  gen_all s = GOk progs -> tdec_applies_at s idx = true -> nth_error s idx = Some m -> NoDup (map fnum (mfields m)) ->
  In (slot, f) (number_from 0 (mfields m)) -> f_custom f = CNone -> (fty f = TScalar k \/ (fty f = TEnum /\ k = KInt32)) ->
  i_repeated (field_info s f) = true -> foneof f = None -> valid_number (fnum f) = true -> is_bytes_kind k = false ->
  bytes_ok a -> bytes_ok c -> tokens a = Some ta ->
  forallb (scalar_ok k) l = true -> lenb (flat_map (spec_payload k) l) = true -> l <> [] ->
  same_outcome (pico_unmarshal progs idx (a ++ spec_ld (fnum f) (flat_map (spec_payload k) l) ++ c) t0)
               (pico_unmarshal progs idx (a ++ flat_map (spec_field k (fnum f)) l ++ c) t0).
Proof. exact unmarshal_packed_unpacked. Qed.
Theorem C02_packed_split : forall s g idx m, nth_error s idx = Some m -> NoDup (map fnum (mfields m)) ->
  forall k slot f, In (slot, f) (number_from 0 (mfields m)) -> f_custom f = CNone -> (fty f = TScalar k \/ (fty f = TEnum /\ k = KInt32)) ->
  i_repeated (field_info s f) = true -> foneof f = None -> valid_number (fnum f) = true -> is_bytes_kind k = false ->
  forall a c ta l1 l2 x, bytes_ok a -> tokens a = Some ta ->
  forallb (scalar_ok k) l1 = true -> forallb (scalar_ok k) l2 = true -> l1 <> [] -> l2 <> [] ->
  lenb (flat_map (spec_payload k) (l1 ++ l2)) = true -> lenb (flat_map (spec_payload k) l1) = true -> lenb (flat_map (spec_payload k) l2) = true ->
  ref_decode (S g) s idx (a ++ spec_ld (fnum f) (flat_map (spec_payload k) (l1 ++ l2)) ++ c) x =
  ref_decode (S g) s idx (a ++ (spec_ld (fnum f) (flat_map (spec_payload k) l1) ++ spec_ld (fnum f) (flat_map (spec_payload k) l2)) ++ c) x.
Proof. exact packed_split. Qed.
Theorem C02_same_meaning_records : forall g s idx m a r1 r2 c ta t1 t2 x, nth_error s idx = Some m ->
  bytes_ok a -> bytes_ok r1 -> bytes_ok r2 -> tokens a = Some ta -> tokens r1 = Some [t1] -> tokens r2 = Some [t2] ->
  t_num t1 = t_num t2 -> t_wt t1 = t_wt t2 -> t_pay t1 = t_pay t2 -> (find_field m (t_num t1) <> None \/ m_capture m = false) ->
  ref_decode (S g) s idx (a ++ r1 ++ c) x = ref_decode (S g) s idx (a ++ r2 ++ c) x.
Proof. exact same_meaning_records. Qed.
Theorem C02_nonminimal_varint : forall g s idx m a c ta num v kt kv kt' kv' x, nth_error s idx = Some m -> bytes_ok a -> tokens a = Some ta ->
  valid_number num = true -> 0 <= v -> v < 2 ^ 64 ->
  (1 <= kt <= 10)%nat -> num * 8 < 128 ^ Z.of_nat kt -> (1 <= kv <= 10)%nat -> v < 128 ^ Z.of_nat kv ->
  (1 <= kt' <= 10)%nat -> num * 8 < 128 ^ Z.of_nat kt' -> (1 <= kv' <= 10)%nat -> v < 128 ^ Z.of_nat kv' ->
  (find_field m num <> None \/ m_capture m = false) ->
  ref_decode (S g) s idx (a ++ (wide kt (num * 8) ++ wide kv v) ++ c) x =
  ref_decode (S g) s idx (a ++ (wide kt' (num * 8) ++ wide kv' v) ++ c) x.
Proof. exact nonminimal_varint_same. Qed.
(* integer narrowing: two varint records of one known int32 / uint32 / sint32 / enum field whose varints agree modulo 2^32
   (any spelling each) are interchangeable anywhere in the input - zig-zag and the sign apply after narrowing *)
Theorem C02_narrow32_records : forall g s idx m a c ta num slot f v1 v2 kt kv kt' kv' x, nth_error s idx = Some m -> bytes_ok a -> tokens a = Some ta ->
  valid_number num = true -> find_field m num = Some (slot, f) -> f_custom f = CNone ->
  (fty f = TEnum \/ exists k, fty f = TScalar k /\ narrow32 k = true) ->
  0 <= v1 < 2 ^ 64 -> 0 <= v2 < 2 ^ 64 -> v1 mod 2 ^ 32 = v2 mod 2 ^ 32 ->
  (1 <= kt <= 10)%nat -> num * 8 < 128 ^ Z.of_nat kt -> (1 <= kv <= 10)%nat -> v1 < 128 ^ Z.of_nat kv ->
  (1 <= kt' <= 10)%nat -> num * 8 < 128 ^ Z.of_nat kt' -> (1 <= kv' <= 10)%nat -> v2 < 128 ^ Z.of_nat kv' ->
  ref_decode (S g) s idx (a ++ (wide kt (num * 8) ++ wide kv v1) ++ c) x =
  ref_decode (S g) s idx (a ++ (wide kt' (num * 8) ++ wide kv' v2) ++ c) x.
Proof. exact narrow32_records_same. Qed.
Example C02_narrow32_examples : spec_conv KSint32 (2 ^ 32 + 2) = 1 /\ spec_conv KSint32 2 = 1 /\ spec_conv KInt32 (2 ^ 40 + 2 ^ 32 - 1) = -1 /\
  spec_conv KUint32 (2 ^ 63 + 7) = 7 /\ (2 ^ 32 + 2) mod 2 ^ 32 = 2 mod 2 ^ 32.
Proof. vm_compute. repeat split; reflexivity. Qed.
(* the k-group spelling with the minimal k is the reference encoder's, and wider spellings are different bytes *)
Example C02_wide_examples : wide 1 1 = spec_varint 1 /\ wide 2 300 = spec_varint 300 /\ wide 3 1 = [129; 128; 0] /\ wide 10 1 <> spec_varint 1 /\
  spec_parse_varint (wide 10 1) = Some (1, 10%nat) /\ spec_parse_varint (wide 5 300 ++ [7]) = Some (300, 5%nat).
Proof. vm_compute. repeat split; try reflexivity. discriminate. Qed.

(* the side condition holds for 32 of the 35 checked-in message types (three types of test.proto use, or contain,
   custom types whose codecs are user code) *)
Example C02_applies_to_checked_in :
  map (fun s => length (filter (tdec_applies_at s) (seq 0 (length s)))) checked_in_schemas = [12; 8; 3; 5; 4]%nat /\
  map (@length mdesc) checked_in_schemas = [15; 8; 3; 5; 4]%nat.
Proof. vm_compute. split; reflexivity. Qed.

(* What remains outside the theorem: that the reference decoder itself (Ref.ref_decode, 150 lines written from
   the encoding documentation) is the protobuf semantics - validated per run against protobuf-go on every generated
   and rewritten encoding - and that the model is the code (correspondence). See DESIGN.md C02. *)

Example C02_nonvacuous : dec_tr KBool 2 = 1 /\ dec_tr KInt32 4294967295 = -1 /\ dec_tr KSint32 4294967295 = -2147483648 /\ dec_tr KSfixed64 3 = 3.
Proof. repeat split; vm_compute; reflexivity. Qed.

Print Assumptions C02_value_rules.
Print Assumptions C02_field.
Print Assumptions C02_tag.
Print Assumptions C02_loop_is_dispatch.
Print Assumptions C02_flat_message.
Print Assumptions C02_every_decode_body.
Print Assumptions C02_varint_reader.
Print Assumptions C02_unmarshal_is_reference_decoder.
Print Assumptions C02_exchange_records_reference.
Print Assumptions C02_exchange_records_unmarshal.
Print Assumptions C02_split_submessage.
Print Assumptions C02_replace_records.
Print Assumptions C02_packed_unpacked_reference.
Print Assumptions C02_packed_unpacked_unmarshal.
Print Assumptions C02_packed_split.
Print Assumptions C02_same_meaning_records.
Print Assumptions C02_narrow32_records.
Print Assumptions C02_nonminimal_varint.
