(* C02 - Unmarshal reads every valid protobuf encoding of a message to the same values. *)
From Coq Require Import List ZArith Bool.
From Pico Require Import Base.Res Base.Mach Wire.Wire Schema.Types Schema.Scalar Ref.Ref
  Schema.ScalarProofs Dec.Dec Dec.ReaderProofs Wire.VarintProofs Wire.WireProofs.
Import ListNotations.
Open Scope Z_scope.

(* Integer narrowing, zig-zag and bool rules are the protobuf rules for EVERY wire value (not
   only those picobuf writes): int32 keeps the low 32 bits as two's complement, sint uses
   zig-zag on the (truncated) unsigned value, any non-zero varint is true. *)
Theorem C02_value_rules : forall k x, 0 <= x < 2 ^ 64 -> dec_tr k x = spec_conv k x.
Proof. exact dec_tr_spec. Qed.

(* Reading a reference-encoded field gives its value and leaves the cursor on the next tag. *)
Theorem C02_field : forall k field v v0 rest e, scalar_ok k v = true ->
  dec_single k field {| pf := field; pw := wire_of k; buf := enc_payload k v ++ rest; err := e |} v0 =
  (next_field 0 {| pf := field; pw := wire_of k; buf := rest; err := e |}, v).
Proof. exact dec_single_value. Qed.
Theorem C02_tag : forall num wt rest pf0 pw0 e, valid_number num = true -> 0 <= wt < 8 ->
  next_field 0 {| pf := pf0; pw := pw0; buf := spec_tag num wt ++ rest; err := e |} =
  {| pf := num; pw := wt; buf := rest; err := e |}.
Proof. exact next_field_tag. Qed.

(* PARTIAL. pico_unmarshal = ref_decode on all inputs (and the closure of ref_decode under
   reordering / repacking / non-minimal varints / splitting / unknown fields) is not proved;
   it is decided per run on the rewritten-encoding stream: implementation = model = ref_decode
   = protobuf-go. See DESIGN.md C02. *)

Example C02_nonvacuous : dec_tr KBool 2 = 1 /\ dec_tr KInt32 4294967295 = -1 /\ dec_tr KSint32 4294967295 = -2147483648 /\ dec_tr KSfixed64 3 = 3.
Proof. repeat split; vm_compute; reflexivity. Qed.

Print Assumptions C02_value_rules.
Print Assumptions C02_field.
Print Assumptions C02_tag.
