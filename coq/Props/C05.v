(* C05 - Unmarshal succeeds only on well-formed input it has fully consumed. *)
From Coq Require Import List ZArith Bool.
From Pico Require Import Base.Res Base.Mach Wire.Wire Schema.Types Schema.Scalar Schema.Gen Schema.Interp Ref.Ref Dec.Dec Dec.ReaderProofs Dec.SafetyProofs Dec.LoopInst Dec.TokenBridge Schema.TDec.
Import ListNotations.
Open Scope Z_scope.

(* a tag whose field number lies above 2^29-1 is an error (it used to end the message silently) *)
Theorem C05_invalid_number : forall num wt rest pf0 pw0 e, 2 ^ 29 - 1 < num <= 2 ^ 31 - 1 -> 0 <= wt < 8 ->
  err (next_field 0 {| pf := pf0; pw := pw0; buf := spec_tag num wt ++ rest; err := e |}) = Some (0, EFieldNum).
Proof. exact next_field_invalid_number. Qed.
(* an input cut inside a tag is an error *)
Theorem C05_truncated_tag : forall pf0 pw0 e y, 128 <= y < 256 ->
  err (next_field 0 {| pf := pf0; pw := pw0; buf := [y]; err := e |}) = Some (0, ETag).
Proof. exact next_field_truncated_tag. Qed.
(* a known field with an unacceptable wire type is an error *)
Theorem C05_wrong_wire : forall k field st v, field = pf st -> pw st <> wire_of k ->
  err (fst (dec_single k field st v)) = Some (field, EWire).
Proof. intros. rewrite dec_single_wrong_wire by assumption. reflexivity. Qed.
(* an error detected at any depth is never lost: advancing the cursor and returning from a
   sub-message (popState) keep dec.err *)
Theorem C05_sticky_next : forall n st, err st <> None -> err (next_field n st) <> None.
Proof. exact next_field_err_sticky. Qed.
Theorem C05_sticky_pop : forall outer inner, err inner <> None -> err (pop_state outer inner) <> None.
Proof. exact pop_state_err_sticky. Qed.

(* skipping a field fails exactly where the wire grammar has no value (truncated, bad wire type,
   unbalanced or too deep group), and never reports more bytes than the input holds *)
Theorem C05_skip_is_one_value : forall num wt rest, bytes_ok rest ->
  match parse_value num wt rest with
  | Some (p, k) => consume_field_value num wt rest = Z.of_nat k /\ (k <= length rest)%nat
  | None => consume_field_value num wt rest < 0
  end.
Proof. exact cfv_parse_value. Qed.

(* Whole messages: Unmarshal returns nil error EXACTLY on the inputs the reference decoder accepts, i.e. the
   recursive well-formedness predicate: every tag valid, every wire type the field's (or packed), every length
   inside its enclosing buffer, every nested message / map entry / Timestamp well formed, input fully consumed. *)
Theorem C05_accepts_exactly_wellformed : forall s progs idx data t0,
  gen_all s = GOk progs -> tdec_applies_at s idx = true -> bytes_ok data ->
  (fst (pico_unmarshal progs idx data t0) = None <-> ref_decode (S (S (S (length data)))) s idx data t0 <> None).
Proof.
  intros s progs idx data t0 Hg Ha Hb. pose proof (T_dec_at s progs idx data t0 Hg Ha Hb) as H. cbv zeta in H.
  destruct (ref_decode (S (S (S (length data)))) s idx data t0) as [t''|].
  - split; [discriminate|intros _; exact (proj1 H)].
  - split; [intros E; contradiction|intros E; exfalso; apply E; reflexivity].
Qed.

Example C05_nonvacuous : valid_number 536870912 = false /\ spec_tag 536870912 0 = [128; 128; 128; 128; 16].
Proof. split; vm_compute; reflexivity. Qed.

Print Assumptions C05_invalid_number.
Print Assumptions C05_truncated_tag.
Print Assumptions C05_wrong_wire.
Print Assumptions C05_sticky_next.
Print Assumptions C05_skip_is_one_value.
Print Assumptions C05_accepts_exactly_wellformed.
