(* C05 - Unmarshal succeeds only on well-formed input it has fully consumed. *)
From Coq Require Import List ZArith Bool.
From Pico Require Import Base.Res Base.Mach Wire.Wire Schema.Types Schema.Scalar Ref.Ref Dec.Dec Dec.ReaderProofs Dec.SafetyProofs.
Import ListNotations.
Open Scope Z_scope.

(* a tag whose field number lies above 2^29-1 is an error (it used to end the message silently) *)
Theorem C05_invalid_number : forall num wt rest pf0 pw0 e, 2 ^ 29 - 1 < num <= 2 ^ 31 - 1 -> 0 <= wt < 8 ->
  err (next_field 0 {| pf := pf0; pw := pw0; buf := spec_tag num wt ++ rest; err := e |}) = Some (0, EFieldNum).
Proof. exact next_field_invalid_number. Qed.
(* an input cut inside a tag is an error *)
Theorem C05_truncated_tag : forall pf0 pw0 e y, 128 <= y < 256 ->
  err (next_field 0 {| pf := pf0; pw := pw0; buf := [y]; err := e |}) = Some (0, ETag).
Proof. exact next_field_truncated_tag. Qed.
(* a known field with an unacceptable wire type is an error *)
Theorem C05_wrong_wire : forall k field st v, field = pf st -> pw st <> wire_of k ->
  err (fst (dec_single k field st v)) = Some (field, EWire).
Proof. intros. rewrite dec_single_wrong_wire by assumption. reflexivity. Qed.
(* an error detected at any depth is never lost: advancing the cursor and returning from a
   sub-message (popState) keep dec.err *)
Theorem C05_sticky_next : forall n st, err st <> None -> err (next_field n st) <> None.
Proof. exact next_field_err_sticky. Qed.
Theorem C05_sticky_pop : forall outer inner, err inner <> None -> err (pop_state outer inner) <> None.
Proof. exact pop_state_err_sticky. Qed.

(* PARTIAL. The equivalence err = None <-> wf_input s i b for whole messages is decided per run:
   implementation verdict = model verdict = wf_input (Coq) = the independent predicate built on
   protobuf-go's protowire, on every prefix / corruption / short token string generated. *)

Example C05_nonvacuous : valid_number 536870912 = false /\ spec_tag 536870912 0 = [128; 128; 128; 128; 16].
Proof. split; vm_compute; reflexivity. Qed.

Print Assumptions C05_invalid_number.
Print Assumptions C05_truncated_tag.
Print Assumptions C05_wrong_wire.
Print Assumptions C05_sticky_next.
