(* C20 - the small-value bitset behaves as a set for every sequence of insertions. *)
From Coq Require Import List ZArith.
From Pico Require Import Base.Res Small.Bitset Small.BitsetProofs.
Import ListNotations.
Open Scope Z_scope.

(* Every finite history of Set calls with int32 arguments on a fresh set: no call
   panics (result is Ok) and each call returns exactly "x >= 0 and x was inserted
   before" (spec keeps a mathematical set of the non-negative values seen). *)
Theorem C20 : forall xs, Forall int32 xs -> run_chk empty xs = Ok (spec [] xs).
Proof. intros xs H. exact (run_inv xs empty [] H inv_empty). Qed.

(* the observable the correspondence check compares is the same function *)
Theorem C20_trace : forall xs, Forall int32 xs -> run_trace empty xs = (spec [] xs, false).
Proof. intros xs H. exact (run_trace_chk xs empty _ (C20 xs H)). Qed.

(* non-vacuity: a history with repeats, negatives and large values *)
Example C20_example :
  Forall int32 [64; -1; 64; 1048576; 0; 1048576; 2147483647; 63] /\
  spec [] [64; -1; 64; 1048576; 0; 1048576; 63; 63] = [false; false; true; false; false; true; false; true].
Proof. split; [repeat constructor; vm_compute; intuition discriminate|reflexivity]. Qed.
Print Assumptions C20.
Print Assumptions C20_trace.
