(* C18 - checked-in generated sources are exactly what the generators produce.
   Byte identity is text, decided by running the real generators (harness). The part a model
   can carry: the generator inputs regenerated from the working tree are the ones every theorem
   of this development is stated over. *)
From Coq Require Import List String ZArith Bool.
From Pico Require Import Schema.Types Schema.Gen Schema.TableSpec gen.Schemas gen.TypesTable gen.ConvGen Wire.Wire.
Import ListNotations.

(* the scalar table in internal/generatecoder/main.go (input of encoder_types.go, decoder_types.go,
   picowire/map.go) is the table the scalar model mirrors *)
Theorem C18_types_table : gen_types_table = expected_types_table.
Proof. exact types_table_ok. Qed.

(* the schemas in the working tree's .proto files (input of every *.pico.go) are accepted by the
   generator model: the programs compared with the checked-in files are well defined *)
Theorem C18_schemas_generate : forallb (fun s => match gen_all s with GOk _ => true | GError _ => false end) checked_in_schemas = true.
Proof. vm_compute. reflexivity. Qed.

Example C18_nonvacuous : List.length gen_types_table = 15%nat /\ List.length checked_in_schemas = 5%nat.
Proof. split; reflexivity. Qed.

Print Assumptions C18_types_table.
Print Assumptions C18_schemas_generate.
