(* Result monad: Go panics are values of the model, never totalised away. *)
From Coq Require Import List ZArith.
Import ListNotations.

Inductive result (A : Type) : Type :=
| Ok (a : A)
| Panic.
Arguments Ok {A} a.
Arguments Panic {A}.

Definition bind {A B} (r : result A) (f : A -> result B) : result B :=
  match r with Ok a => f a | Panic => Panic end.

Notation "'let!' x ':=' e 'in' k" := (bind e (fun x => k))
  (at level 200, x name, e at level 100, k at level 200, right associativity).
Notation "'let!' ' p ':=' e 'in' k" := (bind e (fun x => match x with p => k end))
  (at level 200, p pattern, e at level 100, k at level 200, right associativity).

(* checked slice/index primitives (Go semantics: out of range = panic) *)
Definition idx {A} (l : list A) (i : nat) : result A :=
  match nth_error l i with Some a => Ok a | None => Panic end.

Fixpoint upd {A} (l : list A) (i : nat) (v : A) : list A :=
  match l, i with
  | [], _ => []
  | _ :: t, O => v :: t
  | h :: t, S j => h :: upd t j v
  end.

Definition put {A} (l : list A) (i : nat) (v : A) : result (list A) :=
  if Nat.ltb i (length l) then Ok (upd l i v) else Panic.

(* l[n:] *)
Definition sl_from {A} (l : list A) (n : nat) : result (list A) :=
  if Nat.leb n (length l) then Ok (skipn n l) else Panic.
(* l[:n]  (n <= len; capacity is not modelled here, see Enc/CBuf.v) *)
Definition sl_to {A} (l : list A) (n : nat) : result (list A) :=
  if Nat.leb n (length l) then Ok (firstn n l) else Panic.

Lemma upd_length {A} (l : list A) i v : length (upd l i v) = length l.
Proof. revert i; induction l as [|h t IH]; intros [|j]; cbn; auto. Qed.

Lemma nth_upd_same {A} (l : list A) i v d : i < length l -> nth i (upd l i v) d = v.
Proof.
  revert i; induction l as [|h t IH]; intros [|j] H; cbn in *; try (exfalso; inversion H; fail); auto.
  apply IH. apply Arith_prebase.lt_S_n. exact H.
Qed.

Lemma nth_upd_other {A} (l : list A) i j v d : i <> j -> nth j (upd l i v) d = nth j l d.
Proof.
  revert i j; induction l as [|h t IH]; intros [|i] [|j] H; cbn; auto; try congruence.
Qed.
