(* List lemmas shared by the development. *)
From Coq Require Import List Arith Lia.
From Pico Require Import Base.Res.
Import ListNotations.

Lemma firstn_app_l {A} (a b : list A) n : n = length a -> firstn n (a ++ b) = a.
Proof. intros ->. rewrite firstn_app, Nat.sub_diag, firstn_all. cbn. apply app_nil_r. Qed.
Lemma skipn_app_l {A} (a b : list A) n : n = length a -> skipn n (a ++ b) = b.
Proof. intros ->. rewrite skipn_app, Nat.sub_diag, skipn_all. reflexivity. Qed.

Lemma skipn_nth_cons {A} (l : list A) i d : i < length l -> skipn i l = nth i l d :: skipn (S i) l.
Proof.
  revert i; induction l as [|a l IH]; intros i H; cbn in H; [lia|].
  destruct i; [reflexivity|]. cbn [skipn nth]. rewrite IH by lia. reflexivity.
Qed.

Lemma upd_app_mid {A} (p : list A) x y t : Pico.Base.Res.upd (p ++ x :: t) (length p) y = p ++ y :: t.
Proof. induction p as [|a q IH]; cbn; [reflexivity|f_equal; exact IH]. Qed.
