(* Go fixed-width integer arithmetic written out on Z. *)
From Coq Require Import ZArith.
Open Scope Z_scope.

Definition u (w x : Z) : Z := x mod 2 ^ w.                       (* conversion to uintW *)
Definition s (w x : Z) : Z := (x + 2 ^ (w - 1)) mod 2 ^ w - 2 ^ (w - 1).  (* conversion to intW *)
Definition u8 := u 8.   Definition u32 := u 32.  Definition u64 := u 64.
Definition s32 := s 32. Definition s64 := s 64.

Definition in_u (w x : Z) : Prop := 0 <= x < 2 ^ w.
Definition in_s (w x : Z) : Prop := - 2 ^ (w - 1) <= x < 2 ^ (w - 1).
Definition in_ub (w x : Z) : bool := (0 <=? x) && (x <? 2 ^ w).
Definition in_sb (w x : Z) : bool := (- 2 ^ (w - 1) <=? x) && (x <? 2 ^ (w - 1)).

(* shifts: Go << on uintW wraps; >> on unsigned is logical, on signed arithmetic
   (Z.shiftr is arithmetic on negative numbers) *)
Definition shl (w x n : Z) : Z := u w (Z.shiftl x n).
Definition shr (x n : Z) : Z := Z.shiftr x n.

Definition byte_ok (b : Z) : bool := (0 <=? b) && (b <? 256).
