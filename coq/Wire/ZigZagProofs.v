(* Bit-twiddling transforms of conv.go / wire.go vs the closed forms of the
   protobuf encoding document. *)
From Coq Require Import List ZArith Lia Bool Arith.
From Pico Require Import Base.Res Base.Mach Wire.Wire Ref.Ref.
Import ListNotations.
Open Scope Z_scope.

Lemma lxor_ones x n : 0 <= n -> 0 <= x < 2 ^ n -> Z.lxor x (Z.ones n) = Z.ones n - x.
Proof.
  intros Hn Hx.
  assert (E : Z.lxor x (Z.ones n) = Z.land (Z.lnot x) (Z.ones n)).
  { apply Z.bits_inj'. intros i Hi.
    rewrite Z.lxor_spec, Z.land_spec, Z.lnot_spec by lia.
    destruct (Z.lt_ge_cases i n) as [Hlt|Hge].
    - rewrite Z.ones_spec_low by lia. rewrite xorb_true_r, andb_true_r. reflexivity.
    - rewrite Z.ones_spec_high by lia. rewrite xorb_false_r, andb_false_r.
      destruct (Z.eq_dec x 0) as [->|Hnz]; [apply Z.bits_0|].
      apply Z.bits_above_log2; [lia|].
      apply Z.log2_lt_pow2; [lia|]. assert (2 ^ n <= 2 ^ i) by (apply Z.pow_le_mono_r; lia). lia. }
  rewrite E, Z.land_ones by lia. rewrite Z.ones_equiv. unfold Z.lnot.
  assert (Hp : 0 < 2 ^ n) by (apply Z.pow_pos_nonneg; lia).
  set (P := 2 ^ n) in *. clearbody P.
  replace (Z.pred (- x)) with ((P - 1 - x) + (-1) * P) by lia.
  rewrite Z.mod_add by lia. rewrite Z.mod_small by lia. lia.
Qed.

(* generic: zig-zag at width w (32 or 64), as Go computes it on the unsigned side *)
Lemma zigzag_w w v : 0 < w -> - 2 ^ (w - 1) <= v < 2 ^ (w - 1) ->
  Z.lxor (u w (Z.shiftl v 1)) (u w (Z.shiftr v (w - 1))) = zz v.
Proof.
  intros Hw Hv. unfold u, zz.
  rewrite Z.shiftl_mul_pow2 by lia. change (2 ^ 1) with 2.
  rewrite Z.shiftr_div_pow2 by lia.
  assert (Hp : 0 < 2 ^ (w - 1)) by (apply Z.pow_pos_nonneg; lia).
  assert (Hpw : 2 ^ w = 2 * 2 ^ (w - 1)).
  { replace w with (1 + (w - 1)) at 1 by lia. rewrite Z.pow_add_r by lia. reflexivity. }
  set (P := 2 ^ (w - 1)) in *. rewrite Hpw. clearbody P.
  destruct (Z.ltb_spec v 0) as [Hneg|Hpos].
  - assert (Hq : v / P = -1) by (symmetry; apply Z.div_unique with (r := v + P); lia).
    rewrite Hq.
    assert (Hm1 : (-1) mod (2 * P) = 2 * P - 1) by (symmetry; apply Z.mod_unique with (q := -1); lia).
    rewrite Hm1.
    assert (Hm : (v * 2) mod (2 * P) = v * 2 + 2 * P) by (symmetry; apply Z.mod_unique with (q := -1); lia).
    rewrite Hm.
    assert (Hones : 2 * P - 1 = Z.ones w) by (rewrite Z.ones_equiv, Hpw; lia).
    rewrite Hones. rewrite lxor_ones by (rewrite ?Hpw; lia). rewrite <- Hones. lia.
  - rewrite (Z.div_small v) by lia. rewrite Z.mod_0_l by lia. rewrite Z.lxor_0_r.
    rewrite Z.mod_small by lia. lia.
Qed.

Lemma u_s w x : 0 < w -> u w (s w x) = u w x.
Proof.
  intros Hw. unfold u, s.
  assert (Hp : 0 < 2 ^ w) by (apply Z.pow_pos_nonneg; lia).
  rewrite Zminus_mod, Z.mod_mod by lia. rewrite <- Zminus_mod.
  f_equal. lia.
Qed.

Theorem encode_zigzag32_spec v : in_s 32 v -> encode_zigzag32 v = zz v.
Proof. intros H. unfold encode_zigzag32, u32, s32. rewrite u_s by lia. apply (zigzag_w 32); [lia|exact H]. Qed.

Theorem encode_zigzag64_spec v : in_s 64 v -> encode_zigzag64 v = zz v.
Proof.
  intros H. unfold encode_zigzag64, u64. rewrite u_s by lia. apply (zigzag_w 64); [lia|exact H].
Qed.

(* decoding: on the unsigned side, for every y < 2^w *)
Lemma unzigzag_w w y : 1 < w -> 0 <= y < 2 ^ w ->
  Z.lxor (s w (Z.shiftr y 1)) (Z.shiftr (s w (Z.shiftl (s w y) (w - 1))) (w - 1)) = unzz y.
Proof.
  intros Hw Hy. unfold s, unzz.
  rewrite Z.shiftr_div_pow2 by lia. change (2 ^ 1) with 2.
  rewrite Z.shiftl_mul_pow2 by lia. rewrite (Z.shiftr_div_pow2 _ (w - 1)) by lia.
  assert (Hp : 0 < 2 ^ (w - 1)) by (apply Z.pow_pos_nonneg; lia).
  assert (Hpw : 2 ^ w = 2 * 2 ^ (w - 1)).
  { replace w with (1 + (w - 1)) at 1 by lia. rewrite Z.pow_add_r by lia. reflexivity. }
  assert (Hp2 : 2 <= 2 ^ (w - 1)).
  { change 2 with (2 ^ 1) at 1. apply Z.pow_le_mono_r; lia. }
  set (P := 2 ^ (w - 1)) in *. rewrite Hpw in *. clearbody P.
  (* first operand: y/2 < P so the signed wrap is the identity *)
  assert (H1 : (y / 2 + P) mod (2 * P) - P = y / 2).
  { assert (0 <= y / 2 < P) by (split; [apply Z.div_pos; lia|apply Z.div_lt_upper_bound; lia]).
    rewrite Z.mod_small by lia. lia. }
  rewrite H1.
  (* second operand depends only on the parity of y *)
  set (sy := (y + P) mod (2 * P) - P).
  assert (Hsy : exists q, sy = y + q * (2 * P)).
  { unfold sy. exists (- ((y + P) / (2 * P))). pose proof (Z.div_mod (y + P) (2 * P) ltac:(lia)). lia. }
  destruct Hsy as [q Hq].
  destruct (Z.even y) eqn:Ev.
  - apply Z.even_spec in Ev. destruct Ev as [h Hh].
    assert (E : (sy * P + P) mod (2 * P) - P = 0).
    { rewrite Hq, Hh. replace ((2 * h + q * (2 * P)) * P + P) with (P + (h + q * P) * (2 * P)) by ring.
      rewrite Z.mod_add by lia. rewrite Z.mod_small by lia. lia. }
    rewrite E. rewrite Z.div_0_l by lia. apply Z.lxor_0_r.
  - assert (Od : Z.odd y = true) by (rewrite <- Z.negb_even, Ev; reflexivity).
    apply Z.odd_spec in Od. destruct Od as [h Hh].
    assert (E : (sy * P + P) mod (2 * P) - P = - P).
    { rewrite Hq, Hh. replace ((2 * h + 1 + q * (2 * P)) * P + P) with (0 + (h + 1 + q * P) * (2 * P)) by ring.
      rewrite Z.mod_add by lia. rewrite Z.mod_0_l by lia. lia. }
    rewrite E. replace (- P / P) with (-1) by (apply Z.div_unique with (r := 0); lia).
    rewrite Z.lxor_m1_r. unfold Z.lnot.
    rewrite Hh. replace ((2 * h + 1) / 2) with h by (apply Z.div_unique with (r := 1); lia).
    replace ((2 * h + 1 + 1) / 2) with (h + 1) by (apply Z.div_unique with (r := 0); lia). lia.
Qed.

Theorem decode_zigzag32_spec y : 0 <= y < 2 ^ 32 -> decode_zigzag32 y = unzz y.
Proof. intros H. unfold decode_zigzag32, s32. apply (unzigzag_w 32); [lia|exact H]. Qed.
Theorem decode_zigzag64_spec y : 0 <= y < 2 ^ 64 -> decode_zigzag64 y = unzz y.
Proof. intros H. unfold decode_zigzag64, s64. apply (unzigzag_w 64); [lia|exact H]. Qed.

Lemma unzz_zz v : unzz (zz v) = v.
Proof.
  unfold zz, unzz. destruct (Z.ltb_spec v 0).
  - replace (- 2 * v - 1) with (1 + 2 * (- v - 1)) by lia.
    rewrite Z.even_add_mul_2. cbn [Z.even].
    replace (1 + 2 * (- v - 1) + 1) with ((- v) * 2) by lia. rewrite Z.div_mul by lia. lia.
  - rewrite Z.even_mul. cbn [Z.even orb]. rewrite Z.mul_comm, Z.div_mul by lia. reflexivity.
Qed.

Lemma zz_range w v : 0 < w -> - 2 ^ (w - 1) <= v < 2 ^ (w - 1) -> 0 <= zz v < 2 ^ w.
Proof.
  intros Hw Hv. assert (Hpw : 2 ^ w = 2 * 2 ^ (w - 1)).
  { replace w with (1 + (w - 1)) at 1 by lia. rewrite Z.pow_add_r by lia. reflexivity. }
  unfold zz. destruct (Z.ltb_spec v 0); lia.
Qed.
