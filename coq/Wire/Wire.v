(* Model of internal/protowire/wire.go, stdlib.go and conv.go (wire primitives).
   Bytes are Z in [0,256); byte strings are lists; Go `int` results that can be
   negative (error codes) are Z. Only definitions here; proofs in WireProofs.v. *)
From Coq Require Import List ZArith Bool.
From Pico Require Import Base.Res Base.Mach.
Import ListNotations.
Open Scope Z_scope.

Definition bytes := list Z.

(* error codes of wire.go *)
Definition errTruncated : Z := -1.
Definition errFieldNumber : Z := -2.
Definition errOverflow : Z := -3.
Definition errReserved : Z := -4.
Definition errEndGroup : Z := -5.
Definition errRecursionDepth : Z := -6.

Definition MaxValidNumber : Z := 2 ^ 29 - 1.
Definition valid_number (n : Z) : bool := (1 <=? n) && (n <=? MaxValidNumber).

(* wire types *)
Definition VarintType : Z := 0.
Definition Fixed64Type : Z := 1.
Definition BytesType : Z := 2.
Definition StartGroupType : Z := 3.
Definition EndGroupType : Z := 4.
Definition Fixed32Type : Z := 5.

(* ---- AppendVarint: the 10-way switch.  Case k (k bytes): bytes 0..k-2 are
   byte((v>>7i)&0x7f|0x80), the last is byte(v>>7(k-1)). *)
Fixpoint varint_bytes (k : nat) (i : Z) (v : Z) : bytes :=
  match k with
  | O => []
  | S O => [u8 (Z.shiftr v (7 * i))]
  | S k' => u8 (Z.lor (Z.land (Z.shiftr v (7 * i)) 127) 128) :: varint_bytes k' (i + 1) v
  end.

Definition varint_size_switch (v : Z) : nat :=
  if v <? 2 ^ 7 then 1 else if v <? 2 ^ 14 then 2 else if v <? 2 ^ 21 then 3 else
  if v <? 2 ^ 28 then 4 else if v <? 2 ^ 35 then 5 else if v <? 2 ^ 42 then 6 else
  if v <? 2 ^ 49 then 7 else if v <? 2 ^ 56 then 8 else if v <? 2 ^ 63 then 9 else 10%nat.

Definition append_varint (v : Z) : bytes := varint_bytes (varint_size_switch v) 0 v.

(* ---- ConsumeVarint: the 10-step unrolled read (v -= 0x80<<7i; last step y<2) *)
Fixpoint consume_varint_from (fuel : nat) (i : Z) (v : Z) (b : bytes) : Z * Z :=
  match fuel with
  | O => (0, errOverflow)
  | S f =>
      match b with
      | [] => (0, errTruncated)
      | y :: b' =>
          let v' := v + Z.shiftl y (7 * i) in
          if i =? 9 then (if y <? 2 then (u64 v', 10) else (0, errOverflow))
          else if y <? 128 then (v', i + 1)
          else consume_varint_from f (i + 1) (v' - Z.shiftl 128 (7 * i)) b'
      end
  end.
Definition consume_varint (b : bytes) : Z * Z := consume_varint_from 10 0 0 b.

(* SizeVarint: int(9*uint32(bits.Len64(v))+64) / 64 ; bits.Len64 v = number of bits *)
Definition len64 (v : Z) : Z := if v =? 0 then 0 else Z.log2 v + 1.
Definition size_varint (v : Z) : Z := (9 * len64 v + 64) / 64.

(* PutUvarint (stdlib.go): writes into a slice of given bytes; returns new slice content.
   for x >= 0x80 { buf[i] = byte(x)|0x80; x >>= 7; i++ }; buf[i] = byte(x) *)
Fixpoint put_uvarint_from (fuel : nat) (buf : bytes) (i : nat) (x : Z) : result bytes :=
  match fuel with
  | O => Panic
  | S f =>
      if 128 <=? x then
        let! buf' := put buf i (Z.lor (u8 x) 128) in
        put_uvarint_from f buf' (S i) (Z.shiftr x 7)
      else put buf i (u8 x)
  end.
Definition put_uvarint (buf : bytes) (x : Z) : result bytes := put_uvarint_from 10 buf 0 x.

(* conv.go appendTag: x := uint64(num)<<3 | uint64(typ&7); for x >= 0x80 {...} *)
Fixpoint uvarint_loop (fuel : nat) (x : Z) : bytes :=
  match fuel with
  | O => []
  | S f => if 128 <=? x then Z.lor (u8 x) 128 :: uvarint_loop f (Z.shiftr x 7) else [u8 x]
  end.
Definition tag_value (num typ : Z) : Z := Z.lor (shl 64 (u64 num) 3) (Z.land typ 7).
Definition append_tag (num typ : Z) : bytes := uvarint_loop 10 (tag_value num typ).

(* wire.go EncodeTag / AppendTag (used when re-tagging captured fields) *)
Definition encode_tag (num typ : Z) : Z := Z.lor (shl 64 (u64 num) 3) (u64 (Z.land typ 7)).
Definition pw_append_tag (num typ : Z) : bytes := append_varint (encode_tag num typ).

(* DecodeTag: if x>>3 > MaxInt32 then (-1,0) else (x>>3, x&7) *)
Definition decode_tag (x : Z) : Z * Z :=
  if 2 ^ 31 - 1 <? Z.shiftr x 3 then (-1, 0) else (Z.shiftr x 3, Z.land x 7).

(* ConsumeTag *)
Definition consume_tag (b : bytes) : Z * Z * Z :=
  let '(v, n) := consume_varint b in
  if n <? 0 then (0, 0, n) else
  let '(num, typ) := decode_tag v in
  if num <? 1 then (0, 0, errFieldNumber) else (num, typ, n).

(* fixed width *)
Definition append_fixed32 (v : Z) : bytes :=
  [u8 (Z.shiftr v 0); u8 (Z.shiftr v 8); u8 (Z.shiftr v 16); u8 (Z.shiftr v 24)].
Definition append_fixed64 (v : Z) : bytes :=
  [u8 (Z.shiftr v 0); u8 (Z.shiftr v 8); u8 (Z.shiftr v 16); u8 (Z.shiftr v 24);
   u8 (Z.shiftr v 32); u8 (Z.shiftr v 40); u8 (Z.shiftr v 48); u8 (Z.shiftr v 56)].
Definition consume_fixed32 (b : bytes) : Z * Z :=
  match b with
  | b0 :: b1 :: b2 :: b3 :: _ =>
      (Z.lor (Z.lor (Z.lor b0 (Z.shiftl b1 8)) (Z.shiftl b2 16)) (Z.shiftl b3 24), 4)
  | _ => (0, errTruncated)
  end.
Definition consume_fixed64 (b : bytes) : Z * Z :=
  match b with
  | b0 :: b1 :: b2 :: b3 :: b4 :: b5 :: b6 :: b7 :: _ =>
      (Z.lor (Z.lor (Z.lor (Z.lor (Z.lor (Z.lor (Z.lor b0 (Z.shiftl b1 8)) (Z.shiftl b2 16)) (Z.shiftl b3 24))
         (Z.shiftl b4 32)) (Z.shiftl b5 40)) (Z.shiftl b6 48)) (Z.shiftl b7 56), 8)
  | _ => (0, errTruncated)
  end.

(* m <= len(l), computed by walking at most m elements (no length is materialised) *)
Fixpoint has_len_z (l : bytes) (m : Z) : bool :=
  match l with
  | [] => m <=? 0
  | _ :: t => (m <=? 0) || has_len_z t (m - 1)
  end.

(* ConsumeBytes: m,n := ConsumeVarint(b); if m > len(b[n:]) truncated; b[n:][:m], n+int(m) *)
Definition consume_bytes (b : bytes) : bytes * Z :=
  let '(m, n) := consume_varint b in
  if n <? 0 then ([], n) else
  let rest := skipn (Z.to_nat n) b in
  if negb (has_len_z rest m) then ([], errTruncated)
  else (firstn (Z.to_nat m) rest, n + m).
Definition append_bytes (v : bytes) : bytes := append_varint (Z.of_nat (length v)) ++ v.

(* ConsumeFieldValue with the group recursion. One fuel bounds both the nesting and the
   number of tags read (each consumes at least one byte); `depth` is Go's recursion counter.
   The group loop counts the bytes it consumed (n0 - len(b) in the Go code). *)
Fixpoint consume_field_value_d (fuel : nat) (num typ : Z) (b : bytes) (depth : Z) : Z :=
  match fuel with
  | O => errTruncated (* unreachable with fuel > 2 * length b *)
  | S f =>
      if typ =? VarintType then snd (consume_varint b)
      else if typ =? Fixed32Type then snd (consume_fixed32 b)
      else if typ =? Fixed64Type then snd (consume_fixed64 b)
      else if typ =? BytesType then snd (consume_bytes b)
      else if typ =? StartGroupType then
        if depth <? 0 then errRecursionDepth else
        (fix group (gf : nat) (cur : bytes) (consumed : Z) : Z :=
           match gf with
           | O => errTruncated
           | S gf' =>
               let '(num2, typ2, n) := consume_tag cur in
               if n <? 0 then n else
               let cur1 := skipn (Z.to_nat n) cur in
               if typ2 =? EndGroupType then
                 (if num =? num2 then consumed + n else errEndGroup)
               else
                 let m := consume_field_value_d gf' num2 typ2 cur1 (depth - 1) in
                 if m <? 0 then m else group gf' (skipn (Z.to_nat m) cur1) (consumed + n + m)
           end) f b 0
      else if typ =? EndGroupType then errEndGroup
      else errReserved
  end.
Definition DefaultRecursionLimit : Z := 10000.
Definition consume_field_value (num typ : Z) (b : bytes) : Z :=
  consume_field_value_d (S (S (length b + length b))) num typ b DefaultRecursionLimit.

(* zig-zag and bool transforms (conv.go, wire.go) *)
Definition encode_zigzag32 (v : Z) : Z := Z.lxor (u32 (s32 (Z.shiftl v 1))) (u32 (Z.shiftr v 31)).
Definition decode_zigzag32 (v : Z) : Z :=
  Z.lxor (s32 (Z.shiftr v 1)) (Z.shiftr (s32 (Z.shiftl (s32 v) 31)) 31).
Definition encode_zigzag64 (x : Z) : Z := Z.lxor (u64 (s64 (Z.shiftl x 1))) (u64 (Z.shiftr x 63)).
Definition decode_zigzag64 (x : Z) : Z :=
  Z.lxor (s64 (Z.shiftr x 1)) (Z.shiftr (s64 (Z.shiftl (s64 x) 63)) 63).
