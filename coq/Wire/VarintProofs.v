(* AppendVarint / ConsumeVarint against the arithmetic specification. *)
From Coq Require Import List ZArith Lia Bool Arith.
From Pico Require Import Base.Res Base.Mach Wire.Wire Ref.Ref.
Import ListNotations.
Open Scope Z_scope.

(* ---- small bit facts, by finite enumeration where the domain is finite *)
Lemma lor_128 x : 0 <= x < 128 -> Z.lor x 128 = x + 128.
Proof.
  intros H.
  assert (F : forallb (fun n => Z.lor (Z.of_nat n) 128 =? Z.of_nat n + 128) (seq 0 128) = true) by (vm_compute; reflexivity).
  rewrite forallb_forall in F. specialize (F (Z.to_nat x)).
  rewrite Z2Nat.id in F by lia. apply Z.eqb_eq, F. apply in_seq. lia.
Qed.

Lemma land_127 x : 0 <= x -> Z.land x 127 = x mod 128.
Proof. intros. change 127 with (Z.ones 7). rewrite Z.land_ones by lia. reflexivity. Qed.

Lemma shiftr_shiftr7 v i : 0 <= i -> Z.shiftr v (7 * (i + 1)) = Z.shiftr v (7 * i) / 128.
Proof.
  intros Hi. replace (7 * (i + 1)) with (7 * i + 7) by lia.
  rewrite <- Z.shiftr_shiftr by lia. rewrite (Z.shiftr_div_pow2 _ 7) by lia. reflexivity.
Qed.

Lemma u8_small x : 0 <= x < 256 -> u8 x = x.
Proof. intros. unfold u8, u. change (2 ^ 8) with 256. apply Z.mod_small. lia. Qed.

(* ---- the k-byte case of the switch is k steps of the base-128 recursion *)
Lemma varint_bytes_spec k : forall i v, 0 <= i -> 0 <= v -> (1 <= k)%nat ->
  Z.shiftr v (7 * i) < 128 ^ Z.of_nat k ->
  (k = 1%nat \/ 128 ^ (Z.of_nat k - 1) <= Z.shiftr v (7 * i)) ->
  varint_bytes k i v = varint7 k (Z.shiftr v (7 * i)).
Proof.
  induction k as [|k IH]; intros i v Hi Hv Hk Hlt Hge; [lia|].
  assert (Hw : 0 <= Z.shiftr v (7 * i)) by (apply Z.shiftr_nonneg; exact Hv).
  destruct k as [|k'].
  - cbn [varint_bytes varint7]. change (128 ^ Z.of_nat 1) with 128 in Hlt.
    replace (Z.shiftr v (7 * i) <? 128) with true by (symmetry; apply Z.ltb_lt; lia).
    rewrite u8_small by lia. reflexivity.
  - destruct Hge as [Hk1|Hge]; [discriminate|].
    change (varint_bytes (S (S k')) i v) with
      (u8 (Z.lor (Z.land (Z.shiftr v (7 * i)) 127) 128) :: varint_bytes (S k') (i + 1) v).
    change (varint7 (S (S k')) (Z.shiftr v (7 * i))) with
      (if Z.shiftr v (7 * i) <? 128 then [Z.shiftr v (7 * i)]
       else (Z.shiftr v (7 * i) mod 128 + 128) :: varint7 (S k') (Z.shiftr v (7 * i) / 128)).
    set (w := Z.shiftr v (7 * i)) in *.
    assert (Hp : 128 <= 128 ^ (Z.of_nat (S (S k')) - 1)).
    { replace (Z.of_nat (S (S k')) - 1) with (Z.of_nat k' + 1) by lia. rewrite Z.pow_add_r by lia.
      assert (0 < 128 ^ Z.of_nat k') by (apply Z.pow_pos_nonneg; lia). lia. }
    replace (w <? 128) with false by (symmetry; apply Z.ltb_ge; lia).
    rewrite land_127 by lia. pose proof (Z.mod_pos_bound w 128 ltac:(lia)) as Hm.
    rewrite lor_128 by lia. rewrite u8_small by lia. f_equal.
    rewrite IH; [rewrite shiftr_shiftr7 by lia; reflexivity|lia|lia|lia| |].
    + rewrite shiftr_shiftr7 by lia. fold w. apply Z.div_lt_upper_bound; [lia|].
      replace (Z.of_nat (S (S k'))) with (Z.of_nat (S k') + 1) in Hlt by lia.
      rewrite Z.pow_add_r in Hlt by lia. lia.
    + destruct k' as [|k'']; [left; reflexivity|right].
      rewrite shiftr_shiftr7 by lia. fold w. apply Z.div_le_lower_bound; [lia|].
      replace (Z.of_nat (S (S (S k''))) - 1) with (1 + (Z.of_nat (S (S k'')) - 1)) in Hge by lia.
      rewrite Z.pow_add_r in Hge by lia. lia.
Qed.

Lemma varint7_fuel k : forall j v, 0 <= v < 128 ^ Z.of_nat k -> (1 <= k)%nat -> varint7 (k + j) v = varint7 k v.
Proof.
  induction k as [|k IH]; intros j v Hv Hk; [lia|].
  cbn [Nat.add varint7]. destruct (Z.ltb_spec v 128); [reflexivity|].
  f_equal. destruct k as [|k'].
  - change (128 ^ Z.of_nat 1) with 128 in Hv. lia.
  - apply IH; [|lia]. split; [apply Z.div_pos; lia|].
    apply Z.div_lt_upper_bound; [lia|]. replace (Z.of_nat (S (S k'))) with (Z.of_nat (S k') + 1) in Hv by lia.
    rewrite Z.pow_add_r in Hv by lia. lia.
Qed.

Definition u64_ok (v : Z) : Prop := 0 <= v < 2 ^ 64.

(* AppendVarint is the minimal little-endian base-128 encoding, for every uint64 *)
Theorem append_varint_spec v : u64_ok v -> append_varint v = spec_varint v.
Proof.
  intros [H0 H64]. unfold append_varint, spec_varint, varint_size_switch.
  assert (S0 : Z.shiftr v (7 * 0) = v) by apply Z.shiftr_0_r.
  repeat match goal with
  | |- context [if v <? ?c then _ else _] => destruct (Z.ltb_spec v c)
  end;
  match goal with
  | |- varint_bytes ?k 0 v = varint7 10 v =>
      rewrite (varint_bytes_spec k 0 v) by
          (first [lia | rewrite S0; first [lia | (left; reflexivity) | (right; lia)]]);
      rewrite S0; symmetry; apply (varint7_fuel k (10 - k)); [split; [lia|]|lia]
  end.
  all: try lia.
  all: change (2 ^ 64) with 18446744073709551616 in *; lia.
Qed.

Lemma varint7_bytes_ok k : forall v, 0 <= v -> Forall (fun b => 0 <= b < 256) (varint7 k v) .
Proof.
  induction k as [|k IH]; intros v Hv; cbn [varint7]; [constructor|].
  destruct (Z.ltb_spec v 128); [repeat constructor; lia|].
  constructor; [pose proof (Z.mod_pos_bound v 128 ltac:(lia)); lia|apply IH, Z.div_pos; lia].
Qed.

Lemma varint7_length_pos k v : (1 <= k)%nat -> (1 <= length (varint7 k v))%nat.
Proof. destruct k; [lia|]. intros _. cbn [varint7]. destruct (v <? 128); cbn; lia. Qed.

Lemma varint7_length_le k : forall v, (length (varint7 k v) <= k)%nat.
Proof. induction k as [|k IH]; intros v; cbn [varint7]; [cbn; lia|]. destruct (v <? 128); cbn; [lia|specialize (IH (v/128)); lia]. Qed.

(* ---- ConsumeVarint reads back what the base-128 recursion wrote *)
Lemma shiftl_mul y i : 0 <= i -> Z.shiftl y (7 * i) = y * 128 ^ i.
Proof.
  intros. rewrite Z.shiftl_mul_pow2 by lia. f_equal.
  rewrite Z.pow_mul_r by lia. reflexivity.
Qed.

Lemma consume_from_spec k : forall n i acc w rest,
  (1 <= k)%nat -> 0 <= i -> Z.of_nat n = 10 - i -> i + Z.of_nat k <= 10 ->
  0 <= acc -> 0 <= w < 128 ^ Z.of_nat k -> acc + w * 128 ^ i < 2 ^ 64 ->
  length (varint7 k w) = k ->
  consume_varint_from n i acc (varint7 k w ++ rest) = (acc + w * 128 ^ i, i + Z.of_nat k).
Proof.
  induction k as [|k IH]; intros n i acc w rest Hk Hi Hn Hik Hacc Hw Hlt Hlen; [lia|].
  destruct n as [|n]; [lia|].
  assert (Hpi : 0 < 128 ^ i) by (apply Z.pow_pos_nonneg; lia).
  cbn [varint7] in *. destruct (Z.ltb_spec w 128) as [Hs|Hb].
  - (* last byte *)
    cbn [length] in Hlen. assert (k = 0%nat) by lia. subst k.
    cbn [app consume_varint_from]. rewrite shiftl_mul by lia.
    destruct (Z.eqb_spec i 9) as [->|Hne].
    + assert (w < 2).
      { change (2 ^ 64) with (2 * 128 ^ 9) in Hlt. nia. }
      replace (w <? 2) with true by (symmetry; apply Z.ltb_lt; lia).
      unfold u64, u. rewrite Z.mod_small by lia. reflexivity.
    + replace (w <? 128) with true by (symmetry; apply Z.ltb_lt; lia).
      reflexivity.
  - cbn [length] in Hlen. assert (Hlen' : length (varint7 k (w / 128)) = k) by lia.
    destruct k as [|k']; [cbn in Hlen'; change (128 ^ Z.of_nat 1) with 128 in Hw; lia|].
    pose proof (Z.mod_pos_bound w 128 ltac:(lia)) as Hm.
    cbn [app consume_varint_from]. rewrite shiftl_mul by lia.
    destruct (Z.eqb_spec i 9) as [->|Hne]; [lia|].
    replace (w mod 128 + 128 <? 128) with false by (symmetry; apply Z.ltb_ge; lia).
    rewrite shiftl_mul by lia.
    rewrite (IH n (i + 1) _ (w / 128) rest); try lia.
    + f_equal; [|lia]. rewrite Z.pow_add_r by lia. change (128 ^ 1) with 128.
      pose proof (Z.div_mod w 128 ltac:(lia)). nia.
    + split; [apply Z.div_pos; lia|]. apply Z.div_lt_upper_bound; [lia|].
      replace (Z.of_nat (S (S k'))) with (Z.of_nat (S k') + 1) in Hw by lia.
      rewrite Z.pow_add_r in Hw by lia. lia.
    + rewrite Z.pow_add_r by lia. change (128 ^ 1) with 128.
      pose proof (Z.div_mod w 128 ltac:(lia)). nia.
Qed.

(* length of the minimal encoding is exactly the number of base-128 digits *)
Lemma varint7_length_exact k : forall w, (1 <= k)%nat -> 0 <= w < 128 ^ Z.of_nat k ->
  (k = 1%nat \/ 128 ^ (Z.of_nat k - 1) <= w) -> length (varint7 k w) = k.
Proof.
  induction k as [|k IH]; intros w Hk Hw Hge; [lia|].
  cbn [varint7]. destruct (Z.ltb_spec w 128) as [Hs|Hb].
  - destruct Hge as [->|Hge]; [reflexivity|].
    destruct k as [|k']; [reflexivity|].
    exfalso. replace (Z.of_nat (S (S k')) - 1) with (Z.of_nat k' + 1) in Hge by lia.
    rewrite Z.pow_add_r in Hge by lia. assert (0 < 128 ^ Z.of_nat k') by (apply Z.pow_pos_nonneg; lia). lia.
  - cbn [length]. f_equal. destruct k as [|k']; [change (128 ^ Z.of_nat 1) with 128 in Hw; lia|].
    apply IH; [lia| |].
    + split; [apply Z.div_pos; lia|]. apply Z.div_lt_upper_bound; [lia|].
      replace (Z.of_nat (S (S k'))) with (Z.of_nat (S k') + 1) in Hw by lia.
      rewrite Z.pow_add_r in Hw by lia. lia.
    + destruct k' as [|k'']; [left; reflexivity|right].
      apply Z.div_le_lower_bound; [lia|]. destruct Hge as [Hge|Hge]; [lia|].
      replace (Z.of_nat (S (S (S k''))) - 1) with (1 + (Z.of_nat (S (S k'')) - 1)) in Hge by lia.
      rewrite Z.pow_add_r in Hge by lia. lia.
Qed.

(* number of base-128 digits of v (1..10) *)
Definition ndigits (v : Z) : nat := varint_size_switch v.

Lemma ndigits_bounds v : u64_ok v ->
  (1 <= ndigits v <= 10)%nat /\ v < 128 ^ Z.of_nat (ndigits v) /\
  (ndigits v = 1%nat \/ 128 ^ (Z.of_nat (ndigits v) - 1) <= v).
Proof.
  intros [H0 H64]. unfold ndigits, varint_size_switch.
  change (2 ^ 64) with 18446744073709551616 in H64.
  repeat match goal with
  | |- context [if v <? ?c then _ else _] => destruct (Z.ltb_spec v c)
  end; (split; [lia|split; [try lia|first [left; reflexivity|right; try lia]]]).
  all: cbn; lia.
Qed.

Lemma spec_varint_ndigits v : u64_ok v -> spec_varint v = varint7 (ndigits v) v.
Proof.
  intros H. destruct (ndigits_bounds v H) as [Hk [Hlt _]].
  unfold spec_varint. replace 10%nat with (ndigits v + (10 - ndigits v))%nat by lia.
  apply varint7_fuel; [destruct H; lia|lia].
Qed.

Lemma spec_varint_length v : u64_ok v -> length (spec_varint v) = ndigits v.
Proof.
  intros H. rewrite spec_varint_ndigits by exact H.
  destruct (ndigits_bounds v H) as [Hk [Hlt Hge]].
  apply varint7_length_exact; [lia|destruct H; lia|exact Hge].
Qed.

Theorem consume_spec_varint v rest : u64_ok v ->
  consume_varint (spec_varint v ++ rest) = (v, Z.of_nat (length (spec_varint v))).
Proof.
  intros H. rewrite spec_varint_length by exact H. rewrite spec_varint_ndigits by exact H.
  destruct (ndigits_bounds v H) as [Hk [Hlt Hge]]. destruct H as [H0 H64].
  unfold consume_varint.
  rewrite (consume_from_spec (ndigits v) 10 0 0 v rest); try lia.
  - f_equal. change (128 ^ 0) with 1. lia.
  - apply varint7_length_exact; [lia|lia|exact Hge].
Qed.

Corollary consume_append_varint v rest : u64_ok v ->
  consume_varint (append_varint v ++ rest) = (v, Z.of_nat (length (append_varint v))).
Proof. intros H. rewrite append_varint_spec by exact H. apply consume_spec_varint, H. Qed.


(* has_len_z is the comparison with the length *)
Lemma has_len_z_spec l : forall m, has_len_z l m = (m <=? Z.of_nat (length l)).
Proof.
  induction l as [|y t IH]; intros m; cbn [has_len_z length]; [reflexivity|].
  rewrite IH. rewrite Nat2Z.inj_succ.
  destruct (Z.leb_spec m 0); destruct (Z.leb_spec (m - 1) (Z.of_nat (length t))); destruct (Z.leb_spec m (Z.succ (Z.of_nat (length t)))); cbn [orb]; try reflexivity; lia.
Qed.
Lemma not_has_len_z l m : negb (has_len_z l m) = (Z.of_nat (length l) <? m).
Proof. rewrite has_len_z_spec. destruct (Z.leb_spec m (Z.of_nat (length l))); destruct (Z.ltb_spec (Z.of_nat (length l)) m); cbn; try reflexivity; lia. Qed.
