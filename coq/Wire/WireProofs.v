(* Remaining wire primitives against their arithmetic specifications. *)
From Coq Require Import List ZArith Lia Bool Arith.
From Pico Require Import Base.Res Base.Mach Wire.Wire Ref.Ref Wire.VarintProofs.
Import ListNotations.
Open Scope Z_scope.

Ltac Zify.zify_post_hook ::= Z.div_mod_to_equations.

(* ---- SizeVarint = number of bytes AppendVarint writes *)
Lemma size_varint_ndigits v : u64_ok v -> size_varint v = Z.of_nat (ndigits v).
Proof.
  intros [H0 H64]. unfold size_varint, len64.
  destruct (Z.eqb_spec v 0) as [->|Hnz]; [reflexivity|].
  assert (Hpos : 0 < v) by lia.
  unfold ndigits, varint_size_switch.
  repeat match goal with
  | |- context [if v <? 2 ^ ?c then _ else _] =>
      let H := fresh "H" in
      destruct (Z.ltb_spec v (2 ^ c)) as [H|H];
      [apply (Z.log2_lt_pow2 v c Hpos) in H | apply (Z.log2_le_pow2 v c Hpos) in H]
  end.
  all: try (apply (Z.log2_lt_pow2 v 64 Hpos) in H64).
  all: pose proof (Z.log2_nonneg v); cbn [Z.of_nat Pos.of_succ_nat Pos.succ]; lia.
Qed.

Lemma length_append_varint v : u64_ok v -> Z.of_nat (length (append_varint v)) = size_varint v.
Proof.
  intros H. rewrite append_varint_spec, spec_varint_length, size_varint_ndigits by exact H. reflexivity.
Qed.

(* ---- the specification's own varint reader accepts the canonical encoding *)
Lemma parse_varint_spec k : forall n shift acc w rest,
  (1 <= k)%nat -> (k <= n)%nat -> 0 <= shift -> 0 <= acc -> 0 <= w < 128 ^ Z.of_nat k ->
  acc + w * 2 ^ shift < 2 ^ 64 -> length (varint7 k w) = k ->
  parse_varint n (varint7 k w ++ rest) shift acc = Some (acc + w * 2 ^ shift, k).
Proof.
  induction k as [|k IH]; intros n shift acc w rest Hk Hn Hs Hacc Hw Hlt Hlen; [lia|].
  destruct n as [|n]; [lia|].
  assert (Hp : 0 < 2 ^ shift) by (apply Z.pow_pos_nonneg; lia).
  cbn [varint7] in *. destruct (Z.ltb_spec w 128) as [Hsm|Hb].
  - cbn [length] in Hlen. assert (k = 0%nat) by lia. subst k.
    cbn [app parse_varint]. rewrite Z.mod_small by lia.
    replace (w <? 128) with true by (symmetry; apply Z.ltb_lt; lia).
    replace (acc + w * 2 ^ shift <? 2 ^ 64) with true by (symmetry; apply Z.ltb_lt; lia). reflexivity.
  - cbn [length] in Hlen.
    destruct k as [|k']; [change (128 ^ Z.of_nat 1) with 128 in Hw; lia|].
    pose proof (Z.mod_pos_bound w 128 ltac:(lia)) as Hm.
    cbn [app parse_varint].
    replace ((w mod 128 + 128) mod 128) with (w mod 128)
      by (rewrite <- Zplus_mod_idemp_r; change (128 mod 128) with 0; rewrite Z.add_0_r, Z.mod_mod by lia; reflexivity).
    replace (w mod 128 + 128 <? 128) with false by (symmetry; apply Z.ltb_ge; lia).
    rewrite (IH n (shift + 7) _ (w / 128) rest); try lia.
    + f_equal. f_equal. rewrite Z.pow_add_r by lia. change (2 ^ 7) with 128.
      pose proof (Z.div_mod w 128 ltac:(lia)). nia.
    + split; [apply Z.div_pos; lia|]. apply Z.div_lt_upper_bound; [lia|].
      replace (Z.of_nat (S (S k'))) with (Z.of_nat (S k') + 1) in Hw by lia.
      rewrite Z.pow_add_r in Hw by lia. lia.
    + rewrite Z.pow_add_r by lia. change (2 ^ 7) with 128.
      pose proof (Z.div_mod w 128 ltac:(lia)). nia.
Qed.

Theorem spec_parse_spec_varint v rest : u64_ok v ->
  spec_parse_varint (spec_varint v ++ rest) = Some (v, length (spec_varint v)).
Proof.
  intros H. rewrite spec_varint_length by exact H. rewrite spec_varint_ndigits by exact H.
  destruct (ndigits_bounds v H) as [Hk [Hlt Hge]]. destruct H as [H0 H64].
  unfold spec_parse_varint.
  rewrite (parse_varint_spec (ndigits v) 10 0 0 v rest); try lia.
  - f_equal. f_equal. change (2 ^ 0) with 1. lia.
  - apply varint7_length_exact; [lia|lia|exact Hge].
Qed.

(* ---- tags: conv.go appendTag and protowire.AppendTag are the spec tag for valid numbers *)
Lemma uvarint_loop_spec k : forall x, (1 <= k)%nat -> 0 <= x < 128 ^ Z.of_nat k ->
  uvarint_loop k x = varint7 k x.
Proof.
  induction k as [|k IH]; intros x Hk Hx; [lia|].
  cbn [uvarint_loop varint7].
  destruct (Z.ltb_spec x 128) as [Hs|Hb].
  - replace (128 <=? x) with false by (symmetry; apply Z.leb_gt; lia).
    rewrite u8_small by lia. reflexivity.
  - replace (128 <=? x) with true by (symmetry; apply Z.leb_le; lia).
    assert (Hu : Z.lor (u8 x) 128 = x mod 128 + 128).
    { unfold u8, u.
      assert (E : Z.lor (x mod 2 ^ 8) (2 ^ 7) = Z.lor (x mod 2 ^ 7) (2 ^ 7)).
      { apply Z.bits_inj'. intros i Hi. rewrite !Z.lor_spec.
        destruct (Z.ltb_spec i 7).
        - rewrite !Z.mod_pow2_bits_low by lia. reflexivity.
        - destruct (Z.eqb_spec i 7) as [->|Hne].
          + rewrite Z.pow2_bits_true by lia. rewrite !orb_true_r. reflexivity.
          + rewrite !Z.mod_pow2_bits_high by lia. reflexivity. }
      change 128 with (2 ^ 7). rewrite E. change (2 ^ 7) with 128.
      apply lor_128. apply Z.mod_pos_bound. lia. }
    rewrite Hu. f_equal. rewrite Z.shiftr_div_pow2 by lia. change (2 ^ 7) with 128.
    destruct k as [|k']; [change (128 ^ Z.of_nat 1) with 128 in Hx; lia|].
    apply IH; [lia|]. split; [apply Z.div_pos; lia|]. apply Z.div_lt_upper_bound; [lia|].
    replace (Z.of_nat (S (S k'))) with (Z.of_nat (S k') + 1) in Hx by lia.
    rewrite Z.pow_add_r in Hx by lia. lia.
Qed.

Lemma lor_add_disjoint a b : Z.land a b = 0 -> Z.lor a b = a + b.
Proof. intros H. rewrite <- Z.lxor_lor by exact H. symmetry. apply Z.add_nocarry_lxor, H. Qed.

Lemma land_shifted_small a t : 0 <= t < 8 -> Z.land (a * 8) t = 0.
Proof.
  intros Ht. apply Z.bits_inj'. intros i Hi. rewrite Z.land_spec, Z.bits_0.
  destruct (Z.ltb_spec i 3).
  - replace (a * 8) with (Z.shiftl a 3) by (rewrite Z.shiftl_mul_pow2 by lia; reflexivity).
    rewrite Z.shiftl_spec_low by lia. reflexivity.
  - replace (Z.testbit t i) with false; [apply andb_false_r|].
    symmetry. destruct (Z.eq_dec t 0) as [->|]; [apply Z.bits_0|].
    apply Z.bits_above_log2; [lia|]. apply Z.log2_lt_pow2; [lia|].
    assert (2 ^ 3 <= 2 ^ i) by (apply Z.pow_le_mono_r; lia). change (2 ^ 3) with 8 in *. lia.
Qed.

Lemma tag_value_spec num typ : 0 <= num < 2 ^ 61 -> 0 <= typ < 8 -> tag_value num typ = num * 8 + typ.
Proof.
  intros Hn Ht. unfold tag_value, shl, u64, u.
  change (2 ^ 61) with 2305843009213693952 in Hn.
  rewrite (Z.mod_small num) by (change (2 ^ 64) with 18446744073709551616; lia).
  rewrite Z.shiftl_mul_pow2 by lia. change (2 ^ 3) with 8.
  rewrite Z.mod_small by (change (2 ^ 64) with 18446744073709551616; lia).
  change 7 with (Z.ones 3). rewrite Z.land_ones by lia. change (2 ^ 3) with 8.
  rewrite (Z.mod_small typ) by lia.
  apply lor_add_disjoint, land_shifted_small, Ht.
Qed.

Lemma encode_tag_spec num typ : 0 <= num < 2 ^ 61 -> 0 <= typ < 8 -> encode_tag num typ = num * 8 + typ.
Proof.
  intros Hn Ht. unfold encode_tag, shl, u64, u.
  change (2 ^ 61) with 2305843009213693952 in Hn.
  rewrite (Z.mod_small num) by (change (2 ^ 64) with 18446744073709551616; lia).
  rewrite Z.shiftl_mul_pow2 by lia. change (2 ^ 3) with 8.
  rewrite (Z.mod_small (num * 8)) by (change (2 ^ 64) with 18446744073709551616; lia).
  change 7 with (Z.ones 3). rewrite Z.land_ones by lia. change (2 ^ 3) with 8.
  rewrite (Z.mod_small typ) by lia.
  rewrite (Z.mod_small typ) by (change (2 ^ 64) with 18446744073709551616; lia).
  apply lor_add_disjoint, land_shifted_small, Ht.
Qed.

(* for every valid field number the tag picobuf writes is the canonical one *)
Theorem append_tag_spec num typ : 1 <= num <= MaxValidNumber -> 0 <= typ < 8 ->
  append_tag num typ = spec_tag num typ.
Proof.
  intros Hn Ht. unfold MaxValidNumber in Hn. change (2 ^ 29 - 1) with 536870911 in Hn.
  unfold append_tag, spec_tag, spec_varint.
  rewrite tag_value_spec by (change (2 ^ 61) with 2305843009213693952; lia).
  apply (uvarint_loop_spec 10); [lia|]. change (128 ^ Z.of_nat 10) with 1180591620717411303424. lia.
Qed.

Theorem pw_append_tag_spec num typ : 1 <= num <= 2 ^ 31 - 1 -> 0 <= typ < 8 ->
  pw_append_tag num typ = spec_tag num typ.
Proof.
  intros Hn Ht. change (2 ^ 31 - 1) with 2147483647 in Hn.
  unfold pw_append_tag, spec_tag.
  rewrite encode_tag_spec by (change (2 ^ 61) with 2305843009213693952; lia).
  apply append_varint_spec. split; [lia|]. change (2 ^ 64) with 18446744073709551616. lia.
Qed.
