From Coq Require Import List ZArith Lia Bool Arith.
From Pico Require Import Base.Res Base.Mach Wire.Wire Ref.Ref Wire.VarintProofs Wire.WireProofs.
Import ListNotations.
Open Scope Z_scope.

Lemma u8_shiftr v n : 0 <= n -> u8 (Z.shiftr v n) = (v / 2 ^ n) mod 256.
Proof. intros. unfold u8, u. rewrite Z.shiftr_div_pow2 by lia. reflexivity. Qed.

Theorem append_fixed32_spec v : append_fixed32 v = le_bytes 4 v.
Proof.
  unfold append_fixed32. cbn [le_bytes]. rewrite !u8_shiftr by lia.
  change (2 ^ 0) with 1. rewrite Z.div_1_r.
  rewrite !Z.div_div by lia. reflexivity.
Qed.

Theorem append_fixed64_spec v : append_fixed64 v = le_bytes 8 v.
Proof.
  unfold append_fixed64. cbn [le_bytes]. rewrite !u8_shiftr by lia.
  change (2 ^ 0) with 1. rewrite Z.div_1_r.
  rewrite !Z.div_div by lia. reflexivity.
Qed.

Lemma lor_shiftl a b n : 0 <= n -> 0 <= a < 2 ^ n -> Z.lor a (Z.shiftl b n) = a + b * 2 ^ n.
Proof.
  intros Hn Ha. rewrite lor_add_disjoint; [rewrite Z.shiftl_mul_pow2 by lia; reflexivity|].
  apply Z.bits_inj'. intros i Hi. rewrite Z.land_spec, Z.bits_0.
  destruct (Z.ltb_spec i n).
  - rewrite Z.shiftl_spec_low by lia. apply andb_false_r.
  - replace (Z.testbit a i) with false; [reflexivity|].
    symmetry. destruct (Z.eq_dec a 0) as [->|]; [apply Z.bits_0|].
    apply Z.bits_above_log2; [lia|]. apply Z.log2_lt_pow2; [lia|].
    assert (2 ^ n <= 2 ^ i) by (apply Z.pow_le_mono_r; lia). lia.
Qed.

Definition byte_p (b : Z) : Prop := 0 <= b < 256.

Lemma consume_fixed32_le b0 b1 b2 b3 rest : byte_p b0 -> byte_p b1 -> byte_p b2 -> byte_p b3 ->
  consume_fixed32 (b0 :: b1 :: b2 :: b3 :: rest) = (le_value [b0; b1; b2; b3], 4).
Proof.
  unfold byte_p. intros H0 H1 H2 H3. cbn [consume_fixed32 le_value]. f_equal.
  rewrite (lor_shiftl b0 b1 8) by (change (2 ^ 8) with 256; lia).
  rewrite (lor_shiftl _ b2 16) by (change (2 ^ 8) with 256; change (2 ^ 16) with 65536; lia).
  rewrite (lor_shiftl _ b3 24) by (change (2 ^ 8) with 256; change (2 ^ 16) with 65536; change (2 ^ 24) with 16777216; lia).
  change (2 ^ 8) with 256. change (2 ^ 16) with 65536. change (2 ^ 24) with 16777216. lia.
Qed.

Lemma consume_fixed64_le b0 b1 b2 b3 b4 b5 b6 b7 rest :
  byte_p b0 -> byte_p b1 -> byte_p b2 -> byte_p b3 -> byte_p b4 -> byte_p b5 -> byte_p b6 -> byte_p b7 ->
  consume_fixed64 (b0 :: b1 :: b2 :: b3 :: b4 :: b5 :: b6 :: b7 :: rest) = (le_value [b0; b1; b2; b3; b4; b5; b6; b7], 8).
Proof.
  unfold byte_p. intros H0 H1 H2 H3 H4 H5 H6 H7. cbn [consume_fixed64 le_value]. f_equal.
  rewrite (lor_shiftl b0 b1 8) by (change (2 ^ 8) with 256; lia).
  rewrite (lor_shiftl _ b2 16) by (change (2 ^ 8) with 256; change (2 ^ 16) with 65536; lia).
  rewrite (lor_shiftl _ b3 24) by (change (2 ^ 8) with 256; change (2 ^ 16) with 65536; change (2 ^ 24) with 16777216; lia).
  rewrite (lor_shiftl _ b4 32) by (change (2 ^ 8) with 256; change (2 ^ 16) with 65536; change (2 ^ 24) with 16777216; change (2 ^ 32) with 4294967296; lia).
  rewrite (lor_shiftl _ b5 40) by (change (2 ^ 8) with 256; change (2 ^ 16) with 65536; change (2 ^ 24) with 16777216; change (2 ^ 32) with 4294967296; change (2 ^ 40) with 1099511627776; lia).
  rewrite (lor_shiftl _ b6 48) by (change (2 ^ 8) with 256; change (2 ^ 16) with 65536; change (2 ^ 24) with 16777216; change (2 ^ 32) with 4294967296; change (2 ^ 40) with 1099511627776; change (2 ^ 48) with 281474976710656; lia).
  rewrite (lor_shiftl _ b7 56) by (change (2 ^ 8) with 256; change (2 ^ 16) with 65536; change (2 ^ 24) with 16777216; change (2 ^ 32) with 4294967296; change (2 ^ 40) with 1099511627776; change (2 ^ 48) with 281474976710656; change (2 ^ 56) with 72057594037927936; lia).
  change (2 ^ 8) with 256. change (2 ^ 16) with 65536. change (2 ^ 24) with 16777216. change (2 ^ 32) with 4294967296.
  change (2 ^ 40) with 1099511627776. change (2 ^ 48) with 281474976710656. change (2 ^ 56) with 72057594037927936. lia.
Qed.

Lemma le_bytes_ok n : forall v, Forall byte_p (le_bytes n v).
Proof. induction n as [|n IH]; intros v; cbn [le_bytes]; constructor; [apply Z.mod_pos_bound; lia|apply IH]. Qed.

Lemma le_bytes_length n v : length (le_bytes n v) = n.
Proof. revert v; induction n as [|n IH]; intros v; cbn [le_bytes length]; [reflexivity|f_equal; apply IH]. Qed.

Lemma le_value_le_bytes n : forall v, 0 <= v < 256 ^ Z.of_nat n -> le_value (le_bytes n v) = v.
Proof.
  induction n as [|n IH]; intros v Hv; cbn [le_bytes le_value].
  - cbn in Hv. lia.
  - rewrite IH.
    + pose proof (Z.div_mod v 256 ltac:(lia)). lia.
    + rewrite Nat2Z.inj_succ, Z.pow_succ_r in Hv by lia.
      split; [apply Z.div_pos; lia|apply Z.div_lt_upper_bound; lia].
Qed.

Theorem consume_append_fixed32 v rest : 0 <= v < 2 ^ 32 -> consume_fixed32 (append_fixed32 v ++ rest) = (v, 4).
Proof.
  intros Hv. rewrite append_fixed32_spec.
  pose proof (le_bytes_ok 4 v) as Hok. pose proof (le_value_le_bytes 4 v) as Hval.
  cbn [le_bytes] in *. repeat (match goal with H : Forall _ (_ :: _) |- _ => inversion H; clear H; subst end).
  cbn [app]. rewrite consume_fixed32_le by assumption. f_equal. apply Hval. exact Hv.
Qed.

Theorem consume_append_fixed64 v rest : 0 <= v < 2 ^ 64 -> consume_fixed64 (append_fixed64 v ++ rest) = (v, 8).
Proof.
  intros Hv. rewrite append_fixed64_spec.
  pose proof (le_bytes_ok 8 v) as Hok. pose proof (le_value_le_bytes 8 v) as Hval.
  cbn [le_bytes] in *. repeat (match goal with H : Forall _ (_ :: _) |- _ => inversion H; clear H; subst end).
  cbn [app]. rewrite consume_fixed64_le by assumption. f_equal. apply Hval. exact Hv.
Qed.
