(* Reference specification of the protobuf wire format for a schema: canonical
   encoder, strict tokenizer, merge-semantics decoder. Written from the protobuf
   encoding documentation; shares no algorithm with the picobuf model (only the
   group skipper of protowire, which is protobuf-go's own, and the two picoconv
   conversion functions whose arithmetic C14 characterises separately). *)
From Coq Require Import List ZArith Bool Arith.
From Pico Require Import Base.Res Base.Mach Wire.Wire Schema.Types Schema.Scalar Schema.Gen Schema.Conv.
Import ListNotations.
Open Scope Z_scope.

(* ---------------------------------------------------------------- encoding *)
(* minimal little-endian base-128 *)
Fixpoint varint7 (fuel : nat) (v : Z) : bytes :=
  match fuel with
  | O => []
  | S f => if v <? 128 then [v] else (v mod 128 + 128) :: varint7 f (v / 128)
  end.
Definition spec_varint (v : Z) : bytes := varint7 10 v.
Definition spec_tag (num wt : Z) : bytes := spec_varint (num * 8 + wt).

Fixpoint le_bytes (n : nat) (v : Z) : bytes :=
  match n with O => [] | S k => (v mod 256) :: le_bytes k (v / 256) end.

Definition zz (v : Z) : Z := if v <? 0 then - 2 * v - 1 else 2 * v.
Definition unzz (x : Z) : Z := if Z.even x then x / 2 else - ((x + 1) / 2).

(* the value bytes of a scalar, by the encoding document *)
Definition spec_payload (k : kind) (v : val) : bytes :=
  match k with
  | KBool => [if as_int v =? 0 then 0 else 1]
  | KInt32 | KInt64 => spec_varint (as_int v mod 2 ^ 64)      (* negative: 64-bit two's complement *)
  | KUint32 | KUint64 => spec_varint (as_int v)
  | KSint32 | KSint64 => spec_varint (zz (as_int v))
  | KFixed32 | KFloat => le_bytes 4 (as_int v)
  | KSfixed32 => le_bytes 4 (as_int v mod 2 ^ 32)
  | KFixed64 | KDouble => le_bytes 8 (as_int v)
  | KSfixed64 => le_bytes 8 (as_int v mod 2 ^ 64)
  | KString | KBytes => spec_varint (Z.of_nat (length (as_bytes v))) ++ as_bytes v
  end.

Definition spec_default (k : kind) (v : val) : bool :=
  match k with
  | KString | KBytes => match as_bytes v with [] => true | _ => false end
  | _ => as_int v =? 0                                        (* floats: +0 bit pattern only *)
  end.

Definition spec_field (k : kind) (num : Z) (v : val) : bytes := spec_tag num (wire_of k) ++ spec_payload k v.
Definition spec_ld (num : Z) (payload : bytes) : bytes :=
  spec_tag num 2 ++ spec_varint (Z.of_nat (length payload)) ++ payload.

Definition kind_of_ftype (t : ftype) : kind := match t with TScalar k => k | _ => KInt32 end.

(* {int64 seconds = 1; int32 nanos = 2} *)
Definition spec_sec_nanos (sec nanos : Z) : bytes :=
  (if sec =? 0 then [] else spec_field KInt64 1 (VInt sec)) ++
  (if nanos =? 0 then [] else spec_field KInt32 2 (VInt nanos)).

Section RefEnc.
Variable s : schema.
Variable rec : nat -> list val -> bytes -> bytes.     (* encoding of a sub-message idx *)

Definition ref_msg_elem (num : Z) (idx : nat) (x : val) : bytes :=
  match x with
  | VMsg (Some (fs, u)) => spec_ld num (rec idx fs u)
  | VMsg None => spec_ld num []            (* nil element of a repeated field: empty message *)
  | VEmb fs u => spec_ld num (rec idx fs u)
  | _ => []
  end.

Definition ref_cast_elem (num : Z) (x : val) : bytes :=
  match x with
  | VTime sec nsec => if time_is_zero sec nsec then [] else spec_ld num (spec_sec_nanos sec nsec)
  | VDur d => spec_ld num (spec_sec_nanos (Z.quot d second) (Z.rem d second))
  | _ => []
  end.

Definition ref_cast_slot (num : Z) (v : val) : bytes :=
  match v with
  | VOpt (Some x) => ref_cast_elem num x
  | VOpt None => []
  | VList l => flat_map (fun e => match e with VOpt (Some x) => ref_cast_elem num x | VOpt None => [] | x => ref_cast_elem num x end) l
  | x => ref_cast_elem num x
  end.

Definition ref_scalar_slot (k : kind) (num : Z) (v : val) : bytes :=
  match v with
  | VOpt None => []
  | VOpt (Some x) => spec_field k num x                       (* presence: always written *)
  | VList l =>
      if is_bytes_kind k then flat_map (spec_field k num) l
      else match l with
           | [] => []
           | _ => spec_ld num (flat_map (spec_payload k) l)     (* packed *)
           end
  | x => if spec_default k x then [] else spec_field k num x
  end.

Definition ref_msg_slot (num : Z) (idx : nat) (v : val) : bytes :=
  match v with
  | VMsg None => []
  | VMsg (Some (fs, u)) => spec_ld num (rec idx fs u)
  | VEmb fs u => let p := rec idx fs u in match p with [] => [] | _ => spec_ld num p end
  | VOpt (Some x) => match x with VEmb fs u => spec_ld num (rec idx fs u) | _ => [] end   (* selected by-value oneof member: always written *)
  | VList l => flat_map (ref_msg_elem num idx) l
  | _ => []
  end.

Definition ref_map_slot (kk vk : kind) (num : Z) (v : val) : bytes :=
  match v with
  | VMap l =>
      flat_map (fun e => spec_ld num
           ((if spec_default kk (fst e) then [] else spec_field kk 1 (fst e)) ++
            (if spec_default vk (snd e) then [] else spec_field vk 2 (snd e)))) l
  | _ => []
  end.

Definition ref_slot (f : fdesc) (v : val) : bytes :=
  let num := fnum f in
  match f_custom f, fty f with
  | (CTimestamp | CDuration), _ => ref_cast_slot num v
  | COpaque, _ => []
  | CNone, (TScalar _ | TEnum) => ref_scalar_slot (kind_of_ftype (fty f)) num v
  | CNone, TMsg idx => ref_msg_slot num idx v
  | CNone, TMap kk vk => ref_map_slot kk vk num v
  | CNone, TMapOther => []
  end.
End RefEnc.

Fixpoint ref_encode (fuel : nat) (s : schema) (idx : nat) (fs : list val) (un : bytes) : bytes :=
  match fuel with
  | O => []
  | S g =>
      match nth_error s idx with
      | None => []
      | Some m =>
          flat_map (fun p => ref_slot (ref_encode g s) (snd p) (nth (fst p) fs (VInt 0)))
                   (sort_by_num (number_from 0 (mfields m))) ++
          (if m_capture m then un else [])       (* only a capturing message stores unknown fields *)
      end
  end.

(* ---------------------------------------------------------------- decoding *)
Inductive payload := PVarint (v : Z) | PFixed32 (v : Z) | PFixed64 (v : Z) | PBytes (b : bytes) | PGroup.
Record token := { t_num : Z; t_wt : Z; t_pay : payload; t_raw : bytes (* the value bytes as in the input *) }.

(* a varint: at most 10 groups of 7 bits, value < 2^64 *)
Fixpoint parse_varint (fuel : nat) (b : bytes) (shift : Z) (acc : Z) : option (Z * nat) :=
  match fuel with
  | O => None
  | S f =>
      match b with
      | [] => None
      | y :: b' =>
          let acc' := acc + (y mod 128) * 2 ^ shift in
          if y <? 128 then (if acc' <? 2 ^ 64 then Some (acc', 1%nat) else None)
          else match parse_varint f b' (shift + 7) acc' with
               | Some (v, n) => Some (v, S n)
               | None => None
               end
      end
  end.
Definition spec_parse_varint (b : bytes) : option (Z * nat) := parse_varint 10 b 0 0.

Fixpoint le_value (b : bytes) : Z := match b with [] => 0 | y :: t => y + 256 * le_value t end.

(* the value that follows a tag (num, wt): (payload, bytes consumed) *)
Definition parse_value (num wt : Z) (rest : bytes) : option (payload * nat) :=
  match wt with
  | 0 => match spec_parse_varint rest with
         | Some (v, k) => Some (PVarint v, k)
         | None => None
         end
  | 1 => if has_len_z rest 8 then Some (PFixed64 (le_value (firstn 8 rest)), 8%nat) else None
  | 5 => if has_len_z rest 4 then Some (PFixed32 (le_value (firstn 4 rest)), 4%nat) else None
  | 2 => match spec_parse_varint rest with
         | Some (len, k) =>
             let body := skipn k rest in
             if negb (has_len_z body len) then None
             else Some (PBytes (firstn (Z.to_nat len) body), (k + Z.to_nat len)%nat)
         | None => None
         end
  | 3 => (* group: what the reference skipper accepts (balanced, depth limit) *)
         let m := consume_field_value num 3 rest in
         if m <? 0 then None else Some (PGroup, Z.to_nat m)
  | _ => None
  end.

Definition valid_num (num : Z) : bool := (1 <=? num) && (num <=? 2 ^ 29 - 1).

(* one token at the head of b: (token, bytes consumed) *)
Definition parse_token (b : bytes) : option (token * nat) :=
  match spec_parse_varint b with
  | None => None
  | Some (x, n) =>
      let num := x / 8 in
      let wt := x mod 8 in
      if negb (valid_num num) then None else
      let rest := skipn n b in
      match parse_value num wt rest with
      | Some (p, k) => Some ({| t_num := num; t_wt := wt; t_pay := p; t_raw := firstn k rest |}, (n + k)%nat)
      | None => None
      end
  end.

Fixpoint tokenize (fuel : nat) (b : bytes) : option (list token) :=
  match fuel with
  | O => None
  | S f =>
      match b with
      | [] => Some []
      | _ => match parse_token b with
             | None => None
             | Some (t, n) =>
                 match n with
                 | O => None
                 | _ => match tokenize f (skipn n b) with Some ts => Some (t :: ts) | None => None end
                 end
             end
      end
  end.
Definition tokens (b : bytes) : option (list token) := tokenize (S (length b)) b.

(* conversion of a wire value to the field's Go value (narrowing, zig-zag, bool) *)
Definition spec_conv (k : kind) (x : Z) : Z :=
  match k with
  | KBool => if x =? 0 then 0 else 1
  | KInt32 => s32 x
  | KInt64 => s64 x
  | KUint32 => x mod 2 ^ 32
  | KUint64 => x
  | KSint32 => unzz (x mod 2 ^ 32)
  | KSint64 => unzz x
  | KFixed32 | KFixed64 | KFloat | KDouble => x
  | KSfixed32 => s32 x
  | KSfixed64 => s64 x
  | KString | KBytes => x
  end.

(* value carried by a token for a field of kind k, if its wire type is the kind's *)
Definition tok_scalar (k : kind) (t : token) : option val :=
  match wire_of k, t_pay t with
  | 0, PVarint v => if t_wt t =? 0 then Some (VInt (spec_conv k v)) else None
  | 5, PFixed32 v => Some (VInt (spec_conv k v))
  | 1, PFixed64 v => Some (VInt (spec_conv k v))
  | 2, PBytes b => Some (VBytes b)
  | _, _ => None
  end.

(* elements of a packed payload *)
Fixpoint unpack (fuel : nat) (k : kind) (b : bytes) : option (list val) :=
  match fuel with
  | O => None
  | S f =>
      match b with
      | [] => Some []
      | _ =>
          match wire_of k with
          | 0 => match spec_parse_varint b with
                 | Some (v, n) => match unpack f k (skipn n b) with Some l => Some (VInt (spec_conv k v) :: l) | None => None end
                 | None => None
                 end
          | 5 => if has_len_z b 4
                 then match unpack f k (skipn 4 b) with Some l => Some (VInt (spec_conv k (le_value (firstn 4 b))) :: l) | None => None end
                 else None
          | 1 => if has_len_z b 8
                 then match unpack f k (skipn 8 b) with Some l => Some (VInt (spec_conv k (le_value (firstn 8 b))) :: l) | None => None end
                 else None
          | _ => None
          end
      end
  end.

Definition find_field (m : mdesc) (num : Z) : option (nat * fdesc) :=
  find (fun p => fnum (snd p) =? num) (number_from 0 (mfields m)).

(* {seconds, nanos} of one occurrence of a Timestamp/Duration message: last value wins *)
Definition sec_nanos_of (b : bytes) : option (Z * Z) :=
  match tokens b with
  | None => None
  | Some ts =>
      fold_left (fun acc t =>
        match acc with
        | None => None
        | Some (sec, nanos) =>
            if t_num t =? 1 then match tok_scalar KInt64 t with Some v => Some (as_int v, nanos) | None => None end
            else if t_num t =? 2 then match tok_scalar KInt32 t with Some v => Some (sec, as_int v) | None => None end
            else Some (sec, nanos)
        end) ts (Some (0, 0))
  end.

Definition map_entry_of (kk vk : kind) (b : bytes) : option (val * val) :=
  match tokens b with
  | None => None
  | Some ts =>
      fold_left (fun acc t =>
        match acc with
        | None => None
        | Some (k, v) =>
            if t_num t =? 1 then match tok_scalar kk t with Some x => Some (x, v) | None => None end
            else if t_num t =? 2 then match tok_scalar vk t with Some x => Some (k, x) | None => None end
            else Some (k, v)
        end) ts (Some (zero_scalar kk, zero_scalar vk))
  end.

Definition spec_key_eqb (a b : val) : bool :=
  match a, b with
  | VInt x, VInt y => x =? y
  | VBytes x, VBytes y => if list_eq_dec Z.eq_dec x y then true else false
  | _, _ => false
  end.
Definition spec_map_set (l : list (val * val)) (k v : val) : list (val * val) :=
  if existsb (fun e => spec_key_eqb (fst e) k) l
  then map (fun e => if spec_key_eqb (fst e) k then (fst e, v) else e) l
  else l ++ [(k, v)].

Section RefDec.
Variable s : schema.
(* rec idx payload (fields, unrec) = merge of an encoded sub-message into a value *)
Variable rec : nat -> bytes -> list val * bytes -> option (list val * bytes).

Definition zero_of (idx : nat) : list val * bytes :=
  match nth_error s idx with Some m => (zero_fields s m, []) | None => ([], []) end.

Definition clear_siblings (m : mdesc) (f : fdesc) (slot : nat) (fs : list val) : list val :=
  fold_left (fun acc sib => set_nth acc sib (match nth sib acc (VInt 0) with VMsg _ => VMsg None | _ => VOpt None end))
            (oneof_siblings m f slot) fs.

Definition cast_value (c : custom) (b : bytes) : option val :=
  match sec_nanos_of b with
  | None => None
  | Some (sec, nanos) =>
      match c with
      | CTimestamp => let '(a, n) := time_unix sec nanos in Some (VTime a n)
      | CDuration => Some (VDur (dur_join sec nanos))
      | _ => None
      end
  end.

(* merge one token of a known field into the slot value. The Go shape of the slot (slice,
   pointer / oneof wrapper, plain value) is the one protoc-gen-pico chooses for the field. *)
Definition apply_known (m : mdesc) (slot : nat) (f : fdesc) (t : token) (fs : list val) : option (list val) :=
  let i := field_info s f in
  let cur := nth slot fs (VInt 0) in
  let fs0 := clear_siblings m f slot fs in
  let put v := Some (set_nth fs0 slot v) in
  let boxed := i_oneof i || i_pointer i in
  match f_custom f, fty f with
  | COpaque, _ => None
  | (CTimestamp | CDuration), _ =>
      match t_pay t with
      | PBytes b =>
          match cast_value (f_custom f) b with
          | None => None
          | Some x =>
              if i_repeated i then put (VList (as_list cur ++ [if i_pointer i then VOpt (Some x) else x]))
              else if boxed then put (VOpt (Some x))
              else put x
          end
      | _ => None
      end
  | CNone, (TScalar _ | TEnum) =>
      let k := kind_of_ftype (fty f) in
      if i_repeated i then
        match tok_scalar k t with
        | Some x => put (VList (as_list cur ++ [x]))
        | None =>
            match t_pay t with
            | PBytes b => if is_bytes_kind k then None else
                          match unpack (S (length b)) k b with Some xs => put (VList (as_list cur ++ xs)) | None => None end
            | _ => None
            end
        end
      else match tok_scalar k t with Some x => put (if boxed then VOpt (Some x) else x) | None => None end
  | CNone, TMsg idx =>
      match t_pay t with
      | PBytes b =>
          if i_repeated i then
            match rec idx b (zero_of idx) with
            | Some x => put (VList (as_list cur ++ [if i_pointer i then VMsg (Some x) else VEmb (fst x) (snd x)]))
            | None => None
            end
          else if i_pointer i then
            match rec idx b (match cur with VMsg (Some x) => x | _ => zero_of idx end) with
            | Some x => put (VMsg (Some x)) | None => None end
          else if i_oneof i then     (* by-value member of a oneof: merged into the selected wrapper, else into a fresh one *)
            match rec idx b (match cur with VOpt (Some (VEmb fs1 u1)) => (fs1, u1) | _ => zero_of idx end) with
            | Some x => put (VOpt (Some (VEmb (fst x) (snd x)))) | None => None end
          else
            match rec idx b (match cur with VEmb fs1 u1 => (fs1, u1) | _ => zero_of idx end) with
            | Some x => put (VEmb (fst x) (snd x)) | None => None end
      | _ => None
      end
  | CNone, TMap kk vk =>
      match t_pay t with
      | PBytes b =>
          match map_entry_of kk vk b with
          | Some (k, v) => put (VMap (spec_map_set (match cur with VMap l => l | _ => [] end) k v))
          | None => None
          end
      | _ => None
      end
  | CNone, TMapOther => None
  end.

Definition apply_token (m : mdesc) (t : token) (x : list val * bytes) : option (list val * bytes) :=
  match find_field m (t_num t) with
  | Some (slot, f) => match apply_known m slot f t (fst x) with Some fs => Some (fs, snd x) | None => None end
  | None =>
      if m_capture m then Some (fst x, snd x ++ spec_tag (t_num t) (t_wt t) ++ t_raw t) else Some x
  end.
End RefDec.

Fixpoint ref_decode (fuel : nat) (s : schema) (idx : nat) (b : bytes) (x : list val * bytes) : option (list val * bytes) :=
  match fuel with
  | O => None
  | S g =>
      match nth_error s idx, tokens b with
      | Some m, Some ts =>
          fold_left (fun acc t => match acc with Some y => apply_token s (ref_decode g s) m t y | None => None end)
                    ts (Some x)
      | _, _ => None
      end
  end.

(* the recursive well-formedness predicate of C05 *)
Definition wf_input (s : schema) (idx : nat) (b : bytes) : bool :=
  match ref_decode (S (length b)) s idx b (match nth_error s idx with Some m => (zero_fields s m, []) | None => ([], []) end) with
  | Some _ => true | None => false end.
