(* Extraction of the executable model for the correspondence driver.
   ExtrOcamlBasic only: Z, positive, N, nat stay the extracted inductives. *)
From Coq Require Import Extraction ExtrOcamlBasic ZArith List.
From Pico Require Import Base.Res Small.Bitset.
Extraction Language OCaml.

(* entry points get unique mx_ names so that extraction never renames them *)
Definition mx_bitset_run (xs : list Z) := Bitset.run_trace Bitset.empty xs.

Extraction "model.ml"
  Z.add Z.mul Z.sub Z.opp Z.of_nat Z.to_nat Z.div_eucl Z.eqb Z.ltb
  mx_bitset_run.
