(* Extraction of the executable model for the correspondence driver.
   ExtrOcamlBasic only: Z, positive, N, nat stay the extracted inductives. *)
From Coq Require Import Extraction ExtrOcamlBasic ZArith List.
From Pico Require Import Base.Res Base.Mach Wire.Wire Small.Bitset Small.FieldNumStr
  Schema.Types Schema.Scalar Schema.Gen Enc.Enc Dec.Dec Schema.Conv Schema.Interp Schema.Norm Ref.Ref Schema.EncSpec Schema.TDec Schema.RoundTrip Schema.Calls.
Import ListNotations.
Extraction Language OCaml.

(* entry points get unique mx_ names so that extraction never renames them *)
Definition mx_bitset_run (xs : list Z) := Bitset.run_trace Bitset.empty xs.
Definition mx_fn_string (f : Z) := FieldNumStr.fn_string f.

Definition mx_gen_all (s : schema) := gen_all s.

Definition msgv_of (v : val) : msgv :=
  match v with VMsg (Some m) => m | VEmb fs u => (fs, u) | _ => ([], []) end.

Definition mx_marshal (progs : list prog) (idx : nat) (v : val) : result bytes :=
  pico_marshal (S (S (val_depth 100000 v))) progs idx (msgv_of v).

Definition mx_unmarshal (progs : list prog) (idx : nat) (data : bytes) (m0 : val) :=
  let '(e, m) := pico_unmarshal progs idx data (msgv_of m0) in (e, VMsg (Some m)).

(* the well-typedness premise of T_enc, evaluated on every generated value *)
Definition mx_msg_ok (progs : list prog) (idx : nat) (v : val) : bool :=
  msg_ok (S (S (val_depth 100000 v))) progs idx (Some (msgv_of v)).

Definition mx_zero (progs : list prog) (idx : nat) : val :=
  match nth_error progs idx with Some p => VMsg (Some (p_zero p, [])) | None => VMsg None end.

Definition mx_norm (s : schema) (idx : nat) (v : val) : val :=
  let m := msgv_of v in VMsg (Some (norm_fields (S (S (val_depth 100000 v))) s idx (fst m), snd m)).

Definition mx_ref_encode (s : schema) (idx : nat) (v : val) : bytes :=
  let m := msgv_of v in ref_encode (S (S (val_depth 100000 v))) s idx (fst m) (snd m).

Definition mx_ref_decode (s : schema) (idx : nat) (data : bytes) (m0 : val) : option val :=
  match ref_decode (S (S (S (length data)))) s idx data (msgv_of m0) with   (* the fuel of Theorem T_dec *)
  | Some m => Some (VMsg (Some m)) | None => None end.

(* the computable side condition of Theorem T_dec (Unmarshal = ref_decode on every input) *)
Definition mx_tdec_applies (s : schema) : bool := tdec_applies s.
Definition mx_tdec_applies_at (s : schema) (idx : nat) : bool := tdec_applies_at s idx.

(* the side conditions of the round-trip theorem (Schema/RoundTrip.v): on the schema, and on every generated value *)
Definition mx_rt_applies (s : schema) : bool := rt_applies s.
Definition mx_rt_applies_at (s : schema) (idx : nat) : bool := rt_applies_at s idx.
Definition mx_rt_ok (s : schema) (idx : nat) (v : val) : bool :=
  let m := msgv_of v in rt_ok (S (S (val_depth 100000 v))) s idx (fst m) (snd m).

Definition mx_wf_input (s : schema) (idx : nat) (data : bytes) : bool := wf_input s idx data.

(* S-writers / S-readers entry points *)
Definition mx_writer (k : kind) (always rep : bool) (num : Z) (vs : list val) : result bytes :=
  if rep then enc_repeated k always num vs []
  else Ok (enc_single k always num (match vs with v :: _ => v | [] => VInt 0 end) []).

Definition mx_reader (k : kind) (rep : bool) (field : Z) (data : bytes) (init : list val) :=
  let st0 := next_field 0 {| pf := 0; pw := 0; buf := data; err := None |} in
  if rep then
    let '(st, vs) := dec_repeated (S (length data)) k field st0 init in
    (pf st, pw st, Z.of_nat (length (buf st)), err st, vs)
  else
    let '(st, v) := dec_single k field st0 (match init with v :: _ => v | [] => VInt 0 end) in
    (pf st, pw st, Z.of_nat (length (buf st)), err st, [v]).

(* the same reader inside the callback of Message/PresentMessage (wrap 0,1: under Loop) or RepeatedMessage (wrap 2) on field 9 *)
Definition mx_nested_reader (k : kind) (rep : bool) (field : Z) (outer : bytes) (init : list val) (wrap : Z) :=
  let st0 := next_field 0 {| pf := 0; pw := 0; buf := outer; err := None |} in
  let F := S (S (S (length outer))) in
  let fn := fun c (vs : list val) =>
              if rep then dec_repeated F k field c vs
              else let '(c', v) := dec_single k field c (match vs with v :: _ => v | [] => VInt 0 end) in (c', [v]) in
  let '(st, vs) := if wrap =? 2 then dec_repeated_message F 9 fn st0 init else dec_message F 9 fn st0 init in
  (* follow-up at the outer level: a fixed32 reader on field 7, which the input carries as a varint (wrong wire type):
     the failure must stop the decoder whatever happened inside the callback *)
  (* ... or, for inputs of odd length, the public Fail(7, msg) of a custom type *)
  let st2 := if Nat.even (length outer) then fst (dec_single KFixed32 7 st (VInt 0)) else fail 7 ECustom st in
  (pf st, Z.of_nat (length (buf st)), err st, vs, (pf st2, Z.of_nat (length (buf st2)), err st2)).

(* programs of Encoder calls (hand-written custom types): result, reference bytes, well-typedness; nesting depth <= 30 *)
Definition mx_run_calls (cs : list ecall) : result bytes := run_calls 32 cs [].
Definition mx_spec_calls (cs : list ecall) : bytes := flat_map (spec_call 32) cs.
Definition mx_calls_ok (cs : list ecall) : bool := forallb (call_ok 32) cs.

Definition mx_writer_enum (num : Z) (vs : list val) : result bytes := enc_repeated_enum num (map as_int vs) [].

(* picoconv on (seconds, nanos) *)
Definition mx_dur_join := dur_join.
Definition mx_dur_split := dur_split.
Definition mx_time_unix := time_unix.
Definition mx_enc_duration (d : Z) := enc_duration 1 d [].
Definition mx_enc_timestamp (sec nsec : Z) := enc_timestamp 1 sec nsec [].

Extraction "model.ml"
  mx_writer mx_writer_enum mx_run_calls mx_spec_calls mx_calls_ok mx_reader mx_nested_reader mx_dur_join mx_dur_split mx_time_unix mx_enc_duration mx_enc_timestamp
  Z.add Z.mul Z.sub Z.opp Z.of_nat Z.to_nat Z.div_eucl Z.eqb Z.ltb Z.compare
  mx_bitset_run mx_fn_string
  mx_gen_all mx_tdec_applies mx_tdec_applies_at mx_rt_applies mx_rt_applies_at mx_rt_ok mx_msg_ok mx_marshal mx_unmarshal mx_zero mx_norm mx_ref_encode mx_ref_decode mx_wf_input
  consume_varint append_varint consume_field_value consume_tag consume_bytes consume_fixed32 consume_fixed64
  append_tag pw_append_tag size_varint enc_single enc_repeated dec_single dec_repeated
  dur_split dur_join time_unix.
