(* The bridge between the decoder model's cursor primitives (ConsumeVarint, ConsumeTag,
   ConsumeFieldValue, nextField) and the reference tokenizer of Ref.v, for ARBITRARY input
   bytes - valid, non-minimal, truncated or garbage. *)
From Coq Require Import List ZArith Lia Bool Arith.
From Pico Require Import Base.Res Base.ListX Base.Mach Wire.Wire Schema.Types Schema.Scalar Ref.Ref
  Wire.VarintProofs Wire.WireProofs Dec.Dec Dec.ReaderProofs Dec.SafetyProofs Dec.LoopEquiv Dec.LoopInst.
Import ListNotations.
Open Scope Z_scope.

(* ---------------------------------------------------------------- varints *)
Lemma pow128 i : 0 <= i -> 2 ^ (7 * i) = 128 ^ i.
Proof. intros. rewrite Z.pow_mul_r by lia. reflexivity. Qed.

Lemma consume_parse_gen : forall n i acc b,
  bytes_ok b -> Z.of_nat n = 10 - i -> 0 <= i -> 0 <= acc < 128 ^ i ->
  match parse_varint n b (7 * i) acc with
  | Some (v, k) => consume_varint_from n i acc b = (v, i + Z.of_nat k) /\ (1 <= k <= length b)%nat /\ 0 <= v < 2 ^ 64
  | None => snd (consume_varint_from n i acc b) < 0
  end.
Proof.
  induction n as [|n IH]; intros i acc b Hb Hn Hi Hacc.
  - cbn. unfold errOverflow. lia.
  - destruct b as [|y b']; [cbn; unfold errTruncated; lia|].
    inversion Hb as [|? ? Hy Hb']; subst.
    assert (Hp : 0 < 128 ^ i) by (apply Z.pow_pos_nonneg; lia).
    cbn [parse_varint consume_varint_from]. rewrite shiftl_mul by lia. rewrite pow128 by lia.
    destruct (Z.eqb_spec i 9) as [->|Hne].
    + (* tenth byte *)
      assert (n = 0%nat) by lia. subst n. change (128 ^ 9) with (2 ^ 63) in *.
      destruct (Z.ltb_spec y 128) as [Hs|Hbig].
      * rewrite Z.mod_small by lia.
        destruct (Z.ltb_spec y 2) as [H2|H2].
        -- replace (acc + y * 2 ^ 63 <? 2 ^ 64) with true by (symmetry; apply Z.ltb_lt; lia).
           unfold u64, u. rewrite Z.mod_small by lia. cbn [length]. repeat split; try lia.
        -- replace (acc + y * 2 ^ 63 <? 2 ^ 64) with false by (symmetry; apply Z.ltb_ge; lia).
           cbn. unfold errOverflow. lia.
      * cbn [parse_varint]. replace (y <? 2) with false by (symmetry; apply Z.ltb_ge; lia).
        cbn. unfold errOverflow. lia.
    + assert (Hi9 : i < 9) by lia.
      assert (Hpow : 128 ^ (i + 1) <= 2 ^ 63).
      { change (2 ^ 63) with (128 ^ 9). apply Z.pow_le_mono_r; lia. }
      assert (Hpow' : 128 ^ (i + 1) = 128 * 128 ^ i) by (rewrite Z.pow_add_r by lia; change (128 ^ 1) with 128; lia).
      destruct (Z.ltb_spec y 128) as [Hs|Hbig].
      * rewrite Z.mod_small by lia.
        replace (acc + y * 128 ^ i <? 2 ^ 64) with true by (symmetry; apply Z.ltb_lt; nia).
        cbn [length]. repeat split; try lia. nia.
      * assert (Hm : y mod 128 = y - 128).
        { symmetry. apply Z.mod_unique with 1; lia. }
        rewrite Hm. rewrite shiftl_mul by lia.
        replace (7 * i + 7) with (7 * (i + 1)) by lia.
        replace (acc + y * 128 ^ i - 128 * 128 ^ i) with (acc + (y - 128) * 128 ^ i) by lia.
        specialize (IH (i + 1) (acc + (y - 128) * 128 ^ i) b' Hb' ltac:(lia) ltac:(lia) ltac:(nia)).
        destruct (parse_varint n b' (7 * (i + 1)) (acc + (y - 128) * 128 ^ i)) as [[v k]|].
        -- destruct IH as [E [Hk Hv]]. rewrite E. cbn [length]. repeat split; try lia. f_equal. lia.
        -- exact IH.
Qed.

(* ConsumeVarint and the specification's varint reader agree on every byte string *)
Theorem consume_varint_parse b : bytes_ok b ->
  match spec_parse_varint b with
  | Some (v, k) => consume_varint b = (v, Z.of_nat k) /\ (1 <= k <= length b)%nat /\ 0 <= v < 2 ^ 64
  | None => snd (consume_varint b) < 0
  end.
Proof.
  intros Hb. unfold spec_parse_varint, consume_varint.
  pose proof (consume_parse_gen 10 0 0 b Hb ltac:(reflexivity) ltac:(lia) ltac:(cbn; lia)) as H.
  change (7 * 0) with 0 in H.
  destruct (parse_varint 10 b 0 0) as [[v k]|]; [|exact H].
  destruct H as [E H]. rewrite E. split; [f_equal; lia|exact H].
Qed.

Lemma bytes_ok_skipn n b : bytes_ok b -> bytes_ok (skipn n b).
Proof. revert b; induction n as [|n IH]; intros [|y b] H; cbn; auto. inversion H; subst. apply IH; assumption. Qed.
Lemma bytes_ok_firstn n b : bytes_ok b -> bytes_ok (firstn n b).
Proof.
  revert b; induction n as [|n IH]; intros b H; [constructor|]. destruct b as [|y b]; [constructor|].
  inversion H; subst. cbn. constructor; [assumption|apply IH; assumption].
Qed.
Lemma bytes_ok_app a b : bytes_ok a -> bytes_ok b -> bytes_ok (a ++ b).
Proof. intros. apply Forall_app; split; assumption. Qed.

(* ---------------------------------------------------------------- ConsumeFieldValue *)
Section Group.
Variables (num depth : Z).
Fixpoint group_loop (gf : nat) (cur : bytes) (consumed : Z) : Z :=
  match gf with
  | O => errTruncated
  | S gf' =>
      let '(num2, typ2, n) := consume_tag cur in
      if n <? 0 then n else
      let cur1 := skipn (Z.to_nat n) cur in
      if typ2 =? EndGroupType then
        (if num =? num2 then consumed + n else errEndGroup)
      else
        let m := consume_field_value_d gf' num2 typ2 cur1 (depth - 1) in
        if m <? 0 then m else group_loop gf' (skipn (Z.to_nat m) cur1) (consumed + n + m)
  end.
End Group.

Lemma cfv_group f num b depth :
  consume_field_value_d (S f) num 3 b depth = if depth <? 0 then errRecursionDepth else group_loop num depth f b 0.
Proof. reflexivity. Qed.
Lemma cfv_varint f num b d : consume_field_value_d (S f) num 0 b d = snd (consume_varint b).
Proof. reflexivity. Qed.
Lemma cfv_fixed32 f num b d : consume_field_value_d (S f) num 5 b d = snd (consume_fixed32 b).
Proof. reflexivity. Qed.
Lemma cfv_fixed64 f num b d : consume_field_value_d (S f) num 1 b d = snd (consume_fixed64 b).
Proof. reflexivity. Qed.
Lemma cfv_bytes f num b d : consume_field_value_d (S f) num 2 b d = snd (consume_bytes b).
Proof. reflexivity. Qed.
Lemma cfv_other f num typ b d : typ <> 0 -> typ <> 1 -> typ <> 2 -> typ <> 3 -> typ <> 5 ->
  consume_field_value_d (S f) num typ b d < 0.
Proof.
  intros H0 H1 H2 H3 H5. cbn [consume_field_value_d].
  unfold VarintType, Fixed32Type, Fixed64Type, BytesType, StartGroupType, EndGroupType.
  destruct (Z.eqb_spec typ 0); [contradiction|]. destruct (Z.eqb_spec typ 5); [contradiction|].
  destruct (Z.eqb_spec typ 1); [contradiction|]. destruct (Z.eqb_spec typ 2); [contradiction|].
  destruct (Z.eqb_spec typ 3); [contradiction|].
  destruct (typ =? 4); [unfold errEndGroup|unfold errReserved]; lia.
Qed.

Lemma consume_fixed32_bounds b : snd (consume_fixed32 b) < 0 \/ snd (consume_fixed32 b) <= Z.of_nat (length b).
Proof. destruct b as [|b0 [|b1 [|b2 [|b3 b]]]]; cbn [consume_fixed32 snd length]; unfold errTruncated; lia. Qed.
Lemma consume_fixed64_bounds b : snd (consume_fixed64 b) < 0 \/ snd (consume_fixed64 b) <= Z.of_nat (length b).
Proof. destruct b as [|b0 [|b1 [|b2 [|b3 [|b4 [|b5 [|b6 [|b7 b]]]]]]]]; cbn [consume_fixed64 snd length]; unfold errTruncated; lia. Qed.

(* ConsumeFieldValue never reports more bytes than the input holds (groups included) *)
Theorem cfv_d_bound : forall fuel num typ b depth,
  consume_field_value_d fuel num typ b depth < 0 \/ 0 <= consume_field_value_d fuel num typ b depth <= Z.of_nat (length b).
Proof.
  induction fuel as [fuel IHf] using lt_wf_ind. intros num typ b depth.
  destruct fuel as [|f]; [left; cbn; unfold errTruncated; lia|].
  destruct (Z.eq_dec typ 0) as [->|N0].
  { rewrite cfv_varint. pose proof (consume_varint_bounds b) as H. destruct (consume_varint b) as [v n]. cbn [snd].
    unfold errTruncated, errOverflow in H. lia. }
  destruct (Z.eq_dec typ 5) as [->|N5].
  { rewrite cfv_fixed32. destruct b as [|b0 [|b1 [|b2 [|b3 b]]]]; cbn [consume_fixed32 snd length]; unfold errTruncated; lia. }
  destruct (Z.eq_dec typ 1) as [->|N1].
  { rewrite cfv_fixed64. destruct b as [|b0 [|b1 [|b2 [|b3 [|b4 [|b5 [|b6 [|b7 b]]]]]]]]; cbn [consume_fixed64 snd length]; unfold errTruncated; lia. }
  destruct (Z.eq_dec typ 2) as [->|N2].
  { rewrite cfv_bytes. pose proof (consume_bytes_bounds b) as H. destruct (consume_bytes b) as [p n]. cbn [snd].
    destruct (Z.ltb_spec n 0); lia. }
  destruct (Z.eq_dec typ 3) as [->|N3]; [|left; apply cfv_other; assumption].
  rewrite cfv_group. destruct (depth <? 0); [left; unfold errRecursionDepth; lia|].
  assert (G : forall gf, (gf <= f)%nat -> forall cur consumed, 0 <= consumed ->
             group_loop num depth gf cur consumed < 0 \/
             0 <= group_loop num depth gf cur consumed <= consumed + Z.of_nat (length cur)).
  { induction gf as [|gf IHg]; intros Hle cur consumed Hc; [left; cbn; unfold errTruncated; lia|].
    cbn [group_loop]. pose proof (consume_tag_bounds cur) as Ht. destruct (consume_tag cur) as [[num2 typ2] n].
    destruct (Z.ltb_spec n 0) as [Hn|Hn]; [left; exact Hn|]. destruct Ht as [Ht|Ht]; [lia|].
    destruct (typ2 =? EndGroupType).
    - destruct (num =? num2); [right; lia|left; unfold errEndGroup; lia].
    - pose proof (IHf gf ltac:(lia) num2 typ2 (skipn (Z.to_nat n) cur) (depth - 1)) as Hm.
      destruct (Z.ltb_spec (consume_field_value_d gf num2 typ2 (skipn (Z.to_nat n) cur) (depth - 1)) 0) as [Hneg|Hpos]; [left; exact Hneg|].
      destruct Hm as [Hm|Hm]; [lia|]. rewrite skipn_length in Hm.
      specialize (IHg ltac:(lia) (skipn (Z.to_nat (consume_field_value_d gf num2 typ2 (skipn (Z.to_nat n) cur) (depth - 1))) (skipn (Z.to_nat n) cur))
                      (consumed + n + consume_field_value_d gf num2 typ2 (skipn (Z.to_nat n) cur) (depth - 1)) ltac:(lia)).
      rewrite !skipn_length in IHg. destruct IHg as [IHg|IHg]; [left; exact IHg|right; lia]. }
  specialize (G f (le_n f) b 0 ltac:(lia)). lia.
Qed.

Corollary cfv_bound num typ b : consume_field_value num typ b < 0 \/ 0 <= consume_field_value num typ b <= Z.of_nat (length b).
Proof. apply cfv_d_bound. Qed.

Lemma has_len_z_0 l : has_len_z l 0 = true.
Proof. destruct l; reflexivity. Qed.

Lemma parse_value_other num wt rest : wt <> 0 -> wt <> 1 -> wt <> 2 -> wt <> 3 -> wt <> 5 -> parse_value num wt rest = None.
Proof.
  intros H0 H1 H2 H3 H5. destruct wt as [|p|p]; [congruence| |reflexivity].
  destruct p as [[[?|?|]|[?|?|]|]|[[?|?|]|[?|?|]|]|]; try reflexivity; congruence.
Qed.

(* what ConsumeFieldValue skips is exactly one value of the reference tokenizer, and it fails
   exactly when the tokenizer has no value there *)
Theorem cfv_parse_value num wt rest : bytes_ok rest ->
  match parse_value num wt rest with
  | Some (p, k) => consume_field_value num wt rest = Z.of_nat k /\ (k <= length rest)%nat
  | None => consume_field_value num wt rest < 0
  end.
Proof.
  intros Hb. unfold consume_field_value.
  destruct (Z.eq_dec wt 0) as [->|N0].
  { rewrite cfv_varint. cbn [parse_value]. pose proof (consume_varint_parse rest Hb) as H.
    destruct (spec_parse_varint rest) as [[v k]|]; [|exact H]. destruct H as [E [Hk _]]. rewrite E. cbn [snd]. split; [reflexivity|lia]. }
  destruct (Z.eq_dec wt 5) as [->|N5].
  { rewrite cfv_fixed32. cbn [parse_value].
    destruct rest as [|b0 [|b1 [|b2 [|b3 b]]]]; cbn; rewrite ?has_len_z_0; unfold errTruncated; lia. }
  destruct (Z.eq_dec wt 1) as [->|N1].
  { rewrite cfv_fixed64. cbn [parse_value].
    destruct rest as [|b0 [|b1 [|b2 [|b3 [|b4 [|b5 [|b6 [|b7 b]]]]]]]]; cbn; rewrite ?has_len_z_0; unfold errTruncated; lia. }
  destruct (Z.eq_dec wt 2) as [->|N2].
  { rewrite cfv_bytes. cbn [parse_value]. unfold consume_bytes. pose proof (consume_varint_parse rest Hb) as H.
    destruct (spec_parse_varint rest) as [[len k]|].
    - destruct H as [E [Hk Hv]]. rewrite E. replace (Z.of_nat k <? 0) with false by (symmetry; apply Z.ltb_ge; lia).
      rewrite Nat2Z.id. destruct (has_len_z (skipn k rest) len) eqn:Eh; cbn [negb snd].
      + rewrite has_len_z_spec in Eh. apply Z.leb_le in Eh. rewrite skipn_length in Eh. split; lia.
      + unfold errTruncated. lia.
    - destruct (consume_varint rest) as [m n]. cbn [snd] in H. replace (n <? 0) with true by (symmetry; apply Z.ltb_lt; lia). cbn. exact H. }
  destruct (Z.eq_dec wt 3) as [->|N3].
  { cbn [parse_value]. unfold consume_field_value.
    pose proof (cfv_d_bound (S (S (length rest + length rest))) num 3 rest DefaultRecursionLimit) as Hbd.
    destruct (Z.ltb_spec (consume_field_value_d (S (S (length rest + length rest))) num 3 rest DefaultRecursionLimit) 0) as [Hn|Hn]; [exact Hn|].
    split; lia. }
  rewrite parse_value_other by assumption. apply cfv_other; assumption.
Qed.

(* ---------------------------------------------------------------- nextField *)
Definition mkst (num wt : Z) (b : bytes) (e : option (Z * ecls)) : dstate := {| pf := num; pw := wt; buf := b; err := e |}.

Lemma decode_tag_div x : 0 <= x ->
  decode_tag x = if 2 ^ 31 - 1 <? x / 8 then (-1, 0) else (x / 8, x mod 8).
Proof.
  intros Hx. unfold decode_tag. rewrite Z.shiftr_div_pow2 by lia. change (2 ^ 3) with 8.
  change 7 with (Z.ones 3). rewrite Z.land_ones by lia. reflexivity.
Qed.

Lemma valid_num_number n : valid_num n = valid_number n.
Proof. reflexivity. Qed.

(* reading the next tag: the decoder accepts exactly the tags of the reference tokenizer *)
Theorem next_field_parse b pf0 pw0 e : bytes_ok b -> b <> [] ->
  match spec_parse_varint b with
  | Some (x, n) =>
      if valid_num (x / 8) then next_field 0 (mkst pf0 pw0 b e) = mkst (x / 8) (x mod 8) (skipn n b) e
      else err (next_field 0 (mkst pf0 pw0 b e)) <> None /\ pf (next_field 0 (mkst pf0 pw0 b e)) = fieldErrored
  | None => err (next_field 0 (mkst pf0 pw0 b e)) <> None /\ pf (next_field 0 (mkst pf0 pw0 b e)) = fieldErrored
  end.
Proof.
  intros Hb Hne. unfold next_field, mkst. cbn [buf pf pw err]. rewrite has_len_z_0. cbn [Z.ltb Z.compare orb negb Z.to_nat skipn].
  destruct b as [|y l]; [congruence|]. unfold consume_tag.
  pose proof (consume_varint_parse (y :: l) Hb) as H.
  destruct (spec_parse_varint (y :: l)) as [[x n]|].
  - destruct H as [E [Hn Hx]]. rewrite E.
    rewrite decode_tag_div by lia. unfold valid_num, valid_number, MaxValidNumber, errFieldNumber.
    set (q := x / 8). set (r := x mod 8). change (2 ^ 29 - 1) with 536870911. change (2 ^ 31 - 1) with 2147483647.
    assert (Hq : 0 <= q) by (apply Z.div_pos; lia).
    destruct (Z.ltb_spec (Z.of_nat n) 0) as [Hc|_]; [lia|].
    destruct (Z.ltb_spec 2147483647 q) as [Hbig|Hsm].
    + cbn [Z.ltb Z.compare]. destruct (Z.leb_spec 1 q) as [_|Hc]; [|lia]. destruct (Z.leb_spec q 536870911) as [Hc|_]; [lia|].
      cbn. split; [discriminate|reflexivity].
    + destruct (Z.ltb_spec q 1) as [H1|H1].
      * destruct (Z.leb_spec 1 q) as [Hc|_]; [lia|]. cbn. split; [discriminate|reflexivity].
      * destruct (Z.ltb_spec (Z.of_nat n) 0) as [Hc|_]; [lia|].
        destruct (Z.leb_spec 1 q) as [_|Hc]; [|lia]. cbn [andb].
        destruct (Z.leb_spec q 536870911) as [Hle|Hgt]; cbn [negb].
        -- rewrite Nat2Z.id. reflexivity.
        -- cbn. split; [discriminate|reflexivity].
  - destruct (consume_varint (y :: l)) as [v n]. cbn [snd] in H.
    destruct (Z.ltb_spec n 0) as [_|Hc]; [|lia]. cbn. destruct (Z.ltb_spec n 0) as [_|Hc]; [|lia].
    cbn. split; [discriminate|reflexivity].
Qed.

Lemma next_field_adv a st : 0 <= a <= Z.of_nat (length (buf st)) ->
  next_field a st = next_field 0 (mkst (pf st) (pw st) (skipn (Z.to_nat a) (buf st)) (err st)).
Proof.
  intros Ha. unfold next_field, mkst. cbn [buf pf pw err]. rewrite has_len_z_0.
  rewrite has_len_z_spec. replace (a <? 0) with false by (symmetry; apply Z.ltb_ge; lia).
  replace (a <=? Z.of_nat (length (buf st))) with true by (symmetry; apply Z.leb_le; lia).
  cbn [Z.ltb Z.compare orb negb Z.to_nat skipn]. reflexivity.
Qed.

Lemma next_field_done a st : 0 <= a <= Z.of_nat (length (buf st)) -> skipn (Z.to_nat a) (buf st) = [] ->
  next_field a st = mkst fieldDone (pw st) [] (err st).
Proof. intros Ha E. rewrite next_field_adv by exact Ha. rewrite E. reflexivity. Qed.

(* ---------------------------------------------------------------- token streams *)
Lemma skipn_add {A} (n k : nat) (l : list A) : skipn (n + k) l = skipn k (skipn n l).
Proof. revert l; induction n as [|n IH]; intros l; [reflexivity|]. destruct l; cbn [Nat.add skipn]; [destruct k; reflexivity|apply IH]. Qed.

Lemma tokenize_fuel : forall f1 f2 b, (length b < f1)%nat -> (length b < f2)%nat -> tokenize f1 b = tokenize f2 b.
Proof.
  induction f1 as [|f1 IH]; intros f2 b H1 H2; [lia|]. destruct f2 as [|f2]; [lia|].
  cbn [tokenize]. destruct b as [|y l]; [reflexivity|].
  destruct (parse_token (y :: l)) as [[t n]|]; [|reflexivity]. destruct n as [|n]; [reflexivity|].
  assert (Hl : (length (skipn (S n) (y :: l)) < length (y :: l))%nat) by (rewrite skipn_length; cbn [length]; lia).
  rewrite (IH f2) by lia. reflexivity.
Qed.

Lemma tokens_nil : tokens [] = Some [].
Proof. reflexivity. Qed.

Lemma tokens_cons b : b <> [] ->
  tokens b = match parse_token b with
             | None => None
             | Some (t, n) => match n with
                              | O => None
                              | _ => match tokens (skipn n b) with Some ts => Some (t :: ts) | None => None end
                              end
             end.
Proof.
  intros Hne. unfold tokens at 1. cbn [tokenize]. destruct b as [|y l]; [congruence|].
  destruct (parse_token (y :: l)) as [[t n]|]; [|reflexivity]. destruct n as [|n]; [reflexivity|].
  unfold tokens. rewrite (tokenize_fuel (length (y :: l)) (S (length (skipn (S n) (y :: l))))); [reflexivity| |lia].
  rewrite skipn_length. cbn [length]. lia.
Qed.

(* the tokens still to be read from a cursor whose pending field is valid: the pending value, then the rest *)
Definition st_tokens (st : dstate) : option (list token) :=
  match parse_value (pf st) (pw st) (buf st) with
  | None => None
  | Some (p, k) =>
      match tokens (skipn k (buf st)) with
      | Some ts => Some ({| t_num := pf st; t_wt := pw st; t_pay := p; t_raw := firstn k (buf st) |} :: ts)
      | None => None
      end
  end.

(* entering a non-empty buffer: either the first tag is read and the cursor's stream is the
   buffer's token list, or the decoder fails and the buffer does not tokenize *)
Theorem tokens_enter b pf0 pw0 e : bytes_ok b -> b <> [] ->
  let st := next_field 0 (mkst pf0 pw0 b e) in
  (pfv st = true /\ err st = e /\ st_tokens st = tokens b /\ (length (buf st) < length b)%nat /\ bytes_ok (buf st)) \/
  (err st <> None /\ pf st = fieldErrored /\ tokens b = None).
Proof.
  intros Hb Hne st. subst st. pose proof (next_field_parse b pf0 pw0 e Hb Hne) as H.
  pose proof (consume_varint_parse b Hb) as Hv.
  rewrite (tokens_cons b Hne). unfold parse_token.
  destruct (spec_parse_varint b) as [[x n]|]; [|right; tauto].
  destruct Hv as [_ [Hn _]].
  destruct (valid_num (x / 8)) eqn:Ev; cbn [negb]; [|right; tauto].
  left. rewrite H. unfold pfv, mkst, st_tokens. cbn [pf pw buf err].
  split; [exact Ev|]. split; [reflexivity|]. split.
  - destruct (parse_value (x / 8) (x mod 8) (skipn n b)) as [[p k]|]; [|reflexivity].
    destruct (n + k)%nat eqn:En; [lia|]. rewrite <- En. rewrite skipn_add. reflexivity.
  - split; [rewrite skipn_length; lia|apply bytes_ok_skipn; exact Hb].
Qed.
