(* Instantiation of the abstract Loop theorem for the picobuf decoder model. *)
From Coq Require Import List ZArith Lia Bool Arith.
From Pico Require Import Base.Res Base.ListX Base.Mach Wire.Wire Schema.Types Schema.Scalar Ref.Ref
  Wire.VarintProofs Dec.Dec Dec.ReaderProofs Dec.SafetyProofs Dec.LoopEquiv.
Import ListNotations.
Open Scope Z_scope.

Definition pfv (st : dstate) : bool := valid_number (pf st).
Definition blen (st : dstate) : nat := length (buf st).
Definition skip (st : dstate) : dstate := next_field (consume_field_value (pf st) (pw st) (buf st)) st.

Lemma same_len_spec (a b : bytes) : same_len a b = Nat.eqb (length a) (length b).
Proof. revert b; induction a as [|x a IH]; intros [|y b]; cbn; auto. Qed.

Lemma pfv_fail f c st : pfv (fail f c st) = false.
Proof. reflexivity. Qed.

Lemma consume_tag_bounds b : let '(num, typ, n) := consume_tag b in n < 0 \/ (1 <= n <= Z.of_nat (length b)).
Proof.
  unfold consume_tag. pose proof (consume_varint_bounds b) as Hb. destruct (consume_varint b) as [v n].
  destruct (Z.ltb_spec n 0); [left; assumption|]. destruct (decode_tag v) as [num typ].
  destruct (num <? 1); [left; unfold errFieldNumber; lia|].
  destruct Hb as [Hb|[Hb|Hb]]; [unfold errTruncated in Hb; lia|unfold errOverflow in Hb; lia|right; lia].
Qed.

(* every cursor move makes progress or invalidates the pending field *)
Lemma next_field_progress a st : (blen (next_field a st) < blen st)%nat \/ (pfv (next_field a st) = false /\ (blen (next_field a st) <= blen st)%nat).
Proof.
  unfold next_field. rewrite not_has_len_z.
  destruct (Z.ltb_spec a 0) as [Ha|Ha]; cbn [orb]; [right; split; [reflexivity|unfold blen; cbn; lia]|].
  destruct (Z.ltb_spec (Z.of_nat (length (buf st))) a) as [Hl|Hl]; [right; split; [reflexivity|unfold blen; cbn; lia]|].
  assert (Hsk : (length (skipn (Z.to_nat a) (buf st)) <= length (buf st))%nat) by (rewrite skipn_length; lia).
  destruct (skipn (Z.to_nat a) (buf st)) as [|y l] eqn:E.
  - right. split; [reflexivity|unfold blen; cbn; lia].
  - pose proof (consume_tag_bounds (y :: l)) as Hb. destruct (consume_tag (y :: l)) as [[num typ] n].
    destruct (Z.ltb_spec n 0); [right; split; [reflexivity|unfold blen; cbn [buf fail]; lia]|].
    destruct (valid_number num) eqn:Ev; cbn [negb]; [|right; split; [reflexivity|unfold blen; cbn [buf fail]; lia]].
    left. unfold blen. cbn [buf]. rewrite skipn_length.
    destruct Hb as [Hb|Hb]; [lia|]. cbn [length] in *. lia.
Qed.

Lemma skip_progress st : pfv st = true -> (blen (skip st) < blen st)%nat \/ pfv (skip st) = false.
Proof. intros _. unfold skip. destruct (next_field_progress (consume_field_value (pf st) (pw st) (buf st)) st) as [H|[H _]]; auto. Qed.

(* Dec.loop over a pass of readers is the abstract loop *)
Section Inst.
Context {T : Type}.
Variable readers : list (reader T dstate).

Lemma loop_is_abstract fuel : forall st t,
  Dec.loop fuel (fun st t => pass_list T dstate readers st t) st t =
  LoopEquiv.loop T dstate pfv blen skip readers fuel st t.
Proof.
  induction fuel as [|f IH]; intros st t; [reflexivity|].
  cbn [Dec.loop LoopEquiv.loop]. destruct (pass_list T dstate readers st t) as [st1 t1].
  unfold pfv at 1. destruct (negb (valid_number (pf st1))); [reflexivity|].
  rewrite same_len_spec. unfold blen. destruct (Nat.eqb (length (buf st1)) (length (buf st))); apply IH.
Qed.
End Inst.

(* --- single typed readers (all 15 kinds, and enum fields) satisfy the reader contracts --- *)
Definition scalar_reader (k : kind) (num : Z) (slot : nat) : reader (list val) dstate :=
  {| rmatch := fun st => pf st =? num;
     rrun := fun st fs => let '(st', x) := dec_single k num st (nth slot fs (VInt 0)) in (st', set_nth fs slot x) |}.

Lemma set_nth_same {A} (l : list A) i d : set_nth l i (nth i l d) = l.
Proof. revert i; induction l as [|x l IH]; intros [|i]; cbn; auto. f_equal. apply IH. Qed.

Lemma scalar_reader_nomatch k num slot st fs : rmatch _ _ (scalar_reader k num slot) st = false ->
  rrun _ _ (scalar_reader k num slot) st fs = (st, fs).
Proof.
  cbn. intros H. rewrite dec_single_other by (apply Z.eqb_neq in H; congruence).
  rewrite set_nth_same. reflexivity.
Qed.

Lemma scalar_reader_valid k num slot st : valid_number num = true -> rmatch _ _ (scalar_reader k num slot) st = true -> pfv st = true.
Proof. cbn. intros Hv H. apply Z.eqb_eq in H. unfold pfv. rewrite H. exact Hv. Qed.

Lemma scalar_reader_progress k num slot st fs : rmatch _ _ (scalar_reader k num slot) st = true ->
  let '(st', _) := rrun _ _ (scalar_reader k num slot) st fs in
  (blen st' < blen st)%nat \/ (pfv st' = false /\ (blen st' <= blen st)%nat).
Proof.
  cbn. intros H. apply Z.eqb_eq in H. unfold dec_single. rewrite H, Z.eqb_refl. cbn [negb].
  destruct (pw st =? wire_of k); cbn [negb]; [|right; split; [reflexivity|unfold blen; cbn; lia]].
  destruct (dec_payload k (buf st)) as [x n].
  destruct (n <? 0); [right; split; [reflexivity|unfold blen; cbn; lia]|].
  apply next_field_progress.
Qed.

(* a flat message: singular scalar/enum fields with pairwise distinct valid numbers *)
Definition flat_readers (fields : list (kind * Z * nat)) : list (reader (list val) dstate) :=
  map (fun f => scalar_reader (fst (fst f)) (snd (fst f)) (snd f)) fields.

Theorem flat_loop_is_single_pass fields st fs n n' :
  NoDup (map (fun f => snd (fst f)) fields) ->
  Forall (fun f => valid_number (snd (fst f)) = true) fields ->
  (blen st + 3 <= n)%nat -> (blen st + 2 <= n')%nat ->
  Dec.loop n (fun st t => pass_list _ _ (flat_readers fields) st t) st fs =
  loop1 _ _ pfv skip (flat_readers fields) n' st fs.
Proof.
  intros Hnd Hval Hn Hn'. rewrite loop_is_abstract.
  apply (loop_equiv _ _ pfv blen skip (flat_readers fields) (fun _ => True)); try assumption; try exact I; try (intros; exact I).
  - (* match_valid *)
    intros r st0 Hr _ Hm. unfold flat_readers in Hr. apply in_map_iff in Hr. destruct Hr as [f [<- Hf]].
    rewrite Forall_forall in Hval. exact (scalar_reader_valid _ _ _ st0 (Hval f Hf) Hm).
  - (* nomatch_id *)
    intros r st0 t0 Hr _ Hm. unfold flat_readers in Hr. apply in_map_iff in Hr. destruct Hr as [f [<- Hf]].
    apply scalar_reader_nomatch. exact Hm.
  - (* match_progress *)
    intros r st0 t0 Hr _ Hm. unfold flat_readers in Hr. apply in_map_iff in Hr. destruct Hr as [f [<- Hf]].
    apply scalar_reader_progress. exact Hm.
  - (* disjoint *)
    intros i j ri rj st0 _ Hi Hj Hmi Hmj. unfold flat_readers in Hi, Hj.
    rewrite nth_error_map in Hi, Hj.
    destruct (nth_error fields i) as [fi|] eqn:Ei; [|discriminate Hi].
    destruct (nth_error fields j) as [fj|] eqn:Ej; [|discriminate Hj].
    injection Hi as <-. injection Hj as <-. cbn in Hmi, Hmj.
    apply Z.eqb_eq in Hmi. apply Z.eqb_eq in Hmj.
    assert (E : nth_error (map (fun f => snd (fst f)) fields) i = nth_error (map (fun f => snd (fst f)) fields) j).
    { rewrite !nth_error_map, Ei, Ej. cbn. congruence. }
    apply (proj1 (NoDup_nth_error _) Hnd); [|exact E].
    apply nth_error_Some. rewrite nth_error_map, Ei. discriminate.
  - (* skip_progress *)
    intros st0 _. apply skip_progress.
Qed.
