(* Bounds of the wire readers (C04) and stickiness of errors (C05). *)
From Coq Require Import List ZArith Lia Bool Arith.
From Pico Require Import Base.Res Base.ListX Base.Mach Wire.Wire Schema.Types Schema.Scalar Ref.Ref
  Wire.VarintProofs Wire.WireProofs Dec.Dec Dec.ReaderProofs Enc.EncProofs.
Import ListNotations.
Open Scope Z_scope.

Definition bytes_ok (b : bytes) : Prop := Forall (fun y => 0 <= y < 256) b.

(* ConsumeVarint on ARBITRARY bytes: an error code, or 1..10 bytes inside the input *)
Lemma consume_varint_from_bounds : forall n i acc b v k,
  Z.of_nat n = 10 - i -> 0 <= i ->
  consume_varint_from n i acc b = (v, k) ->
  k = errTruncated \/ k = errOverflow \/ (i + 1 <= k <= 10 /\ k - i <= Z.of_nat (length b)).
Proof.
  induction n as [|n IH]; intros i acc b v k Hn Hi H.
  - cbn in H. injection H as _ <-. right; left; reflexivity.
  - destruct b as [|y b']; cbn [consume_varint_from] in H.
    + injection H as _ <-. left; reflexivity.
    + destruct (Z.eqb_spec i 9) as [->|Hne].
      * destruct (y <? 2); injection H as _ <-; [right; right; cbn [length]; lia|right; left; reflexivity].
      * destruct (y <? 128).
        -- injection H as _ <-. right; right. cbn [length]. lia.
        -- apply IH in H; [|lia|lia]. destruct H as [H|[H|H]]; [left; exact H|right; left; exact H|].
           right; right. cbn [length]. lia.
Qed.

Theorem consume_varint_bounds b : let '(v, n) := consume_varint b in
  n = errTruncated \/ n = errOverflow \/ (1 <= n <= 10 /\ n <= Z.of_nat (length b)).
Proof.
  destruct (consume_varint b) as [v n] eqn:E. unfold consume_varint in E.
  apply consume_varint_from_bounds in E; [|reflexivity|lia]. destruct E as [E|[E|E]]; auto. right; right. lia.
Qed.

(* ConsumeBytes never yields a slice outside the input *)
Theorem consume_bytes_bounds b : let '(p, n) := consume_bytes b in
  n < 0 \/ n <= Z.of_nat (length b).
Proof.
  unfold consume_bytes. pose proof (consume_varint_bounds b) as Hb.
  destruct (consume_varint b) as [m n].
  destruct (Z.ltb_spec n 0) as [Hn|Hn]; [left; exact Hn|].
  destruct Hb as [Hb|[Hb|Hb]]; [unfold errTruncated in Hb; lia|unfold errOverflow in Hb; lia|].
  rewrite not_has_len_z.
  destruct (Z.ltb_spec (Z.of_nat (length (skipn (Z.to_nat n) b))) m) as [Hm|Hm]; [left; unfold errTruncated; lia|].
  right. rewrite skipn_length in Hm. lia.
Qed.

(* dec.err, once set, is never cleared by the cursor operations *)
Lemma next_field_err_sticky n st : err st <> None -> err (next_field n st) <> None.
Proof.
  intros H. unfold next_field.
  destruct ((n <? 0) || negb (has_len_z (buf st) n)); [cbn; discriminate|].
  destruct (skipn (Z.to_nat n) (buf st)); [exact H|].
  destruct (consume_tag (z :: l)) as [[f w] k].
  destruct (k <? 0); [cbn; discriminate|].
  destruct (negb (valid_number f)); [cbn; discriminate|exact H].
Qed.

Lemma pop_state_err_sticky outer inner : err inner <> None -> err (pop_state outer inner) <> None.
Proof. intros H. exact H. Qed.

Lemma fail_sets_err f c st : err (fail f c st) <> None.
Proof. cbn. discriminate. Qed.

(* a canonical tag whose number is above 2^29-1 is rejected (no silent end of message) *)
Theorem next_field_invalid_number num wt rest pf0 pw0 e :
  2 ^ 29 - 1 < num <= 2 ^ 31 - 1 -> 0 <= wt < 8 ->
  err (next_field 0 {| pf := pf0; pw := pw0; buf := spec_tag num wt ++ rest; err := e |}) = Some (0, EFieldNum).
Proof.
  intros Hn Hw. change (2 ^ 29 - 1) with 536870911 in Hn. change (2 ^ 31 - 1) with 2147483647 in Hn.
  unfold next_field. rewrite not_has_len_z. cbn [buf pf pw err]. cbn [Z.ltb Z.compare orb].
  replace (Z.of_nat (length (spec_tag num wt ++ rest)) <? 0) with false by (symmetry; apply Z.ltb_ge; lia).
  cbn [orb Z.to_nat skipn].
  destruct (spec_tag num wt ++ rest) as [|y t] eqn:E.
  { exfalso. apply app_eq_nil in E. destruct E as [E _]. unfold spec_tag in E. exact (spec_varint_nonempty _ E). }
  rewrite <- E. rewrite consume_tag_spec by (change (2 ^ 31 - 1) with 2147483647; lia).
  replace (Z.of_nat (length (spec_tag num wt)) <? 0) with false by (symmetry; apply Z.ltb_ge; lia).
  replace (valid_number num) with false; [reflexivity|].
  symmetry. unfold valid_number, MaxValidNumber. change (2 ^ 29 - 1) with 536870911.
  apply andb_false_iff. right. apply Z.leb_gt. lia.
Qed.

(* a truncated input (cut inside a varint) is rejected by the tag reader *)
Theorem next_field_truncated_tag pf0 pw0 e y :
  128 <= y < 256 ->
  err (next_field 0 {| pf := pf0; pw := pw0; buf := [y]; err := e |}) = Some (0, ETag).
Proof.
  intros Hy. unfold next_field. rewrite not_has_len_z. cbn [buf pf pw err length]. cbn [Z.ltb Z.compare orb Z.of_nat Z.to_nat skipn].
  unfold consume_tag, consume_varint. cbn [consume_varint_from].
  replace (0 =? 9) with false by reflexivity.
  replace (y <? 128) with false by (symmetry; apply Z.ltb_ge; lia).
  cbn. reflexivity.
Qed.
