(* Tokens of a concatenation: a tokenizable prefix followed by more input tokenizes to the
   prefix's tokens followed by the rest's. *)
From Coq Require Import List ZArith Lia Bool Arith.
From Pico Require Import Base.Res Base.ListX Base.Mach Wire.Wire Schema.Types Schema.Scalar Ref.Ref
  Wire.VarintProofs Dec.Dec Dec.ReaderProofs Dec.SafetyProofs Dec.LoopEquiv Dec.LoopInst Dec.TokenBridge.
Import ListNotations.
Open Scope Z_scope.

Lemma parse_varint_app ext : forall fuel b shift acc v k,
  parse_varint fuel b shift acc = Some (v, k) -> parse_varint fuel (b ++ ext) shift acc = Some (v, k) /\ (k <= length b)%nat.
Proof.
  induction fuel as [|fuel IH]; intros b shift acc v k H; [discriminate H|].
  destruct b as [|y b]; [discriminate H|]. cbn [parse_varint app] in *.
  destruct (y <? 128).
  - destruct (acc + y mod 128 * 2 ^ shift <? 2 ^ 64); [|discriminate H]. injection H as <- <-. split; [reflexivity|cbn; lia].
  - destruct (parse_varint fuel b (shift + 7) (acc + y mod 128 * 2 ^ shift)) as [[v0 n0]|] eqn:E; [|discriminate H].
    injection H as <- <-. destruct (IH _ _ _ _ _ E) as [E' Hl]. rewrite E'. split; [reflexivity|cbn; lia].
Qed.
Lemma spec_parse_varint_app b ext v k : spec_parse_varint b = Some (v, k) ->
  spec_parse_varint (b ++ ext) = Some (v, k) /\ (k <= length b)%nat.
Proof. apply parse_varint_app. Qed.

Lemma has_len_z_app l ext m : has_len_z l m = true -> has_len_z (l ++ ext) m = true.
Proof.
  rewrite !has_len_z_spec. intros H. apply Z.leb_le in H. apply Z.leb_le. rewrite app_length. lia.
Qed.
Lemma firstn_app_le {A} n (l ext : list A) : (n <= length l)%nat -> firstn n (l ++ ext) = firstn n l.
Proof. intros H. rewrite firstn_app. replace (n - length l)%nat with 0%nat by lia. cbn. apply app_nil_r. Qed.
Lemma skipn_app_le {A} n (l ext : list A) : (n <= length l)%nat -> skipn n (l ++ ext) = skipn n l ++ ext.
Proof. intros H. rewrite skipn_app. replace (n - length l)%nat with 0%nat by lia. reflexivity. Qed.

(* the model's wire readers on an extended buffer *)
Lemma consume_varint_app b ext : bytes_ok b -> 0 <= snd (consume_varint b) -> consume_varint (b ++ ext) = consume_varint b.
Proof.
  intros Hb Hn. unfold consume_varint in *.
  assert (G : forall fuel i acc b0, 0 <= snd (consume_varint_from fuel i acc b0) -> consume_varint_from fuel i acc (b0 ++ ext) = consume_varint_from fuel i acc b0).
  { induction fuel as [|fuel IH]; intros i acc b0 H; [reflexivity|]. destruct b0 as [|y b0]; [cbn in H; unfold errTruncated in H; lia|].
    cbn [consume_varint_from app] in *. destruct (i =? 9); [reflexivity|]. destruct (y <? 128); [reflexivity|]. apply IH. exact H. }
  apply G. exact Hn.
Qed.
Lemma consume_tag_app b ext : bytes_ok b -> 0 <= snd (consume_tag b) -> consume_tag (b ++ ext) = consume_tag b.
Proof.
  intros Hb Hn. unfold consume_tag in *. destruct (consume_varint b) as [v n] eqn:E.
  destruct (Z.ltb_spec n 0) as [Hneg|Hpos]; [cbn in Hn; lia|].
  rewrite consume_varint_app by (try assumption; rewrite E; exact Hpos). rewrite E.
  replace (n <? 0) with false by (symmetry; apply Z.ltb_ge; lia). reflexivity.
Qed.
Lemma consume_fixed32_app b ext : 0 <= snd (consume_fixed32 b) -> consume_fixed32 (b ++ ext) = consume_fixed32 b.
Proof. destruct b as [|b0 [|b1 [|b2 [|b3 b]]]]; cbn; unfold errTruncated; try lia. reflexivity. Qed.
Lemma consume_fixed64_app b ext : 0 <= snd (consume_fixed64 b) -> consume_fixed64 (b ++ ext) = consume_fixed64 b.
Proof. destruct b as [|b0 [|b1 [|b2 [|b3 [|b4 [|b5 [|b6 [|b7 b]]]]]]]]; cbn; unfold errTruncated; try lia. reflexivity. Qed.
Lemma consume_bytes_app b ext : bytes_ok b -> 0 <= snd (consume_bytes b) -> consume_bytes (b ++ ext) = consume_bytes b.
Proof.
  intros Hb Hn. unfold consume_bytes in *. pose proof (consume_varint_bounds b) as Hbd. destruct (consume_varint b) as [m n] eqn:E.
  destruct (Z.ltb_spec n 0) as [Hneg|Hpos]; [cbn in Hn; lia|].
  rewrite consume_varint_app by (try assumption; rewrite E; exact Hpos). rewrite E.
  replace (n <? 0) with false by (symmetry; apply Z.ltb_ge; lia).
  destruct Hbd as [Hbd|[Hbd|Hbd]]; [unfold errTruncated in Hbd; lia|unfold errOverflow in Hbd; lia|].
  rewrite skipn_app_le by lia.
  destruct (has_len_z (skipn (Z.to_nat n) b) m) eqn:Eh; cbn [negb] in *; [|cbn in Hn; unfold errTruncated in Hn; lia].
  rewrite (has_len_z_app _ ext _ Eh). cbn [negb]. rewrite has_len_z_spec in Eh. apply Z.leb_le in Eh.
  rewrite firstn_app_le by lia. reflexivity.
Qed.

(* ConsumeFieldValue: more fuel and a longer buffer change nothing once it succeeded *)
Theorem cfv_d_app ext : forall fuel1 fuel2 num typ b depth, bytes_ok b -> (fuel1 <= fuel2)%nat ->
  0 <= consume_field_value_d fuel1 num typ b depth ->
  consume_field_value_d fuel2 num typ (b ++ ext) depth = consume_field_value_d fuel1 num typ b depth.
Proof.
  induction fuel1 as [fuel1 IHf] using lt_wf_ind. intros fuel2 num typ b depth Hb Hle Hpos.
  destruct fuel1 as [|f1]; [cbn in Hpos; unfold errTruncated in Hpos; lia|]. destruct fuel2 as [|f2]; [lia|].
  destruct (Z.eq_dec typ 0) as [->|N0].
  { rewrite !cfv_varint in *. rewrite consume_varint_app; [reflexivity|exact Hb|exact Hpos]. }
  destruct (Z.eq_dec typ 5) as [->|N5].
  { rewrite !cfv_fixed32 in *. rewrite consume_fixed32_app; [reflexivity|exact Hpos]. }
  destruct (Z.eq_dec typ 1) as [->|N1].
  { rewrite !cfv_fixed64 in *. rewrite consume_fixed64_app; [reflexivity|exact Hpos]. }
  destruct (Z.eq_dec typ 2) as [->|N2].
  { rewrite !cfv_bytes in *. rewrite consume_bytes_app; [reflexivity|exact Hb|exact Hpos]. }
  destruct (Z.eq_dec typ 3) as [->|N3]; [|pose proof (cfv_other f1 num typ b depth N0 N1 N2 N3 N5); lia].
  rewrite !cfv_group in *. destruct (depth <? 0); [reflexivity|].
  assert (G : forall g1 g2, (g1 <= f1)%nat -> (g1 <= g2)%nat -> forall cur consumed, bytes_ok cur ->
             0 <= group_loop num depth g1 cur consumed ->
             group_loop num depth g2 (cur ++ ext) consumed = group_loop num depth g1 cur consumed).
  { induction g1 as [|g1 IHg]; intros g2 Hg1 Hg12 cur consumed Hbc Hp; [cbn in Hp; unfold errTruncated in Hp; lia|].
    destruct g2 as [|g2]; [lia|]. cbn [group_loop] in *.
    pose proof (consume_tag_bounds cur) as Htb.
    destruct (consume_tag cur) as [[num2 typ2] n] eqn:Et.
    destruct (Z.ltb_spec n 0) as [Hneg|Hnn]; [lia|].
    rewrite consume_tag_app by (try assumption; rewrite Et; exact Hnn). rewrite Et.
    replace (n <? 0) with false by (symmetry; apply Z.ltb_ge; lia).
    destruct Htb as [Htb|Htb]; [lia|].
    destruct (typ2 =? EndGroupType); [reflexivity|].
    rewrite skipn_app_le by lia.
    set (cur1 := skipn (Z.to_nat n) cur) in *.
    assert (Hb1 : bytes_ok cur1) by (apply bytes_ok_skipn; exact Hbc).
    destruct (Z.ltb_spec (consume_field_value_d g1 num2 typ2 cur1 (depth - 1)) 0) as [Hm|Hm]; [lia|].
    rewrite (IHf g1 ltac:(lia) g2 num2 typ2 cur1 (depth - 1) Hb1 ltac:(lia) Hm).
    replace (consume_field_value_d g1 num2 typ2 cur1 (depth - 1) <? 0) with false by (symmetry; apply Z.ltb_ge; lia).
    pose proof (cfv_d_bound g1 num2 typ2 cur1 (depth - 1)) as Hbd. destruct Hbd as [Hbd|Hbd]; [lia|].
    rewrite skipn_app_le by lia.
    apply IHg; [lia|lia|apply bytes_ok_skipn; exact Hb1|exact Hp]. }
  apply G; [lia|lia|exact Hb|exact Hpos].
Qed.

Lemma cfv_app num typ b ext : bytes_ok b -> 0 <= consume_field_value num typ b ->
  consume_field_value num typ (b ++ ext) = consume_field_value num typ b.
Proof.
  intros Hb Hp. unfold consume_field_value in *. apply cfv_d_app; [exact Hb| |exact Hp]. rewrite app_length. lia.
Qed.

Lemma parse_value_app num wt rest ext p k : bytes_ok rest -> parse_value num wt rest = Some (p, k) ->
  parse_value num wt (rest ++ ext) = Some (p, k) /\ (k <= length rest)%nat.
Proof.
  intros Hb E. pose proof (cfv_parse_value num wt rest Hb) as Hk. rewrite E in Hk. destruct Hk as [Hc Hk]. split; [|exact Hk].
  destruct (Z.eq_dec wt 0) as [->|N0].
  { cbn [parse_value] in *. destruct (spec_parse_varint rest) as [[v kk]|] eqn:Ev; [|discriminate E].
    destruct (spec_parse_varint_app rest ext v kk Ev) as [-> _]. exact E. }
  destruct (Z.eq_dec wt 5) as [->|N5].
  { cbn [parse_value] in *. destruct (has_len_z rest 4) eqn:Eh; [|discriminate E]. rewrite (has_len_z_app _ ext _ Eh).
    rewrite has_len_z_spec in Eh. apply Z.leb_le in Eh. rewrite firstn_app_le by lia. exact E. }
  destruct (Z.eq_dec wt 1) as [->|N1].
  { cbn [parse_value] in *. destruct (has_len_z rest 8) eqn:Eh; [|discriminate E]. rewrite (has_len_z_app _ ext _ Eh).
    rewrite has_len_z_spec in Eh. apply Z.leb_le in Eh. rewrite firstn_app_le by lia. exact E. }
  destruct (Z.eq_dec wt 2) as [->|N2].
  { cbn [parse_value] in *. destruct (spec_parse_varint rest) as [[len kk]|] eqn:Ev; [|discriminate E].
    destruct (spec_parse_varint_app rest ext len kk Ev) as [-> Hkk].
    destruct (has_len_z (skipn kk rest) len) eqn:Eh; cbn [negb] in *; [|discriminate E].
    rewrite skipn_app_le by exact Hkk. rewrite (has_len_z_app _ ext _ Eh). cbn [negb].
    rewrite has_len_z_spec in Eh. apply Z.leb_le in Eh.
    pose proof (consume_varint_parse rest Hb) as Hcv. rewrite Ev in Hcv. destruct Hcv as [_ [_ Hlen]].
    rewrite firstn_app_le by lia. exact E. }
  destruct (Z.eq_dec wt 3) as [->|N3].
  { cbn [parse_value] in *. destruct (Z.ltb_spec (consume_field_value num 3 rest) 0) as [Hneg|Hpos]; [discriminate E|].
    rewrite (cfv_app num 3 rest ext Hb Hpos). replace (consume_field_value num 3 rest <? 0) with false by (symmetry; apply Z.ltb_ge; lia). exact E. }
  rewrite parse_value_other in E by assumption. discriminate E.
Qed.

Lemma parse_token_app b ext t n : bytes_ok b -> parse_token b = Some (t, n) ->
  parse_token (b ++ ext) = Some (t, n) /\ (n <= length b)%nat.
Proof.
  intros Hb E. unfold parse_token in *.
  destruct (spec_parse_varint b) as [[x k]|] eqn:Ev; [|discriminate E].
  destruct (spec_parse_varint_app b ext x k Ev) as [-> Hk].
  destruct (negb (valid_num (x / 8))); [discriminate E|].
  destruct (parse_value (x / 8) (x mod 8) (skipn k b)) as [[p kk]|] eqn:Ep; [|discriminate E].
  rewrite skipn_app_le by exact Hk.
  destruct (parse_value_app _ _ _ ext _ _ (bytes_ok_skipn k b Hb) Ep) as [-> Hkk]. rewrite skipn_length in Hkk.
  rewrite firstn_app_le by (rewrite skipn_length; lia). injection E as <- <-. split; [reflexivity|lia].
Qed.

(* tokens of a concatenation *)
Theorem tokens_app a b ta : bytes_ok a -> tokens a = Some ta ->
  tokens (a ++ b) = match tokens b with Some tb => Some (ta ++ tb) | None => None end.
Proof.
  remember (length a) as n eqn:En. revert a ta En. induction n as [n IH] using lt_wf_ind. intros a ta En Ha Ht.
  destruct a as [|y l].
  - rewrite tokens_nil in Ht. injection Ht as <-. cbn [app]. destruct (tokens b); reflexivity.
  - rewrite tokens_cons in Ht by discriminate.
    destruct (parse_token (y :: l)) as [[t k]|] eqn:Ep; [|discriminate Ht].
    destruct k as [|k]; [discriminate Ht|].
    destruct (tokens (skipn (S k) (y :: l))) as [ts|] eqn:Es; [|discriminate Ht]. injection Ht as <-.
    destruct (parse_token_app (y :: l) b t (S k) Ha Ep) as [Ep' Hk].
    rewrite tokens_cons by discriminate. rewrite Ep'. rewrite skipn_app_le by exact Hk.
    rewrite (IH (length (skipn (S k) (y :: l))) ltac:(subst n; rewrite skipn_length; cbn [length]; lia) (skipn (S k) (y :: l)) ts eq_refl
               (bytes_ok_skipn _ _ Ha) Es).
    destruct (tokens b); reflexivity.
Qed.
