(* Reader contracts (C13 decoder side, C15): cursor over reference-encoded fields. *)
From Coq Require Import List ZArith Lia Bool Arith.
From Pico Require Import Base.Res Base.ListX Base.Mach Wire.Wire Schema.Types Schema.Scalar Ref.Ref
  Wire.VarintProofs Wire.WireProofs Wire.ZigZagProofs Wire.FixedProofs Schema.ScalarProofs Dec.Dec.
Import ListNotations.
Open Scope Z_scope.

Ltac Zify.zify_post_hook ::= Z.div_mod_to_equations.

Lemma decode_tag_spec num wt : 1 <= num <= 2 ^ 31 - 1 -> 0 <= wt < 8 -> decode_tag (num * 8 + wt) = (num, wt).
Proof.
  intros Hn Hw. unfold decode_tag. rewrite Z.shiftr_div_pow2 by lia. change (2 ^ 3) with 8.
  replace ((num * 8 + wt) / 8) with num by (change (2 ^ 31 - 1) with 2147483647 in Hn; lia).
  replace (2 ^ 31 - 1 <? num) with false by (symmetry; apply Z.ltb_ge; lia).
  f_equal. change 7 with (Z.ones 3). rewrite Z.land_ones by lia. change (2 ^ 3) with 8. lia.
Qed.

Lemma spec_tag_u64 num wt : 1 <= num <= 2 ^ 31 - 1 -> 0 <= wt < 8 -> u64_ok (num * 8 + wt).
Proof. intros. unfold u64_ok. change (2 ^ 31 - 1) with 2147483647 in *. change (2 ^ 64) with 18446744073709551616. lia. Qed.

Theorem consume_tag_spec num wt rest : 1 <= num <= 2 ^ 31 - 1 -> 0 <= wt < 8 ->
  consume_tag (spec_tag num wt ++ rest) = (num, wt, Z.of_nat (length (spec_tag num wt))).
Proof.
  intros Hn Hw. unfold consume_tag, spec_tag.
  rewrite consume_spec_varint by (apply spec_tag_u64; assumption).
  replace (Z.of_nat (length (spec_varint (num * 8 + wt))) <? 0) with false by (symmetry; apply Z.ltb_ge; lia).
  rewrite decode_tag_spec by assumption.
  replace (num <? 1) with false by (symmetry; apply Z.ltb_ge; lia). reflexivity.
Qed.

Lemma spec_varint_nonempty v : spec_varint v <> [].
Proof. unfold spec_varint. cbn [varint7]. destruct (v <? 128); discriminate. Qed.

(* nextField(0) on a buffer that starts with a reference tag *)
Theorem next_field_tag num wt rest pf0 pw0 e :
  valid_number num = true -> 0 <= wt < 8 ->
  next_field 0 {| pf := pf0; pw := pw0; buf := spec_tag num wt ++ rest; err := e |} =
  {| pf := num; pw := wt; buf := rest; err := e |}.
Proof.
  intros Hv Hw. unfold valid_number, MaxValidNumber in Hv. apply andb_true_iff in Hv. destruct Hv as [A B].
  apply Z.leb_le in A. apply Z.leb_le in B. change (2 ^ 29 - 1) with 536870911 in B.
  unfold next_field. rewrite not_has_len_z. cbn [buf pf pw err]. cbn [Z.ltb Z.compare orb].
  replace (Z.of_nat (length (spec_tag num wt ++ rest)) <? 0) with false by (symmetry; apply Z.ltb_ge; lia).
  cbn [orb Z.to_nat skipn].
  destruct (spec_tag num wt ++ rest) as [|y t] eqn:E.
  { exfalso. apply app_eq_nil in E. destruct E as [E _]. unfold spec_tag in E. exact (spec_varint_nonempty _ E). }
  rewrite <- E. rewrite consume_tag_spec by (change (2 ^ 31 - 1) with 2147483647; lia).
  replace (Z.of_nat (length (spec_tag num wt)) <? 0) with false by (symmetry; apply Z.ltb_ge; lia).
  assert (Hvn : valid_number num = true).
  { unfold valid_number, MaxValidNumber. change (2 ^ 29 - 1) with 536870911.
    apply andb_true_iff; split; apply Z.leb_le; lia. }
  rewrite Hvn. cbn [negb]. rewrite Nat2Z.id. rewrite skipn_app_l by reflexivity. reflexivity.
Qed.

(* nextField(n) after consuming an n-byte value *)
Lemma next_field_advance (p rest : bytes) pf0 pw0 e :
  next_field (Z.of_nat (length p)) {| pf := pf0; pw := pw0; buf := p ++ rest; err := e |} =
  next_field 0 {| pf := pf0; pw := pw0; buf := rest; err := e |}.
Proof.
  unfold next_field. rewrite !not_has_len_z. cbn [buf pf pw err].
  replace (Z.of_nat (length p) <? 0) with false by (symmetry; apply Z.ltb_ge; lia).
  rewrite app_length.
  replace (Z.of_nat (length p + length rest) <? Z.of_nat (length p)) with false by (symmetry; apply Z.ltb_ge; lia).
  replace (0 <? 0) with false by reflexivity.
  replace (Z.of_nat (length rest) <? 0) with false by (symmetry; apply Z.ltb_ge; lia).
  cbn [orb]. rewrite Nat2Z.id. rewrite skipn_app_l by reflexivity. reflexivity.
Qed.

(* --- C13 reader contract, single typed reader *)
(* (1) a different pending field: decoder and target untouched *)
Theorem dec_single_other k field st v : field <> pf st -> dec_single k field st v = (st, v).
Proof. intros H. unfold dec_single. replace (field =? pf st) with false by (symmetry; apply Z.eqb_neq; exact H). reflexivity. Qed.

(* (2) the pending field with a wrong wire type: sticky error naming the field, target untouched *)
Theorem dec_single_wrong_wire k field st v : field = pf st -> pw st <> wire_of k ->
  dec_single k field st v = (fail field EWire st, v).
Proof.
  intros H Hw. unfold dec_single. rewrite H, Z.eqb_refl. cbn [negb].
  replace (pw st =? wire_of k) with false by (symmetry; apply Z.eqb_neq; exact Hw). reflexivity.
Qed.

(* (3) the pending field, reference-encoded: exactly that field is consumed and the value read back *)
Theorem dec_single_value k field v v0 rest e :
  scalar_ok k v = true ->
  dec_single k field {| pf := field; pw := wire_of k; buf := enc_payload k v ++ rest; err := e |} v0 =
  (next_field 0 {| pf := field; pw := wire_of k; buf := rest; err := e |}, v).
Proof.
  intros Hok. unfold dec_single. cbn [pf pw buf]. rewrite !Z.eqb_refl. cbn [negb].
  rewrite dec_enc_payload by exact Hok.
  replace (Z.of_nat (length (enc_payload k v)) <? 0) with false by (symmetry; apply Z.ltb_ge; lia).
  rewrite next_field_advance. reflexivity.
Qed.

Lemma fail_sticky field c st : err (fail field c st) = Some (field, c) /\ pf (fail field c st) = fieldErrored.
Proof. split; reflexivity. Qed.
