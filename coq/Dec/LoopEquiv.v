(* The Loop theorem (abstract): picobuf's multi-pass Loop - run the whole Decode body, and if
   nothing was consumed skip one field - equals the obvious single-pass parser that looks at the
   pending field and dispatches to THE reader that matches it (or skips). It holds for any list
   of readers with pairwise disjoint match predicates satisfying the reader contracts. *)
From Coq Require Import List ZArith Lia Bool Arith Wf_nat.
Import ListNotations.

Section Loop.
Variable T : Type.
Variable dstate : Type.
Variable pfv : dstate -> bool.          (* valid (pf st) *)
Variable blen : dstate -> nat.          (* length (buf st) *)
Variable skip : dstate -> dstate.

Record reader := { rmatch : dstate -> bool; rrun : dstate -> T -> dstate * T }.
Variable readers : list reader.
(* an invariant of the cursor states that occur (e.g. "the pending field is a valid number, done or errored") *)
Variable Inv : dstate -> Prop.

(* contracts, on states satisfying the invariant *)
Hypothesis inv_run : forall r st t, In r readers -> Inv st -> Inv (fst (rrun r st t)).
Hypothesis inv_skip : forall st, Inv st -> Inv (skip st).
Hypothesis match_valid : forall r st, In r readers -> Inv st -> rmatch r st = true -> pfv st = true.
Hypothesis nomatch_id : forall r st t, In r readers -> Inv st -> rmatch r st = false -> rrun r st t = (st, t).
Hypothesis match_progress : forall r st t, In r readers -> Inv st -> rmatch r st = true ->
   let '(st', _) := rrun r st t in (blen st' < blen st) \/ (pfv st' = false /\ blen st' <= blen st).
Hypothesis disjoint : forall i j ri rj st, Inv st -> nth_error readers i = Some ri -> nth_error readers j = Some rj ->
   rmatch ri st = true -> rmatch rj st = true -> i = j.
Hypothesis skip_progress : forall st, Inv st -> pfv st = true -> blen (skip st) < blen st \/ pfv (skip st) = false.

Definition step (acc : dstate * T) (r : reader) := rrun r (fst acc) (snd acc).
Definition pass_list (rs : list reader) st t := fold_left step rs (st, t).

Fixpoint loop (fuel : nat) st t : dstate * T :=
  match fuel with
  | O => (st, t)
  | S f =>
    let '(st', t') := pass_list readers st t in
    if negb (pfv st') then (st', t') else
    if Nat.eqb (blen st') (blen st) then loop f (skip st') t' else loop f st' t'
  end.

Fixpoint loop1 (fuel : nat) st t : dstate * T :=
  match fuel with
  | O => (st, t)
  | S f =>
    if negb (pfv st) then (st, t) else
    match find (fun r => rmatch r st) readers with
    | Some r => let '(st', t') := rrun r st t in loop1 f st' t'
    | None => loop1 f (skip st) t
    end
  end.

(* finishing a pass from suffix rs, having started the pass at a state with length l0 *)
Definition finish (n : nat) (rs : list reader) (prog : bool) st t :=
  let '(st2, t2) := pass_list rs st t in
  if negb (pfv st2) then (st2, t2) else
  if negb prog && Nat.eqb (blen st2) (blen st) then loop n (skip st2) t2 else loop n st2 t2.

Lemma loop_finish n st t : loop (S n) st t = finish n readers false st t.
Proof. unfold finish. cbn [loop]. destruct (pass_list readers st t). reflexivity. Qed.

Lemma pass_invalid rs st t : (forall r, In r rs -> In r readers) -> Inv st -> pfv st = false -> pass_list rs st t = (st, t).
Proof.
  revert st t. induction rs as [|r rs IH]; intros st t Hin Hi Hv; [reflexivity|].
  unfold pass_list. cbn [fold_left]. unfold step at 2. cbn [fst snd].
  rewrite nomatch_id.
  - apply IH; [intros; apply Hin; now right | exact Hi | exact Hv].
  - apply Hin; now left.
  - exact Hi.
  - destruct (rmatch r st) eqn:E; [|reflexivity]. apply match_valid in E; [congruence| apply Hin; now left|exact Hi].
Qed.

Lemma pass_inv rs : (forall r, In r rs -> In r readers) -> forall st t, Inv st -> Inv (fst (pass_list rs st t)).
Proof.
  induction rs as [|r rs IH]; intros Hin st t Hi; [exact Hi|].
  unfold pass_list. cbn [fold_left]. unfold step at 2. cbn [fst snd].
  pose proof (inv_run r st t (Hin r (or_introl eq_refl)) Hi) as H1.
  destruct (rrun r st t) as [st1 t1]. apply (IH (fun r0 H => Hin r0 (or_intror H)) st1 t1 H1).
Qed.

Lemma pass_mono rs : (forall r, In r rs -> In r readers) -> forall st t, Inv st -> blen (fst (pass_list rs st t)) <= blen st.
Proof.
  induction rs as [|r rs IH]; intros Hin st t Hi; [cbn; lia|].
  unfold pass_list. cbn [fold_left]. unfold step at 2. cbn [fst snd].
  destruct (rmatch r st) eqn:E.
  - pose proof (match_progress r st t (Hin r (or_introl eq_refl)) Hi E) as Hp.
    pose proof (inv_run r st t (Hin r (or_introl eq_refl)) Hi) as H1.
    destruct (rrun r st t) as [st1 t1].
    specialize (IH (fun r0 H => Hin r0 (or_intror H)) st1 t1 H1). unfold pass_list in IH. lia.
  - rewrite nomatch_id by (auto; apply Hin; now left).
    apply IH; [intros; apply Hin; now right|exact Hi].
Qed.

Lemma loop_invalid n st t : Inv st -> pfv st = false -> loop n st t = (st, t).
Proof.
  destruct n; [reflexivity|]. intros Hi Hv. cbn [loop].
  rewrite pass_invalid by auto. rewrite Hv. reflexivity.
Qed.

Lemma loop1_invalid n st t : pfv st = false -> loop1 n st t = (st, t).
Proof. destruct n; [reflexivity|]. intros Hv. cbn [loop1]. rewrite Hv. reflexivity. Qed.

Lemma find_skip_pre (f : reader -> bool) pre l :
  (forall p, In p pre -> f p = false) -> find f (pre ++ l) = find f l.
Proof.
  induction pre as [|p pre IH]; intros Hp; cbn; [reflexivity|].
  rewrite Hp by now left. apply IH. intros; apply Hp; now right.
Qed.

Lemma find_all_false (f : reader -> bool) l : (forall p, In p l -> f p = false) -> find f l = None.
Proof.
  induction l as [|p l IH]; intros Hp; cbn; [reflexivity|].
  rewrite Hp by now left. apply IH. intros; apply Hp; now right.
Qed.

Lemma find_none_suffix pre rs st :
  readers = pre ++ rs -> (forall r, In r pre -> rmatch r st = false) -> (forall r, In r rs -> rmatch r st = false) ->
  find (fun r => rmatch r st) readers = None.
Proof.
  intros Heq Hp Hs. rewrite Heq. apply find_all_false. intros p Hin.
  apply in_app_or in Hin. destruct Hin; auto.
Qed.

Lemma find_at pre r rs st : Inv st ->
  readers = pre ++ r :: rs -> rmatch r st = true -> find (fun r => rmatch r st) readers = Some r.
Proof.
  intros Hinv Heq Hm.
  assert (Hpre: forall p, In p pre -> rmatch p st = false).
  { intros p Hp. destruct (rmatch p st) eqn:E; [|reflexivity]. exfalso.
    apply In_nth_error in Hp. destruct Hp as [i Hi].
    assert (Hlt: i < length pre) by (apply nth_error_Some; congruence).
    assert (Hi': nth_error readers i = Some p).
    { rewrite Heq. rewrite nth_error_app1; [exact Hi|exact Hlt]. }
    assert (Hj: nth_error readers (length pre) = Some r).
    { rewrite Heq. rewrite nth_error_app2 by lia. rewrite Nat.sub_diag. reflexivity. }
    pose proof (disjoint _ _ _ _ _ Hinv Hi' Hj E Hm) as Hij. lia. }
  rewrite Heq. rewrite find_skip_pre by exact Hpre. cbn. rewrite Hm. reflexivity.
Qed.

(* main generalized statement *)
Lemma finish_eq : forall m st, blen st = m -> Inv st ->
  forall prog pre rs t n n', readers = pre ++ rs ->
  blen st + (if prog : bool then 3 else 2) <= n -> blen st + 2 <= n' ->
  (prog = false -> forall r, In r pre -> rmatch r st = false) ->
  finish n rs prog st t = loop1 n' st t.
Proof.
  induction m as [m IHm] using lt_wf_ind. intros st Hm Hinv.
  (* second level: prog false before true, via explicit two-phase *)
  assert (Hprog_false: forall pre rs t n n', readers = pre ++ rs ->
     blen st + 2 <= n -> blen st + 2 <= n' ->
     (forall r, In r pre -> rmatch r st = false) ->
     finish n rs false st t = loop1 n' st t).
  { intros pre rs. revert pre. induction rs as [|r rs IHrs]; intros pre t n n' Heq Hn Hn' Hpre.
    - (* end of pass, no progress *)
      unfold finish, pass_list. cbn [fold_left negb andb].
      destruct n' as [|n']; [lia|]. cbn [loop1].
      destruct (pfv st) eqn:Hv; cbn [negb]; [|reflexivity].
      rewrite Nat.eqb_refl.
      rewrite (find_none_suffix pre [] st) by (auto; intros ? []).
      destruct n as [|n]; [lia|].
      destruct (skip_progress st Hinv Hv) as [Hlt|Hinvd].
      + rewrite loop_finish. eapply (IHm (blen (skip st))); [lia|reflexivity|apply inv_skip; exact Hinv|symmetry; apply app_nil_l|lia|lia|intros _ ? []].
      + rewrite loop_invalid, loop1_invalid; [reflexivity|exact Hinvd|apply inv_skip; exact Hinv|exact Hinvd].
    - assert (Hin: In r readers) by (rewrite Heq; apply in_or_app; right; now left).
      destruct (rmatch r st) eqn:E.
      + (* reader matches: consumes *)
        assert (Hinrs: forall r0, In r0 rs -> In r0 readers) by (intros; rewrite Heq; apply in_or_app; right; now right).
        pose proof (match_progress r st t Hin Hinv E) as Hp.
        pose proof (match_valid r st Hin Hinv E) as Hv.
        pose proof (inv_run r st t Hin Hinv) as Hi1.
        destruct n' as [|n']; [lia|]. cbn [loop1]. rewrite Hv. cbn [negb].
        rewrite (find_at pre r rs st Hinv Heq E).
        unfold finish, pass_list. cbn [fold_left]. unfold step at 2. cbn [fst snd].
        destruct (rrun r st t) as [st1 t1] eqn:Hr. cbn [fst] in Hi1.
        destruct Hp as [Hlt|[Hinvd Hle]].
        * pose proof (pass_mono rs Hinrs st1 t1 Hi1) as Hmono.
          specialize (IHm (blen st1) ltac:(lia) st1 eq_refl Hi1 true (pre ++ [r]) rs t1 n n').
          unfold finish, pass_list in IHm. unfold pass_list in Hmono.
          destruct (fold_left step rs (st1, t1)) as [st2 t2]. cbn [fst] in Hmono.
          destruct (pfv st2) eqn:Hv2; cbn [negb andb] in *.
          -- replace (Nat.eqb (blen st2) (blen st)) with false by (symmetry; apply Nat.eqb_neq; lia).
             apply IHm; [rewrite <- app_assoc; exact Heq|lia|lia|discriminate].
          -- apply IHm; [rewrite <- app_assoc; exact Heq|lia|lia|discriminate].
        * fold (pass_list rs st1 t1). rewrite pass_invalid by auto. rewrite Hinvd. cbn [negb].
          rewrite loop1_invalid by exact Hinvd. reflexivity.
      + (* reader does not match *)
        unfold finish, pass_list. cbn [fold_left]. unfold step at 2. cbn [fst snd].
        rewrite nomatch_id by auto.
        specialize (IHrs (pre ++ [r]) t n n'). unfold finish, pass_list in IHrs.
        apply IHrs; [rewrite <- app_assoc; exact Heq|lia|lia|].
        intros r0 Hr0. apply in_app_or in Hr0. destruct Hr0 as [Hr0|[<-|[]]]; [apply Hpre; exact Hr0|exact E]. }
  intros [|] pre rs t n n' Heq Hn Hn' Hpre; [|apply (Hprog_false pre); auto].
  (* prog = true *)
  revert pre t Heq Hpre. induction rs as [|r rs IHrs]; intros pre t Heq _.
  - unfold finish, pass_list. cbn [fold_left negb andb].
    destruct (pfv st) eqn:Hv; cbn [negb].
    + destruct n as [|n]; [lia|]. rewrite loop_finish.
      apply (Hprog_false [] readers); [reflexivity|lia|lia|intros ? []].
    + rewrite loop1_invalid by exact Hv. reflexivity.
  - assert (Hin: In r readers) by (rewrite Heq; apply in_or_app; right; now left).
    assert (Hinrs: forall r0, In r0 rs -> In r0 readers) by (intros; rewrite Heq; apply in_or_app; right; now right).
    destruct (rmatch r st) eqn:E.
    + pose proof (match_progress r st t Hin Hinv E) as Hp.
      pose proof (match_valid r st Hin Hinv E) as Hv.
      pose proof (inv_run r st t Hin Hinv) as Hi1.
      destruct n' as [|n']; [lia|]. cbn [loop1]. rewrite Hv. cbn [negb].
      rewrite (find_at pre r rs st Hinv Heq E).
      unfold finish, pass_list. cbn [fold_left]. unfold step at 2. cbn [fst snd].
      destruct (rrun r st t) as [st1 t1] eqn:Hr. cbn [fst] in Hi1.
      destruct Hp as [Hlt|[Hinvd Hle]].
      * specialize (IHm (blen st1) ltac:(lia) st1 eq_refl Hi1 true (pre ++ [r]) rs t1 n n').
        unfold finish, pass_list in IHm. cbn [negb andb] in *.
        apply IHm; [rewrite <- app_assoc; exact Heq|lia|lia|discriminate].
      * fold (pass_list rs st1 t1). rewrite pass_invalid by auto. rewrite Hinvd. cbn [negb].
        rewrite loop1_invalid by exact Hinvd. reflexivity.
    + unfold finish, pass_list. cbn [fold_left]. unfold step at 2. cbn [fst snd].
      rewrite nomatch_id by auto.
      specialize (IHrs (pre ++ [r]) t). unfold finish, pass_list in IHrs.
      apply IHrs; [rewrite <- app_assoc; exact Heq|discriminate].
Qed.

Theorem loop_equiv st t n n' : Inv st -> blen st + 3 <= n -> blen st + 2 <= n' -> loop n st t = loop1 n' st t.
Proof.
  intros Hi Hn Hn'. destruct n as [|n]; [lia|]. rewrite loop_finish.
  apply (finish_eq (blen st) st eq_refl Hi false [] readers); [reflexivity|lia|lia|intros _ ? []].
Qed.
End Loop.
