(* Token contracts of the basic cursor moves: skipping a field, and the typed single readers. *)
From Coq Require Import List ZArith Lia Bool Arith.
From Pico Require Import Base.Res Base.ListX Base.Mach Wire.Wire Schema.Types Schema.Scalar Ref.Ref
  Wire.VarintProofs Wire.FixedProofs Schema.ScalarProofs Dec.Dec Dec.ReaderProofs Dec.SafetyProofs
  Dec.LoopEquiv Dec.LoopInst Dec.TokenBridge Dec.StreamLoop.
Import ListNotations.
Open Scope Z_scope.

Definition tok_of (st : dstate) (p : payload) (k : nat) : token :=
  {| t_num := pf st; t_wt := pw st; t_pay := p; t_raw := firstn k (buf st) |}.

Lemma st_tokens_unfold st : st_tokens st =
  match parse_value (pf st) (pw st) (buf st) with
  | None => None
  | Some (p, k) => match tokens (skipn k (buf st)) with Some ts => Some (tok_of st p k :: ts) | None => None end
  end.
Proof. reflexivity. Qed.

Lemma parse_value_len num wt rest p k : bytes_ok rest -> parse_value num wt rest = Some (p, k) -> (k <= length rest)%nat.
Proof. intros Hb E. pose proof (cfv_parse_value num wt rest Hb) as H. rewrite E in H. tauto. Qed.

Section OneToken.
Context {T : Type}.
Variable h : token -> T -> option T.

(* a step that handles exactly the pending token (or fails where the tokenizer/handler fails) *)
Lemma one_token_step st t st1 t1 :
  err st = None -> bytes_ok (buf st) ->
  match parse_value (pf st) (pw st) (buf st) with
  | None => err st1 <> None /\ bytes_ok (buf st1)
  | Some (p, k) =>
      match h (tok_of st p k) t with
      | None => err st1 <> None /\ bytes_ok (buf st1)
      | Some t' => st1 = next_field (Z.of_nat k) st /\ t1 = t'
      end
  end -> step_ok h st t st1 t1.
Proof.
  intros He Hb H. unfold step_ok. rewrite st_tokens_unfold.
  destruct (parse_value (pf st) (pw st) (buf st)) as [[p k]|] eqn:Ep; [|split; [tauto|left; tauto]].
  pose proof (parse_value_len _ _ _ _ _ Hb Ep) as Hk.
  destruct (h (tok_of st p k) t) as [t'|] eqn:Eh.
  - destruct H as [-> ->]. rewrite next_field_adv by lia. rewrite Nat2Z.id.
    destruct (skipn k (buf st)) as [|y l] eqn:Es.
    + rewrite tokens_nil. split; [constructor|]. right. split; [exact He|].
      exists [tok_of st p k], []. repeat split; [discriminate|cbn; exact Eh|]. left. split; reflexivity.
    + assert (Hbs : bytes_ok (y :: l)) by (rewrite <- Es; apply bytes_ok_skipn; exact Hb).
      pose proof (tokens_enter (y :: l) (pf st) (pw st) (err st) Hbs ltac:(discriminate)) as Hent. cbn zeta in Hent.
      destruct Hent as [[Hv [Hee [Hst [Hlen Hbb]]]]|[Hee [_ Htk]]].
      * split; [exact Hbb|]. rewrite <- Hst.
        destruct (st_tokens (next_field 0 (mkst (pf st) (pw st) (y :: l) (err st)))) as [ts|] eqn:Ets.
        -- right. split; [congruence|]. exists [tok_of st p k], ts. repeat split; [discriminate|cbn; exact Eh|].
           right. split; [exact Hv|]. split; [reflexivity|]. unfold blen.
           assert (length (y :: l) <= length (buf st))%nat by (rewrite <- Es, skipn_length; lia). lia.
        -- right. split; [congruence|]. split; [exact Hv|]. split; [reflexivity|]. unfold blen.
           assert (length (y :: l) <= length (buf st))%nat by (rewrite <- Es, skipn_length; lia). lia.
      * rewrite Htk. split; [|left; exact Hee].
        (* the failing next_field keeps the buffer *)
        unfold next_field, mkst. cbn [buf pf pw err]. rewrite has_len_z_0. cbn [Z.ltb Z.compare orb negb Z.to_nat skipn].
        destruct (consume_tag (y :: l)) as [[f w] n]. destruct (n <? 0); [exact Hbs|].
        destruct (negb (valid_number f)); [exact Hbs|]. cbn [buf]. apply bytes_ok_skipn. exact Hbs.
  - destruct H as [He1 Hb1]. split; [exact Hb1|].
    destruct (tokens (skipn k (buf st))) as [ts|]; [|left; exact He1].
    left. split; [exact He1|]. rewrite fold_opt_cons, Eh. apply fold_opt_none.
Qed.

(* Loop's skip of a field nobody consumed, for a handler that ignores the pending token *)
Lemma skip_step st t :
  err st = None -> bytes_ok (buf st) ->
  (forall p k, parse_value (pf st) (pw st) (buf st) = Some (p, k) -> h (tok_of st p k) t = Some t) ->
  step_ok h st t (skip st) t.
Proof.
  intros He Hb Hh. apply one_token_step; [exact He|exact Hb|].
  pose proof (cfv_parse_value (pf st) (pw st) (buf st) Hb) as Hc. unfold skip.
  destruct (parse_value (pf st) (pw st) (buf st)) as [[p k]|] eqn:Ep; cbv beta iota in Hc.
  - rewrite (Hh p k eq_refl). destruct Hc as [-> _]. split; reflexivity.
  - unfold next_field. replace (consume_field_value (pf st) (pw st) (buf st) <? 0) with true by (symmetry; apply Z.ltb_lt; lia).
    cbn. split; [discriminate|exact Hb].
Qed.
End OneToken.

(* ---------------------------------------------------------------- typed single values *)
Lemma parse_value_wire num wt rest p k : parse_value num wt rest = Some (p, k) ->
  match p with PVarint _ => wt = 0 | PFixed64 _ => wt = 1 | PBytes _ => wt = 2 | PGroup => wt = 3 | PFixed32 _ => wt = 5 end.
Proof.
  intros E. destruct (Z.eq_dec wt 0) as [->|N0].
  { cbn [parse_value] in E. destruct (spec_parse_varint rest) as [[v kk]|]; inversion E; subst; cbn; reflexivity. }
  destruct (Z.eq_dec wt 5) as [->|N5].
  { cbn [parse_value] in E. destruct (has_len_z rest 4); inversion E; subst; cbn; reflexivity. }
  destruct (Z.eq_dec wt 1) as [->|N1].
  { cbn [parse_value] in E. destruct (has_len_z rest 8); inversion E; subst; cbn; reflexivity. }
  destruct (Z.eq_dec wt 2) as [->|N2].
  { cbn [parse_value] in E. destruct (spec_parse_varint rest) as [[v kk]|]; [|discriminate].
    destruct (negb (has_len_z (skipn kk rest) v)); inversion E; subst; cbn; reflexivity. }
  destruct (Z.eq_dec wt 3) as [->|N3].
  { cbn [parse_value] in E. destruct (consume_field_value num 3 rest <? 0); inversion E; subst; cbn; reflexivity. }
  rewrite parse_value_other in E by assumption. discriminate.
Qed.

Lemma le_value_bound b : bytes_ok b -> 0 <= le_value b < 256 ^ Z.of_nat (length b).
Proof.
  induction b as [|y b IH]; intros H; [cbn; lia|]. inversion H; subst. specialize (IH H3).
  cbn [le_value length]. rewrite Nat2Z.inj_succ, Z.pow_succ_r by lia. lia.
Qed.

(* Consume<Suffix> on arbitrary bytes: the value and length of the reference token, or failure *)
Theorem dec_payload_parse k num rest : bytes_ok rest ->
  match parse_value num (wire_of k) rest with
  | Some (p, kk) => exists x, tok_scalar k {| t_num := num; t_wt := wire_of k; t_pay := p; t_raw := firstn kk rest |} = Some x /\
                              dec_payload k rest = (x, Z.of_nat kk)
  | None => snd (dec_payload k rest) < 0
  end.
Proof.
  intros Hb. unfold dec_payload, tok_scalar. cbn [t_pay t_wt].
  assert (Hw : wire_of k = 0 \/ wire_of k = 5 \/ wire_of k = 1 \/ wire_of k = 2) by (destruct k; cbn; auto).
  destruct Hw as [Hw|[Hw|[Hw|Hw]]]; rewrite Hw.
  - cbn [parse_value]. pose proof (consume_varint_parse rest Hb) as H.
    destruct (spec_parse_varint rest) as [[v kk]|].
    + destruct H as [E [_ Hv]]. rewrite E. cbn [Z.eqb]. eexists; split; [reflexivity|]. rewrite dec_tr_spec by exact Hv. reflexivity.
    + destruct (consume_varint rest) as [x n]. exact H.
  - cbn [parse_value].
    destruct rest as [|b0 [|b1 [|b2 [|b3 b]]]]; cbn [has_len_z Z.leb Z.compare orb Z.sub Z.add Z.opp Z.pos_sub Pos.pred_double];
      try (cbn; unfold errTruncated; lia).
    rewrite has_len_z_0. inversion Hb as [|? ? H0 Hb1]; subst. inversion Hb1 as [|? ? H1 Hb2]; subst.
    inversion Hb2 as [|? ? H2 Hb3]; subst. inversion Hb3 as [|? ? H3 Hb4]; subst.
    rewrite consume_fixed32_le by assumption. cbn [firstn]. eexists; split; [reflexivity|].
    rewrite dec_tr_spec; [reflexivity|].
    pose proof (le_value_bound [b0; b1; b2; b3] (Forall_cons _ H0 (Forall_cons _ H1 (Forall_cons _ H2 (Forall_cons _ H3 (Forall_nil _)))))) as Hl. cbn [length] in Hl.
    change (256 ^ Z.of_nat 4) with (2 ^ 32) in Hl. lia.
  - cbn [parse_value].
    destruct rest as [|b0 [|b1 [|b2 [|b3 [|b4 [|b5 [|b6 [|b7 b]]]]]]]]; cbn [has_len_z Z.leb Z.compare orb Z.sub Z.add Z.opp Z.pos_sub Pos.pred_double];
      try (cbn; unfold errTruncated; lia).
    rewrite has_len_z_0. inversion Hb as [|? ? H0 Hb1]; subst. inversion Hb1 as [|? ? H1 Hb2]; subst.
    inversion Hb2 as [|? ? H2 Hb3]; subst. inversion Hb3 as [|? ? H3 Hb4]; subst.
    inversion Hb4 as [|? ? H4 Hb5]; subst. inversion Hb5 as [|? ? H5 Hb6]; subst.
    inversion Hb6 as [|? ? H6 Hb7]; subst. inversion Hb7 as [|? ? H7 Hb8]; subst.
    rewrite consume_fixed64_le by assumption. cbn [firstn]. eexists; split; [reflexivity|].
    rewrite dec_tr_spec; [reflexivity|].
    pose proof (le_value_bound [b0; b1; b2; b3; b4; b5; b6; b7] (Forall_cons _ H0 (Forall_cons _ H1 (Forall_cons _ H2 (Forall_cons _ H3 (Forall_cons _ H4 (Forall_cons _ H5 (Forall_cons _ H6 (Forall_cons _ H7 (Forall_nil _)))))))))) as Hl. cbn [length] in Hl.
    change (256 ^ Z.of_nat 8) with (2 ^ 64) in Hl. lia.
  - cbn [parse_value]. unfold consume_bytes. pose proof (consume_varint_parse rest Hb) as H.
    destruct (spec_parse_varint rest) as [[len kk]|].
    + destruct H as [E [Hk Hv]]. rewrite E. replace (Z.of_nat kk <? 0) with false by (symmetry; apply Z.ltb_ge; lia).
      rewrite Nat2Z.id. destruct (has_len_z (skipn kk rest) len) eqn:Eh; cbn [negb].
      * eexists; split; [reflexivity|]. f_equal. lia.
      * cbn. unfold errTruncated. lia.
    + destruct (consume_varint rest) as [m n]. cbn [snd] in H. replace (n <? 0) with true by (symmetry; apply Z.ltb_lt; lia). cbn. exact H.
Qed.

(* a token whose wire type is not the kind's carries no value for the kind *)
Lemma tok_scalar_wrong_wire k num wt rest p kk : parse_value num wt rest = Some (p, kk) -> wt <> wire_of k ->
  tok_scalar k {| t_num := num; t_wt := wt; t_pay := p; t_raw := firstn kk rest |} = None.
Proof.
  intros E Hw. apply parse_value_wire in E. unfold tok_scalar. cbn [t_pay t_wt].
  destruct p; subst wt; destruct k; cbv in Hw; try reflexivity; exfalso; apply Hw; reflexivity.
Qed.

Section Single.
Context {T : Type}.
Variable h : token -> T -> option T.
Variables (k : kind) (num : Z) (get : T -> val) (set : T -> val -> T).

(* K(field, &v) on the pending field `num`, for a handler that stores the token's value *)
Lemma single_step st t :
  err st = None -> bytes_ok (buf st) -> pf st = num ->
  (forall tok, t_num tok = num -> h tok t = match tok_scalar k tok with Some x => Some (set t x) | None => None end) ->
  let '(st1, x) := dec_single k num st (get t) in step_ok h st t st1 (set t x).
Proof.
  intros He Hb Hpf Hh. unfold dec_single. rewrite Hpf, Z.eqb_refl. cbn [negb].
  destruct (Z.eqb_spec (pw st) (wire_of k)) as [Ew|Ew]; cbn [negb].
  - pose proof (dec_payload_parse k num (buf st) Hb) as Hd.
    destruct (dec_payload k (buf st)) as [x n] eqn:Edp.
    destruct (parse_value num (wire_of k) (buf st)) as [[p kk]|] eqn:Ep.
    + destruct Hd as [x' [Ht Ed]]. inversion Ed; subst x' n. replace (Z.of_nat kk <? 0) with false by (symmetry; apply Z.ltb_ge; lia).
      apply one_token_step; [exact He|exact Hb|]. rewrite Hpf, Ew, Ep. rewrite Hh by (cbn; exact Hpf).
      unfold tok_of. rewrite Hpf, Ew, Ht. split; reflexivity.
    + cbn [snd] in Hd. replace (n <? 0) with true by (symmetry; apply Z.ltb_lt; lia).
      apply one_token_step; [exact He|exact Hb|]. rewrite Hpf, Ew, Ep. cbn. split; [discriminate|exact Hb].
  - apply one_token_step; [exact He|exact Hb|].
    destruct (parse_value (pf st) (pw st) (buf st)) as [[p kk]|] eqn:Ep; [|cbn; split; [discriminate|exact Hb]].
    rewrite Hh by (cbn; exact Hpf). unfold tok_of. rewrite (tok_scalar_wrong_wire k _ _ _ _ _ Ep Ew).
    cbn. split; [discriminate|exact Hb].
Qed.
End Single.
