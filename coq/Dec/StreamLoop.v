(* The single-pass parser over readers that meet a token contract IS the fold of the
   per-token handler over the reference token list of the input (the shape of Ref.ref_decode),
   including the failure cases: it ends with dec.err set exactly when the tokenizer or a
   handler fails. Abstract in the target type, the handler and the readers. *)
From Coq Require Import List ZArith Lia Bool Arith.
From Pico Require Import Base.Res Base.ListX Base.Mach Wire.Wire Schema.Types Schema.Scalar Ref.Ref
  Wire.VarintProofs Dec.Dec Dec.ReaderProofs Dec.SafetyProofs Dec.LoopEquiv Dec.LoopInst Dec.TokenBridge.
Import ListNotations.
Open Scope Z_scope.

Definition fold_opt {T} (h : token -> T -> option T) (ts : list token) (o : option T) : option T :=
  fold_left (fun acc t => match acc with Some y => h t y | None => None end) ts o.

Lemma fold_opt_none {T} (h : token -> T -> option T) ts : fold_opt h ts None = None.
Proof. induction ts as [|t ts IH]; [reflexivity|exact IH]. Qed.
Lemma fold_opt_app {T} (h : token -> T -> option T) ts1 ts2 o : fold_opt h (ts1 ++ ts2) o = fold_opt h ts2 (fold_opt h ts1 o).
Proof. unfold fold_opt. apply fold_left_app. Qed.
Lemma fold_opt_cons {T} (h : token -> T -> option T) t ts x : fold_opt h (t :: ts) (Some x) = fold_opt h ts (h t x).
Proof. reflexivity. Qed.

Section Stream.
Context {T : Type}.
Variable h : token -> T -> option T.

(* what one step (a reader run, or a skip) may do from a cursor with a valid pending field *)
Definition step_ok (st : dstate) (t : T) (st1 : dstate) (t1 : T) : Prop :=
  bytes_ok (buf st1) /\
  match st_tokens st with
  | None => err st1 <> None \/ (err st1 = None /\ pfv st1 = true /\ st_tokens st1 = None /\ (blen st1 < blen st)%nat)
  | Some ts =>
      (err st1 <> None /\ fold_opt h ts (Some t) = None) \/
      (err st1 = None /\ exists ts1 ts2, ts = ts1 ++ ts2 /\ ts1 <> [] /\ fold_opt h ts1 (Some t) = Some t1 /\
          ((ts2 = [] /\ pf st1 = fieldDone) \/ (pfv st1 = true /\ st_tokens st1 = Some ts2 /\ (blen st1 < blen st)%nat)))
  end.

(* B bounds the length of the buffers the readers are used on (their loops carry fuel B + 3) *)
Variable B : nat.

Definition reader_ok (r : reader T dstate) : Prop := forall st t,
  (blen st <= B)%nat -> err st = None -> bytes_ok (buf st) -> pfv st = true -> rmatch _ _ r st = true ->
  let '(st1, t1) := rrun _ _ r st t in step_ok st t st1 t1.
Definition reader_sticky (r : reader T dstate) : Prop := forall st t, err st <> None -> err (fst (rrun _ _ r st t)) <> None.

Variable readers : list (reader T dstate).
Hypothesis readers_ok : forall r, In r readers -> reader_ok r.
Hypothesis readers_sticky : forall r, In r readers -> reader_sticky r.
Hypothesis skip_ok : forall st t, (blen st <= B)%nat -> err st = None -> bytes_ok (buf st) -> pfv st = true ->
  find (fun r => rmatch _ _ r st) readers = None -> step_ok st t (skip st) t.

Lemma skip_sticky st : err st <> None -> err (skip st) <> None.
Proof. apply next_field_err_sticky. Qed.

Lemma loop1_sticky n : forall st t, err st <> None -> err (fst (loop1 T dstate pfv skip readers n st t)) <> None.
Proof.
  induction n as [|n IH]; intros st t He; [exact He|]. cbn [loop1].
  destruct (negb (pfv st)); [exact He|].
  destruct (find (fun r => rmatch _ _ r st) readers) as [r|] eqn:Ef.
  - apply find_some in Ef. destruct Ef as [Hin _]. pose proof (readers_sticky r Hin st t He) as Hs.
    destruct (rrun _ _ r st t) as [st1 t1]. apply IH. exact Hs.
  - apply IH. apply skip_sticky. exact He.
Qed.

Lemma pfv_done st : pf st = fieldDone -> pfv st = false.
Proof. intros E. unfold pfv. rewrite E. reflexivity. Qed.

Theorem loop1_stream n : forall st t,
  (blen st + 2 <= n)%nat -> (blen st <= B)%nat -> err st = None -> bytes_ok (buf st) -> pfv st = true ->
  let '(st', t') := loop1 T dstate pfv skip readers n st t in
  match st_tokens st with
  | None => err st' <> None
  | Some ts => match fold_opt h ts (Some t) with
               | Some t'' => err st' = None /\ pf st' = fieldDone /\ t' = t''
               | None => err st' <> None
               end
  end.
Proof.
  induction n as [|n IH]; intros st t Hn HB He Hb Hv; [lia|].
  cbn [loop1]. rewrite Hv. cbn [negb].
  assert (Hstep : forall st1 t1, step_ok st t st1 t1 ->
            let '(st', t') := loop1 T dstate pfv skip readers n st1 t1 in
            match st_tokens st with
            | None => err st' <> None
            | Some ts => match fold_opt h ts (Some t) with
                         | Some t'' => err st' = None /\ pf st' = fieldDone /\ t' = t''
                         | None => err st' <> None
                         end
            end).
  { intros st1 t1 [Hb1 Hs]. destruct (st_tokens st) as [ts|].
    - destruct Hs as [[He1 Hf]|[He1 [ts1 [ts2 [Ets [Hne [Hf Hnext]]]]]]].
      + rewrite Hf. pose proof (loop1_sticky n st1 t1 He1) as Hk. destruct (loop1 T dstate pfv skip readers n st1 t1). exact Hk.
      + rewrite Ets, fold_opt_app, Hf. destruct Hnext as [[-> Hd]|[Hv1 [Es1 Hlt]]].
        * cbn [fold_opt fold_left]. destruct n as [|n']; cbn [loop1]; [auto|]. rewrite (pfv_done st1 Hd). cbn [negb]. auto.
        * specialize (IH st1 t1 ltac:(lia) ltac:(lia) He1 Hb1 Hv1). rewrite Es1 in IH. exact IH.
    - destruct Hs as [He1|[He1 [Hv1 [Es1 Hlt]]]].
      + pose proof (loop1_sticky n st1 t1 He1) as Hk. destruct (loop1 T dstate pfv skip readers n st1 t1). exact Hk.
      + specialize (IH st1 t1 ltac:(lia) ltac:(lia) He1 Hb1 Hv1). rewrite Es1 in IH. exact IH. }
  destruct (find (fun r => rmatch _ _ r st) readers) as [r|] eqn:Ef.
  - pose proof (find_some _ _ Ef) as [Hin Hm]. pose proof (readers_ok r Hin st t HB He Hb Hv Hm) as Hr.
    destruct (rrun _ _ r st t) as [st1 t1]. apply Hstep. exact Hr.
  - apply Hstep. apply skip_ok; assumption.
Qed.
End Stream.
