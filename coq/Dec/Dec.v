(* Model of decoder.go and decoder_types.go.  The explicit stack of the Go decoder
   is the call structure here; dec.err is threaded through every state. *)
From Coq Require Import List ZArith Bool Arith.
From Pico Require Import Base.Res Base.Mach Wire.Wire Schema.Types Schema.Scalar.
Import ListNotations.
Open Scope Z_scope.

(* error classes (the message texts of decoder.go, by class) *)
Inductive ecls := EWire | EParse | EAdvance | ETag | EFieldNum | ECustom | EStack.

Record dstate := {
  pf : Z;                       (* pendingField; -1 errored, -2 done *)
  pw : Z;                       (* pendingWire *)
  buf : bytes;
  err : option (Z * ecls)       (* dec.err: (field, class) *)
}.

Definition fieldErrored : Z := -1.
Definition fieldDone : Z := -2.

Definition fail (field : Z) (c : ecls) (st : dstate) : dstate :=
  {| pf := fieldErrored; pw := pw st; buf := buf st; err := Some (field, c) |}.

(* nextField(advance) *)
Definition next_field (advance : Z) (st : dstate) : dstate :=
  if (advance <? 0) || negb (has_len_z (buf st) advance) then fail 0 EAdvance st else
  let b := skipn (Z.to_nat advance) (buf st) in
  match b with
  | [] => {| pf := fieldDone; pw := pw st; buf := b; err := err st |}
  | _ =>
      let '(field, wire, n) := consume_tag b in
      if n <? 0 then fail 0 ETag {| pf := pf st; pw := pw st; buf := b; err := err st |}
      else if negb (valid_number field) then fail 0 EFieldNum {| pf := pf st; pw := pw st; buf := b; err := err st |}
      else {| pf := field; pw := wire; buf := skipn (Z.to_nat n) b; err := err st |}
  end.

(* pushState(message): fresh cursor over `message`, same dec.err; then nextField(0) *)
Definition push_state (message : bytes) (st : dstate) : dstate :=
  next_field 0 {| pf := 0; pw := 0; buf := message; err := err st |}.
(* popState: restore the saved cursor; dec.err stays *)
Definition pop_state (outer inner : dstate) : dstate :=
  {| pf := pf outer; pw := pw outer; buf := buf outer; err := err inner |}.

(* len(a) == len(b), without building the numbers *)
Fixpoint same_len (a b : bytes) : bool :=
  match a, b with
  | [], [] => true
  | _ :: a', _ :: b' => same_len a' b'
  | _, _ => false
  end.

Section WithTarget.
Context {T : Type}.
Definition body := dstate -> T -> dstate * T.

(* Loop(fn) after init: repeat fn until the pending field is not valid; skip a
   field nobody consumed. fuel >= length buf + 2 suffices (LoopProofs). *)
Fixpoint loop (fuel : nat) (fn : body) (st : dstate) (t : T) : dstate * T :=
  match fuel with
  | O => (st, t)
  | S f =>
      let '(st1, t1) := fn st t in
      if negb (valid_number (pf st1)) then (st1, t1)
      else if same_len (buf st1) (buf st) then   (* len(dec.buffer) == startingLength *)
        let n := consume_field_value (pf st1) (pw st1) (buf st1) in
        loop f fn (next_field n st1) t1
      else loop f fn st1 t1
  end.
Definition loop_fuel (st : dstate) : nat := S (S (length (buf st))).

(* Message / PresentMessage (identical bodies): fn is run by Loop on the payload.
   F is the fuel of the inner loop: any number > len(payload) + 1 (the entry point passes one
   number, computed once from the whole input, to every loop: sub-buffers are never longer) *)
Definition dec_message (F : nat) (field : Z) (fn : body) (st : dstate) (t : T) : dstate * T :=
  if negb (field =? pf st) then (st, t) else
  if negb (pw st =? BytesType) then (fail field EWire st, t) else
  let '(message, n) := consume_bytes (buf st) in
  if n <? 0 then (fail field EParse st, t) else
  let inner := push_state message st in
  let '(inner', t') := loop F fn inner t in
  (next_field n (pop_state st inner'), t').

(* RepeatedMessage: fn is called directly (the callback runs c.Loop itself) *)
Fixpoint dec_repeated_message (fuel : nat) (field : Z) (fn : body) (st : dstate) (t : T) : dstate * T :=
  match fuel with
  | O => (st, t)
  | S f =>
      if negb (field =? pf st) then (st, t) else
      if negb (pw st =? BytesType) then (fail field EWire st, t) else
      let '(message, n) := consume_bytes (buf st) in
      if n <? 0 then (fail field EParse st, t) else
      let inner := push_state message st in
      let '(inner', t') := fn inner t in
      dec_repeated_message f field fn (next_field n (pop_state st inner')) t'
  end.
End WithTarget.

(* single typed reader K(field, v) *)
Definition dec_single (k : kind) (field : Z) (st : dstate) (v : val) : dstate * val :=
  if negb (field =? pf st) then (st, v) else
  if negb (pw st =? wire_of k) then (fail field EWire st, v) else
  let '(x, n) := dec_payload k (buf st) in
  if n <? 0 then (fail field EParse st, v) else
  (next_field n st, x).

(* packed payload loop: for len(packed) > 0 { x, xn := Consume(packed); if xn < 0 fail;
   v = append(v, x); packed = packed[xn:] } -- returns the elements appended so far and ok *)
Fixpoint dec_packed (fuel : nat) (k : kind) (packed : bytes) (acc : list val) : list val * bool :=
  match fuel with
  | O => (acc, true)
  | S f =>
      match packed with
      | [] => (acc, true)
      | _ =>
          let '(x, xn) := dec_payload k packed in
          if xn <? 0 then (acc, false)
          else dec_packed f k (skipn (Z.to_nat xn) packed) (acc ++ [x])
      end
  end.

(* RepeatedK(field, v) *)
Fixpoint dec_repeated (fuel : nat) (k : kind) (field : Z) (st : dstate) (vs : list val) : dstate * list val :=
  match fuel with
  | O => (st, vs)
  | S f =>
      if negb (field =? pf st) then (st, vs) else
      if is_scalar_wire k && (pw st =? BytesType) then
        let '(packed, n) := consume_bytes (buf st) in
        if n <? 0 then (fail field EParse st, vs) else
        let '(vs', ok) := dec_packed (S (length packed)) k packed vs in
        if ok then dec_repeated f k field (next_field n st) vs'
        else (fail field EParse st, vs')
      else if pw st =? wire_of k then
        let '(x, n) := dec_payload k (buf st) in
        if n <? 0 then (fail field EParse st, vs) else
        dec_repeated f k field (next_field n st) (vs ++ [x])
      else (fail field EWire st, vs)
  end.

(* RepeatedEnum(field, add): like RepeatedInt32 but the element is int32(x) *)
Definition dec_repeated_enum (fuel : nat) (field : Z) (st : dstate) (vs : list val) : dstate * list val :=
  dec_repeated fuel KInt32 field st vs.

(* UnrecognizedFields(exclude, out) *)
Fixpoint dec_unrecognized (fuel : nat) (exclude : Z) (st : dstate) (out : bytes) : dstate * bytes :=
  match fuel with
  | O => (st, out)
  | S f =>
      if (0 <=? pf st) && ((64 <=? pf st) || negb (Z.testbit exclude (pf st))) then
        let n := consume_field_value (pf st) (pw st) (buf st) in
        if n <? 0 then (fail (pf st) EParse st, out) else
        let out' := out ++ pw_append_tag (pf st) (pw st) ++ firstn (Z.to_nat n) (buf st) in
        dec_unrecognized f exclude (next_field n st) out'
      else (st, out)
  end.
