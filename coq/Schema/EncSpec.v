(* Pure specification of what an emitted Encode program writes, built only from the
   reference building blocks (spec_field, spec_ld, spec_varint, spec_payload): the target of
   the program-level encoder theorem (EncProgProofs.v). *)
From Coq Require Import List ZArith Bool Arith.
From Pico Require Import Base.Res Base.Mach Wire.Wire Schema.Types Schema.Scalar Schema.Gen Schema.Conv Schema.Interp Ref.Ref.
Import ListNotations.
Open Scope Z_scope.

Definition sp_scalar (k : kind) (always : bool) (num : Z) (x : val) : bytes :=
  if negb always && spec_default k x then [] else spec_field k num x.

Definition sp_repeated (k : kind) (always : bool) (num : Z) (vs : list val) : bytes :=
  if negb always && Nat.eqb (length vs) 0 then [] else
  if is_bytes_kind k then flat_map (spec_field k num) vs
  else spec_ld num (flat_map (spec_payload k) vs).          (* packed *)

Definition sp_sec_nanos (sec nanos : Z) : bytes :=
  sp_scalar KInt64 false 1 (VInt sec) ++ sp_scalar KInt32 false 2 (VInt nanos).

Definition sp_cast_elem (c : cast) (num : Z) (v : val) : bytes :=
  match c, v with
  | CastTs, VTime sec nsec => if time_is_zero sec nsec then [] else spec_ld num (sp_sec_nanos sec (s32 nsec))
  | CastDur, VDur d => let '(s, n) := dur_split d in spec_ld num (sp_sec_nanos s n)
  | CastMap kk vk, VMap l =>
      flat_map (fun e => spec_ld num (sp_scalar kk false 1 (fst e) ++ sp_scalar vk false 2 (snd e))) l
  | _, _ => []
  end.

Section SpOp.
Variable R : nat -> option msgv -> bytes * bool.   (* sub-message idx: (its bytes, non-nil) *)

Definition sp_op (fs : list val) (un : bytes) (op : eop) : bytes :=
  match op with
  | EScalar k always rep ptr slot num =>
      let v := slot_get fs slot in
      if rep then sp_repeated k always num (as_list v)
      else if ptr then match v with VOpt (Some x) => sp_scalar k always num x | _ => [] end
      else sp_scalar k always num v
  | EMsgPtr slot num idx =>
      let r := R idx (opt_of_msg (slot_get fs slot)) in if snd r then spec_ld num (fst r) else []
  | EMsgRepPtr slot num idx | EMsgRepVal slot num idx =>
      flat_map (fun x => spec_ld num (fst (R idx (opt_of_msg x)))) (as_list (slot_get fs slot))
  | EMsgPresent slot num idx =>
      match fst (R idx (opt_of_msg (slot_get fs slot))) with [] => [] | p => spec_ld num p end
  | EMsgAlwaysVal slot num idx => spec_ld num (fst (R idx (opt_of_msg (slot_get fs slot))))
  | EEnum always slot num => sp_scalar KInt32 always num (slot_get fs slot)
  | ERepEnum slot num =>
      match as_list (slot_get fs slot) with
      | [] => []
      | vs => spec_ld num (flat_map (fun x => spec_varint (u64 (as_int x))) vs)
      end
  | ECast c ptr rep slot num =>
      let v := slot_get fs slot in
      let one (x : val) := if ptr then match x with VOpt (Some y) => sp_cast_elem c num y | _ => [] end
                           else sp_cast_elem c num x in
      if rep then flat_map one (as_list v) else one v
  | EOpaque _ _ => []
  | EOneof slot inner =>
      match slot_get fs slot, inner with
      | VOpt (Some x), EScalar k always _ _ _ num => sp_scalar k always num x
      | VOpt (Some x), EEnum always _ num => sp_scalar KInt32 always num x
      | VOpt (Some x), ECast c _ _ _ num => sp_cast_elem c num x
      | VMsg (Some m), EMsgPtr _ num idx => let r := R idx (Some m) in if snd r then spec_ld num (fst r) else []
      | VOpt (Some x), EMsgAlwaysVal _ num idx =>
          match x with VEmb fs1 u1 => spec_ld num (fst (R idx (Some (fs1, u1)))) | _ => [] end
      | _, _ => []
      end
  | EUnrec => un
  end.
End SpOp.

Fixpoint sp_msg (fuel : nat) (progs : list prog) (idx : nat) (m : option msgv) : bytes * bool :=
  match fuel with
  | O => ([], false)
  | S f =>
      match m with
      | None => ([], false)
      | Some (fs, un) =>
          match nth_error progs idx with
          | None => ([], false)
          | Some p => (flat_map (sp_op (sp_msg f progs) fs un) (p_enc p), true)
          end
      end
  end.

(* ---- well-typedness of a value against a program (what the Go types guarantee) ---------- *)
Definition lenb (p : bytes) : bool := Z.of_nat (length p) <? 2 ^ 63.

Definition cast_elem_ok (c : cast) (v : val) : bool :=
  match c, v with
  | CastTs, VTime sec nsec => in_sb 64 sec && (0 <=? nsec) && (nsec <? 1000000000)
  | CastDur, VDur d => in_sb 64 d
  | CastMap kk vk, VMap l => forallb (fun e => scalar_ok kk (fst e) && scalar_ok vk (snd e)) l
  | _, _ => false
  end.

Section OpOk.
Variable R : nat -> option msgv -> bytes * bool.
Variable sub_ok : nat -> option msgv -> bool.      (* the sub-message value is well-typed *)

Definition op_ok (fs : list val) (op : eop) : bool :=
  match op with
  | EScalar k always rep ptr slot num =>
      valid_number num &&
      let v := slot_get fs slot in
      if rep then match v with VList l => forallb (scalar_ok k) l && lenb (flat_map (spec_payload k) l) | _ => false end
      else if ptr then match v with VOpt (Some x) => scalar_ok k x | VOpt None => true | _ => false end
      else scalar_ok k v
  | EMsgPtr slot num idx =>
      valid_number num && sub_ok idx (opt_of_msg (slot_get fs slot)) && lenb (fst (R idx (opt_of_msg (slot_get fs slot)))) &&
      match slot_get fs slot with VMsg _ => true | _ => false end                       (* *T *)
  | EMsgPresent slot num idx =>
      valid_number num && sub_ok idx (opt_of_msg (slot_get fs slot)) && lenb (fst (R idx (opt_of_msg (slot_get fs slot)))) &&
      match slot_get fs slot with VEmb _ _ => true | _ => false end                     (* T *)
  | EMsgAlwaysVal slot num idx =>                                                       (* only emitted inside EOneof *)
      valid_number num && sub_ok idx (opt_of_msg (slot_get fs slot)) && lenb (fst (R idx (opt_of_msg (slot_get fs slot)))) &&
      match slot_get fs slot with VEmb _ _ => true | _ => false end
  | EMsgRepPtr slot num idx =>
      valid_number num &&
      match slot_get fs slot with
      | VList l => forallb (fun x => sub_ok idx (opt_of_msg x) && lenb (fst (R idx (opt_of_msg x))) && match x with VMsg _ => true | _ => false end) l
      | _ => false
      end
  | EMsgRepVal slot num idx =>
      valid_number num &&
      match slot_get fs slot with
      | VList l => forallb (fun x => sub_ok idx (opt_of_msg x) && lenb (fst (R idx (opt_of_msg x))) && match x with VEmb _ _ => true | _ => false end) l
      | _ => false
      end
  | EEnum always slot num => valid_number num && scalar_ok KInt32 (slot_get fs slot)
  | ERepEnum slot num =>
      valid_number num &&
      match slot_get fs slot with
      | VList l => forallb (scalar_ok KInt32) l && lenb (flat_map (fun x => spec_varint (u64 (as_int x))) l)
      | _ => false
      end
  | ECast c ptr rep slot num =>
      valid_number num &&
      let v := slot_get fs slot in
      let one (x : val) := if ptr then match x with VOpt (Some y) => cast_elem_ok c y | VOpt None => true | _ => false end
                           else cast_elem_ok c x in
      let lens (x : val) := match c, (if ptr then match x with VOpt (Some y) => y | _ => x end else x) with
                            | CastMap kk vk, VMap l => forallb (fun e => lenb (sp_scalar kk false 1 (fst e) ++ sp_scalar vk false 2 (snd e))) l
                            | _, _ => true end in
      if rep then match v with VList l => forallb one l && forallb lens l | _ => false end else one v && lens v
  | EOpaque _ _ => false
  | EOneof slot inner =>
      match slot_get fs slot, inner with
      | VOpt (Some x), EScalar k _ _ _ _ num => valid_number num && scalar_ok k x
      | VOpt (Some x), EEnum _ _ num => valid_number num && scalar_ok KInt32 x
      | VOpt (Some x), ECast c _ _ _ num => valid_number num && cast_elem_ok c x &&
            match c, x with CastMap kk vk, VMap l => forallb (fun e => lenb (sp_scalar kk false 1 (fst e) ++ sp_scalar vk false 2 (snd e))) l | _, _ => true end
      | VMsg (Some m), EMsgPtr _ num idx => valid_number num && sub_ok idx (Some m) && lenb (fst (R idx (Some m)))
      | VOpt (Some x), EMsgAlwaysVal _ num idx =>
          match x with VEmb fs1 u1 => valid_number num && sub_ok idx (Some (fs1, u1)) && lenb (fst (R idx (Some (fs1, u1)))) | _ => false end
      | VOpt None, EMsgAlwaysVal _ _ _ => true
      | VOpt None, (EScalar _ _ _ _ _ _ | EEnum _ _ _ | ECast _ _ _ _ _) => true      (* another member, or none, selected *)
      | VMsg None, EMsgPtr _ _ _ => true
      | _, _ => false
      end
  | EUnrec => true
  end.
End OpOk.

Fixpoint msg_ok (fuel : nat) (progs : list prog) (idx : nat) (m : option msgv) : bool :=
  match fuel with
  | O => false
  | S f =>
      match m with
      | None => true
      | Some (fs, un) =>
          match nth_error progs idx with
          | None => false
          | Some p => forallb (op_ok (sp_msg f progs) (msg_ok f progs) fs) (p_enc p)
          end
      end
  end.
