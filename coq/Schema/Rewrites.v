(* C02: the reference decoder is invariant under the meaning-preserving wire rewrites
   (statements about two inputs; with T_dec they hold of Unmarshal of generated code). *)
From Coq Require Import List ZArith Lia Bool Arith.
From Pico Require Import Base.Res Base.ListX Base.Mach Wire.Wire Schema.Types Schema.Scalar Schema.Gen Schema.Conv Schema.Interp Ref.Ref
  Dec.Dec Dec.SafetyProofs Dec.LoopInst Dec.TokenBridge Dec.TokenApp Dec.StreamLoop Schema.TDec Schema.Concat.
Import ListNotations.
Open Scope Z_scope.

Section Rw.
Variable s : schema.
Variable rec : nat -> bytes -> msgv -> option msgv.
Variable m : mdesc.

(* ---------------------------------------------------------------- unknown fields *)
(* a token whose number no field has never touches the known fields, wherever it stands *)
Lemma unknown_token_fields tok x : find_field m (t_num tok) = None ->
  exists u', apply_token s rec m tok x = Some (fst x, u').
Proof. intros H. destruct x as [fs un]. unfold apply_token. rewrite H. destruct (m_capture m); eexists; reflexivity. Qed.

(* known-field tokens do not look at, or change, the unrecognized bytes *)
Lemma known_token_un tok fs u1 u2 slot f : find_field m (t_num tok) = Some (slot, f) ->
  match apply_token s rec m tok (fs, u1), apply_token s rec m tok (fs, u2) with
  | Some (fs1, v1), Some (fs2, v2) => fs1 = fs2 /\ v1 = u1 /\ v2 = u2
  | None, None => True
  | _, _ => False
  end.
Proof. intros H. unfold apply_token. rewrite H. cbn [fst snd]. destruct (apply_known s rec m slot f tok fs); auto. Qed.

(* an unknown token commutes with a known one (injected unknown fields can stand anywhere) *)
Theorem unknown_commutes tu tk x slot f : find_field m (t_num tu) = None -> find_field m (t_num tk) = Some (slot, f) ->
  fold_opt (apply_token s rec m) [tu; tk] (Some x) = fold_opt (apply_token s rec m) [tk; tu] (Some x).
Proof.
  intros Hu Hk. cbn [fold_opt fold_left]. unfold apply_token. rewrite Hu, Hk. cbn [fst snd].
  destruct (m_capture m); cbn [fst snd]; destruct (apply_known s rec m slot f tk (fst x)) as [fs'|]; cbn [fst snd]; rewrite ?Hu; reflexivity.
Qed.

(* ---------------------------------------------------------------- fields in any order *)
Lemma set_nth_comm {A} (l : list A) i j x y : i <> j -> set_nth (set_nth l i x) j y = set_nth (set_nth l j y) i x.
Proof. revert i j; induction l as [|a l IH]; intros [|i] [|j] H; cbn; try reflexivity; try congruence. f_equal. apply IH. congruence. Qed.

(* two tokens of different fields outside any oneof commute: every known field is decoded into its own slot *)
Theorem different_fields_commute t1 t2 x slot1 f1 slot2 f2 :
  find_field m (t_num t1) = Some (slot1, f1) -> find_field m (t_num t2) = Some (slot2, f2) -> slot1 <> slot2 ->
  foneof f1 = None -> foneof f2 = None ->
  fold_opt (apply_token s rec m) [t1; t2] (Some x) = fold_opt (apply_token s rec m) [t2; t1] (Some x).
Proof.
  intros H1 H2 Hne Ho1 Ho2. destruct x as [fs un]. cbn [fold_opt fold_left]. unfold apply_token. rewrite H1, H2. cbn [fst snd].
  (* apply_known writes one slot, computed from that slot's current value only *)
  assert (K : forall slot f tok, foneof f = None ->
            exists g : val -> option val, forall fs1, apply_known s rec m slot f tok fs1 =
              match g (nth slot fs1 (VInt 0)) with Some v => Some (set_nth fs1 slot v) | None => None end).
  { intros slot f tok Ho. unfold apply_known.
    eexists (fun cur => _). intros fs1. rewrite (clear_siblings_none m f slot fs1 Ho).
    instantiate (1 := match f_custom f, fty f with
      | COpaque, _ => None
      | (CTimestamp | CDuration), _ =>
          match t_pay tok with
          | PBytes b => match cast_value (f_custom f) b with
                        | None => None
                        | Some x0 => if i_repeated (field_info s f) then Some (VList (as_list cur ++ [if i_pointer (field_info s f) then VOpt (Some x0) else x0]))
                                     else if i_oneof (field_info s f) || i_pointer (field_info s f) then Some (VOpt (Some x0)) else Some x0
                        end
          | _ => None end
      | CNone, (TScalar _ | TEnum) =>
          if i_repeated (field_info s f) then
            match tok_scalar (kind_of_ftype (fty f)) tok with
            | Some x0 => Some (VList (as_list cur ++ [x0]))
            | None => match t_pay tok with
                      | PBytes b => if is_bytes_kind (kind_of_ftype (fty f)) then None else
                                    match unpack (S (length b)) (kind_of_ftype (fty f)) b with Some xs => Some (VList (as_list cur ++ xs)) | None => None end
                      | _ => None end
            end
          else match tok_scalar (kind_of_ftype (fty f)) tok with Some x0 => Some (if i_oneof (field_info s f) || i_pointer (field_info s f) then VOpt (Some x0) else x0) | None => None end
      | CNone, TMsg idx =>
          match t_pay tok with
          | PBytes b =>
              if i_repeated (field_info s f) then
                match rec idx b (zero_of s idx) with
                | Some x0 => Some (VList (as_list cur ++ [if i_pointer (field_info s f) then VMsg (Some x0) else VEmb (fst x0) (snd x0)])) | None => None end
              else if i_pointer (field_info s f) then
                match rec idx b (match cur with VMsg (Some x0) => x0 | _ => zero_of s idx end) with Some x0 => Some (VMsg (Some x0)) | None => None end
              else if i_oneof (field_info s f) then
                match rec idx b (match cur with VOpt (Some (VEmb fs2 u2)) => (fs2, u2) | _ => zero_of s idx end) with Some x0 => Some (VOpt (Some (VEmb (fst x0) (snd x0)))) | None => None end
              else match rec idx b (match cur with VEmb fs2 u2 => (fs2, u2) | _ => zero_of s idx end) with Some x0 => Some (VEmb (fst x0) (snd x0)) | None => None end
          | _ => None end
      | CNone, TMap kk vk =>
          match t_pay tok with
          | PBytes b => match map_entry_of kk vk b with Some (k, v) => Some (VMap (spec_map_set (match cur with VMap l => l | _ => [] end) k v)) | None => None end
          | _ => None end
      | CNone, TMapOther => None
      end).
    cbv beta zeta.
    destruct (f_custom f); try reflexivity; destruct (fty f) as [k| |idx|kk vk|]; try reflexivity.
    - destruct (i_repeated (field_info s f)); [|destruct (tok_scalar _ tok); reflexivity].
      destruct (tok_scalar _ tok); try reflexivity. destruct (t_pay tok); try reflexivity. destruct (is_bytes_kind _); try reflexivity.
      destruct (unpack _ _ _); reflexivity.
    - destruct (i_repeated (field_info s f)); [|destruct (tok_scalar _ tok); reflexivity].
      destruct (tok_scalar _ tok); try reflexivity. destruct (t_pay tok); try reflexivity. destruct (is_bytes_kind _); try reflexivity.
      destruct (unpack _ _ _); reflexivity.
    - destruct (t_pay tok); try reflexivity. destruct (i_repeated (field_info s f)); [destruct (rec idx b (zero_of s idx)); reflexivity|].
      destruct (i_pointer (field_info s f)); [destruct (rec idx b _); reflexivity|].
      destruct (i_oneof (field_info s f)); destruct (rec idx b _); reflexivity.
    - destruct (t_pay tok); try reflexivity. destruct (map_entry_of kk vk b) as [[k v]|]; reflexivity.
    - destruct (t_pay tok); try reflexivity. destruct (cast_value _ b); try reflexivity. destruct (i_repeated (field_info s f)); try reflexivity.
      destruct (i_oneof (field_info s f) || i_pointer (field_info s f)); reflexivity.
    - destruct (t_pay tok); try reflexivity. destruct (cast_value _ b); try reflexivity. destruct (i_repeated (field_info s f)); try reflexivity.
      destruct (i_oneof (field_info s f) || i_pointer (field_info s f)); reflexivity.
    - destruct (t_pay tok); try reflexivity. destruct (cast_value _ b); try reflexivity. destruct (i_repeated (field_info s f)); try reflexivity.
      destruct (i_oneof (field_info s f) || i_pointer (field_info s f)); reflexivity.
    - destruct (t_pay tok); try reflexivity. destruct (cast_value _ b); try reflexivity. destruct (i_repeated (field_info s f)); try reflexivity.
      destruct (i_oneof (field_info s f) || i_pointer (field_info s f)); reflexivity.
    - destruct (t_pay tok); try reflexivity. destruct (cast_value _ b); try reflexivity. destruct (i_repeated (field_info s f)); try reflexivity.
      destruct (i_oneof (field_info s f) || i_pointer (field_info s f)); reflexivity.
    - destruct (t_pay tok); try reflexivity. destruct (cast_value _ b); try reflexivity. destruct (i_repeated (field_info s f)); try reflexivity.
      destruct (i_oneof (field_info s f) || i_pointer (field_info s f)); reflexivity.
    - destruct (t_pay tok); try reflexivity. destruct (cast_value _ b); try reflexivity. destruct (i_repeated (field_info s f)); try reflexivity.
      destruct (i_oneof (field_info s f) || i_pointer (field_info s f)); reflexivity.
    - destruct (t_pay tok); try reflexivity. destruct (cast_value _ b); try reflexivity. destruct (i_repeated (field_info s f)); try reflexivity.
      destruct (i_oneof (field_info s f) || i_pointer (field_info s f)); reflexivity.
    - destruct (t_pay tok); try reflexivity. destruct (cast_value _ b); try reflexivity. destruct (i_repeated (field_info s f)); try reflexivity.
      destruct (i_oneof (field_info s f) || i_pointer (field_info s f)); reflexivity.
    - destruct (t_pay tok); try reflexivity. destruct (cast_value _ b); try reflexivity. destruct (i_repeated (field_info s f)); try reflexivity.
      destruct (i_oneof (field_info s f) || i_pointer (field_info s f)); reflexivity. }
  destruct (K slot1 f1 t1 Ho1) as [g1 G1]. destruct (K slot2 f2 t2 Ho2) as [g2 G2].
  rewrite (G1 fs), (G2 fs).
  destruct (g1 (nth slot1 fs (VInt 0))) as [v1|] eqn:E1; destruct (g2 (nth slot2 fs (VInt 0))) as [v2|] eqn:E2; cbn [fst snd].
  - rewrite G2, G1. rewrite !nth_set_nth_other by congruence. rewrite E1, E2. rewrite (set_nth_comm fs slot1 slot2 v1 v2 Hne). reflexivity.
  - rewrite G2. rewrite nth_set_nth_other by congruence. rewrite E2. reflexivity.
  - rewrite G1. rewrite nth_set_nth_other by congruence. rewrite E1. reflexivity.
  - reflexivity.
Qed.
End Rw.

(* ---------------------------------------------------------------- a sub-message split into several occurrences *)
(* two occurrences of a singular message field merge: decoding payload p1 and then p2 into the field is decoding p1 ++ p2 *)
Theorem split_submessage_merges g s idx p1 p2 x y : bytes_ok p1 -> ref_decode g s idx p1 x = Some y ->
  ref_decode g s idx (p1 ++ p2) x = ref_decode g s idx p2 y.
Proof. apply ref_decode_app. Qed.

(* ---------------------------------------------------------------- the same at the level of input bytes *)
Definition commuting (s : schema) (m : mdesc) (t1 t2 : token) : Prop :=
  (exists slot1 f1 slot2 f2, find_field m (t_num t1) = Some (slot1, f1) /\ find_field m (t_num t2) = Some (slot2, f2) /\
                             slot1 <> slot2 /\ foneof f1 = None /\ foneof f2 = None) \/
  (find_field m (t_num t1) = None /\ exists slot f, find_field m (t_num t2) = Some (slot, f)) \/
  (find_field m (t_num t2) = None /\ exists slot f, find_field m (t_num t1) = Some (slot, f)).

Lemma commuting_swap s rec m t1 t2 o : commuting s m t1 t2 ->
  fold_opt (apply_token s rec m) [t1; t2] o = fold_opt (apply_token s rec m) [t2; t1] o.
Proof.
  intros H. destruct o as [x|]; [|reflexivity].
  destruct H as [[s1 [f1 [s2 [f2 [H1 [H2 [Hne [O1 O2]]]]]]]]|[[Hu [sl [f Hk]]]|[Hu [sl [f Hk]]]]].
  - apply (different_fields_commute s rec m t1 t2 x s1 f1 s2 f2 H1 H2 Hne O1 O2).
  - apply (unknown_commutes s rec m t1 t2 x sl f Hu Hk).
  - symmetry. apply (unknown_commutes s rec m t2 t1 x sl f Hu Hk).
Qed.

(* Two adjacent records - of different fields outside oneofs, or one of them unknown - may be exchanged anywhere in the
   input without changing what the reference decoder returns (value AND verdict). Iterating it gives every reordering
   that keeps the relative order of the records of each field and of the unknown records among themselves. *)
Theorem exchange_adjacent_records g s idx m a r1 r2 c ta t1 t2 x : nth_error s idx = Some m ->
  bytes_ok a -> bytes_ok r1 -> bytes_ok r2 -> tokens a = Some ta -> tokens r1 = Some [t1] -> tokens r2 = Some [t2] ->
  commuting s m t1 t2 ->
  ref_decode (S g) s idx (a ++ r1 ++ r2 ++ c) x = ref_decode (S g) s idx (a ++ r2 ++ r1 ++ c) x.
Proof.
  intros Hm Ha H1 H2 Ta T1 T2 Hc. rewrite !ref_decode_unfold, Hm.
  rewrite (tokens_app a (r1 ++ r2 ++ c) ta Ha Ta), (tokens_app a (r2 ++ r1 ++ c) ta Ha Ta).
  rewrite (tokens_app r1 (r2 ++ c) [t1] H1 T1), (tokens_app r2 c [t2] H2 T2).
  rewrite (tokens_app r2 (r1 ++ c) [t2] H2 T2), (tokens_app r1 c [t1] H1 T1).
  destruct (tokens c) as [tc|]; [|reflexivity]. cbv beta iota.
  pose proof (commuting_swap s (ref_decode g s) m t1 t2 (fold_opt (apply_token s (ref_decode g s) m) ta (Some x)) Hc) as Hsw.
  unfold fold_opt in *. rewrite !fold_left_app. cbn [fold_left] in *. rewrite Hsw. reflexivity.
Qed.


(* ... and for Unmarshal of generated code: same verdict, and the same value when accepted *)
Theorem unmarshal_exchange s progs idx m a r1 r2 c ta t1 t2 t0 :
  gen_all s = GOk progs -> tdec_applies_at s idx = true -> nth_error s idx = Some m ->
  bytes_ok a -> bytes_ok r1 -> bytes_ok r2 -> bytes_ok c -> tokens a = Some ta -> tokens r1 = Some [t1] -> tokens r2 = Some [t2] ->
  commuting s m t1 t2 ->
  let u1 := pico_unmarshal progs idx (a ++ r1 ++ r2 ++ c) t0 in
  let u2 := pico_unmarshal progs idx (a ++ r2 ++ r1 ++ c) t0 in
  (fst u1 = None <-> fst u2 = None) /\ (fst u1 = None -> snd u1 = snd u2).
Proof.
  intros Hgen Happ Hm Ha H1 H2 Hcb Ta T1 T2 Hc. cbv zeta.
  assert (Hb1 : bytes_ok (a ++ r1 ++ r2 ++ c)) by (apply bytes_ok_app; [assumption|apply bytes_ok_app; [assumption|apply bytes_ok_app; assumption]]).
  assert (Hb2 : bytes_ok (a ++ r2 ++ r1 ++ c)) by (apply bytes_ok_app; [assumption|apply bytes_ok_app; [assumption|apply bytes_ok_app; assumption]]).
  pose proof (T_dec_at s progs idx _ t0 Hgen Happ Hb1) as D1. pose proof (T_dec_at s progs idx _ t0 Hgen Happ Hb2) as D2. cbv zeta in D1, D2.
  set (R1 := ref_decode (S (S (S (length (a ++ r1 ++ r2 ++ c))))) s idx (a ++ r1 ++ r2 ++ c) t0) in D1.
  set (R2 := ref_decode (S (S (S (length (a ++ r2 ++ r1 ++ c))))) s idx (a ++ r2 ++ r1 ++ c) t0) in D2.
  assert (ER : R1 = R2).
  { unfold R1, R2. replace (length (a ++ r1 ++ r2 ++ c)) with (length (a ++ r2 ++ r1 ++ c)) by (rewrite !app_length; lia).
    apply (exchange_adjacent_records _ s idx m a r1 r2 c ta t1 t2 t0 Hm Ha H1 H2 Ta T1 T2 Hc). }
  clearbody R1 R2. subst R1.
  destruct R2 as [y|].
  - destruct D1 as [E1 V1]. destruct D2 as [E2 V2]. split; [split; intros _; [exact E2|exact E1]|intros _; rewrite V1, V2; reflexivity].
  - split; [split; intros E; exfalso; [exact (D1 E)|exact (D2 E)]|intros E; exfalso; exact (D1 E)].
Qed.
